"""C17 — stoichiometric analysis (synkit/CRN/Props/stoich.py, utils.py) agrees with exact linear algebra.

case = {"rxns": [[id, rule, lhs, rhs], ...], "iso": [...], "view": "hyper"|"bip_int"|"bip_str"}   (see gen/c17_nets.py)

Observable (implementation side; the model produces the same shape):
  [0, species_order, reaction_labels, S, S_minus, S_plus, incidence species order, sorted edge ids, incidence matrix,
   certificate-checker flag (always True on the implementation side), rank, [m, dim left kernel], [n, dim right kernel],
   conservative verdict, consistent verdict (None = inconclusive)]            or [2] when the API raises ValueError.
All float outputs (S entries, ranks, basis shapes) are reduced to integers/booleans; float bases and witnesses are
checked by the oracle with tolerances (TESTED_NOT_PROVED).
"""
from ..coqrun import cZ, cN, cnat, cbool, clist, cpair
from ..gen import c17_exact as X
from ..gen import c17_nets as G

PID = "C17"
KNOWN_LP_KEY = "stoich._positive_conservation_law_from_basis:LP-branch:false-negative"
COQ_HEADER = ("From Coq Require Import List NArith ZArith.\nImport ListNotations.\n"
              "From SK Require Import lib.Tok lib.C17_Farkas model.C17_Model model.C17_NodeModel model.C17_IntLaws model.C17_RawModel model.C17_Fallback.\n")
SHARD = 250
IMPL_TIMEOUT = 2400
COQ_TIMEOUT = 1500
RULE = ("reaction networks (list of reactions with explicit ids/rules, optional isolated species, hypergraph or bipartite view); "
        "non-trivial = at least one reaction and a non-zero stoichiometric matrix; distinct = distinct case content")
EXHAUSTIVE = {"quick": True, "thorough": True}
EXPLANATION = ("quick: ALL sets of 1..2 reactions over the 90 reactions between the 10 complexes of molecularity <= 2 on 3 species "
               "(4095 networks; names/rules/ids/insertion order are PRNG decorations); thorough adds ALL sets of 1..2 reactions with every "
               "coefficient in {0,1,2} over 3 species, one representative per species-permutation orbit (~4.5e4).  Plus seeded random "
               "networks <= 7 species x 6 reactions (coefficients <= 3, catalysts, repeats, multi-digit factors, isolated species, bipartite "
               "views incl. node ids permuted against the labels), 40 networks with 10-14 species and 10-14 reactions (two-digit node ids, "
               "row/column indices and generated edge ids; every view), mass-balanced random networks (LP branch of is_conservative), textbook families and the regression corpus.  "
               "Theorems: build_S entries / order / agreement with incidence_matrix for every network; soundness of the rank, "
               "conservativity and consistency certificate checkers for every integer matrix; kernel dimensions from the certified rank.")
TRUSTED_BASE = [
    "Coq 8.16.1 kernel + vm_compute (no native_compute)",
    "MathComp 1.15 (\\rank over rat) and mathcomp.zify ssrZ for the list-to-matrix bridge (lib/RankBridge.v), axiom-free",
    "hand-written models coq/model/C17_Model.v (label level) and coq/model/C17_NodeModel.v (node-identifier level; evaluated on the node "
    "ids of the graph the implementation really used) tied to stoich.py/utils.py/conversion.py by the per-run correspondence",
    "harness encoders harness/props/C17.py (case -> Gallina literal; numpy arrays -> integers; floats -> exact float.as_integer_ratio() pairs) and the tok digest",
    "model/C17_RawModel.v: the attribute layer (classification by kind / bipartite, label fall-back to str(node), role / stoich defaults) — the encoder hands over "
    "each attribute as the code's == tests read it (0 == False == 0.0, 1 == True); str(node) and str(label) are computed by Python",
    "model/C17_IntLaws.v: hand-written model of CPython 3.12 fractions.Fraction.limit_denominator and of stoich._lcm / _vector_to_minimal_integer / "
    "integer_conservation_laws; which branch the code took is observed by giving the module its own round()",
    "numpy/scipy numerics are NOT trusted and NOT modelled: their integer/boolean outputs are compared per input with certified exact values; the four flags the "
    "verdict logic reads from them are checked per input against the certificates (premise slot, C17_verdicts_sound_checked)",
    "the certificate finders (harness/gen/c17_exact.py: integer echelon factorisation, exact Fraction simplex) are untrusted; only the Coq checkers are",
]
ASSUMPTIONS = ["fractional coefficients of caller-supplied graphs are multiples of 1/4 in the populations (exact in binary floating point)",
               "species labels, rule labels and edge ids are printable ASCII strings (Python str order = code point order); rule labels and edge ids "
               "non-empty (add_rxn replaces an empty rule by its default); species labels may be empty",
               "network given as CRNHyperGraph (or its hypergraph_to_bipartite export); edge ids unique, sides are dicts with positive integer counts",
               "scipy is installed (the LP branches are the ones analysed); the no-scipy population switches the module flag _SCIPY_AVAILABLE off instead of uninstalling"]
TESTED_NOT_PROVED = [
    "float kernel bases annihilate S within 1e-9*max(1,|S|) and have full column rank (oracle, every case)",
    "witness m returned by compute_conservativity is > 0 and m^T S = 0 within 1e-8 (oracle, every case)",
    "numpy matrix_rank / scipy null_space / HiGHS verdicts equal the certified exact values (per input, every case)",
    "completeness direction of is_consistent (a strictly positive flux exists => verdict True): depends on HiGHS succeeding on every feasible LP - tested per input "
    "against the certified truth only (C17_consistent_complete_conditional states the verdict logic given the solver's answer)",
    "existence of a certificate (hard direction of Stiemke): the finder produced a checked certificate for every generated input",
    "integer_conservation_laws: count = species - rank (oracle); the integer / rational logic of _vector_to_minimal_integer and "
    "Fraction.limit_denominator is modelled (model/C17_IntLaws.v, compared entry by entry on networks, direct vectors and limit_denominator queries) "
    "but its two float-rounding fall-back branches are outside the model (marker on both sides; about half of the scipy bases take them), and that "
    "a returned integer law annihilates S is not claimed (the code calls the laws approximate)",
    "a hypergraph analysed, edited (reactions added) and analysed again gives the analysis of the edited network (oracle only, hypergraph view)",
    "that a caller-supplied graph IS the export of some network under an injective identifier assignment (views bip_perm / bip_sperm are "
    "built that way by the harness; C17_S_node_ids covers exactly such graphs)",
]
LEVEL_TEXT = ("Machine-checked proof (Coq) that the model of build_S has one row per species (sorted labels), one column per reaction "
              "(stable order by rule label then id), entry = produced - consumed, and equals the network's own incidence matrix up to that "
              "column order, for every network; that the identifier-level computation the code really performs (nodes sorted by label, row / "
              "column looked up by node identifier, matrices filled arc by arc) gives exactly these labels and matrices for every injective "
              "assignment of node identifiers (two-digit, permuted, string or integer); and that the executable rank / positive-kernel certificate checkers are sound for every "
              "integer matrix (rank over the rationals via MathComp, Stiemke alternative for conservativity and consistency); that limit_denominator returns a positive denominator "
              "within its bound and that _vector_to_minimal_integer (outside its float-rounding fall-backs) returns the zero vector or a gcd-1 vector positively proportional to the "
              "rational approximations of the entries; and that everything computed from a partially attributed caller-supplied graph depends only on the classification tests, effective labels, roles and effective "
              "coefficients (the fully annotated export normalises to the node-level export). The float "
              "results of the implementation (rank, kernel dimensions, verdicts) are compared on every run with certified exact values on an "
              "exhaustive small scope plus random and textbook networks; float bases and witnesses are tolerance-tested.")
LEVEL_NOTE = ("Partial by nature: no theorem is about numpy/scipy/HiGHS. Universal: build_S model theorems and checker soundness. Per input: "
              "agreement of the implementation's integer/boolean outputs with the certified truth. Trusted: Coq kernel, MathComp, the model "
              "and encoders. Untrusted: certificate finders.")


# ------------------------------------------------------------------ building the network

def build(case):
    from synkit.CRN.Hypergraph.hypergraph import CRNHyperGraph
    H = CRNHyperGraph()
    for eid, rule, l, r in case["rxns"]:
        H.add_rxn({s: c for s, c in l}, {s: c for s, c in r}, rule=rule, edge_id=eid)
    for z in case.get("iso", []):
        if z not in H.species:
            H.add_rxn({z: 1}, {}, rule="tmp", edge_id="__tmp__")
            H.remove_species(z, prune_orphans=False)
    return H


def view_of(case, H):
    from synkit.CRN.Hypergraph.conversion import hypergraph_to_bipartite
    v = case.get("view", "hyper")
    if v == "bip_int":
        G = hypergraph_to_bipartite(H, integer_ids=True)
        if case.get("frac_d"):
            # FRACTIONAL coefficients on a caller-supplied graph (H2 + 1/2 O2 >> H2O): every coefficient c of the network is written
            # c / d on the arc (d = 2 or 4, exact in binary floating point).  S_Q = S_Z / d: the matrices are compared times d, exactly;
            # rank, kernel dimensions, conservativity and consistency are those of the integer network (C17_scaling_invariant)
            for _, _, dd in G.edges(data=True):
                dd["stoich"] = dd["stoich"] / case["frac_d"]
        return G
    if v == "bip_str":
        return hypergraph_to_bipartite(H, integer_ids=False)
    if v == "bip_und":
        # an UNDIRECTED bipartite graph with the same node / edge attributes: _as_bipartite orients every incidence by its role
        # (repo a58b70a; before, both directions were created and every coefficient counted twice).  Only for networks in which
        # no species is on both sides of one reaction (an undirected simple graph holds one edge per species/reaction pair).
        import networkx as nx
        assert not has_catalyst(case)
        return nx.Graph(hypergraph_to_bipartite(H, integer_ids=bool(case.get("perm_seed", 0) % 2)))
    if v == "bip_bare":
        # a minimally annotated graph: species nodes WITHOUT a label (the label falls back to the node id, which is the species
        # name here), no 'kind' attribute (classification by the 'bipartite' flag), no 'stoich' on the arcs (read as 1) — only for
        # networks whose coefficients are all 1
        assert all(c == 1 for _, _, l, r in case["rxns"] for _, c in l + r)
        G = hypergraph_to_bipartite(H, species_prefix=None, include_stoich=False)
        for u, d in G.nodes(data=True):
            if d.get("kind") == "species":
                d.pop("label", None)
            d.pop("kind", None)
        return G
    if v == "bip_shuf":
        # a directly built bipartite graph whose SPECIES nodes were inserted in an order unrelated to their labels (reaction
        # nodes interleaved, in edge-id order: the column order among equal rule labels is the node order); integer or string ids
        import random
        import networkx as nx
        G = hypergraph_to_bipartite(H, integer_ids=bool(case.get("perm_seed", 0) % 2))
        sp = [u for u, d in G.nodes(data=True) if d.get("kind") == "species"]
        rn = [u for u, d in G.nodes(data=True) if d.get("kind") == "reaction"]
        random.Random(case.get("perm_seed", 0)).shuffle(sp)
        k = len(sp) // 2
        G2 = nx.DiGraph()
        for u in sp[:k] + rn + sp[k:]:
            G2.add_node(u, **G.nodes[u])
        for u, w, d in G.edges(data=True):
            G2.add_edge(u, w, **d)
        return nx.Graph(G2) if (case.get("perm_seed", 0) % 3 == 0 and not has_catalyst(case)) else G2
    if v in ("bip_perm", "bip_sperm"):
        # caller-supplied graph whose node ids are unrelated to the labels: the integer ids 1..N+M of the export
        # permuted (species and reaction ids interleaved, multi-digit), or strings "n<k>" (string order != numeric order)
        import random
        import networkx as nx
        G = hypergraph_to_bipartite(H, integer_ids=True)
        nodes = list(G.nodes)
        prng = random.Random(case.get("perm_seed", 0))
        if case.get("perm_seed", 0) % 2:            # identifiers of one to four digits (string order, padded order, numeric order all differ)
            ids = prng.sample(range(1, 5000), len(nodes))
        else:
            ids = list(range(1, len(nodes) + 1))
            prng.shuffle(ids)
        mp = {u: (k if v == "bip_perm" else "n%d" % k) for u, k in zip(nodes, ids)}
        return nx.relabel_nodes(G, mp, copy=True)
    return H


def has_catalyst(case):
    return any({x for x, c in l if c > 0} & {x for x, c in r if c > 0} for _, _, l, r in case["rxns"])


def _imat(M):
    import numpy as np
    A = np.asarray(M, dtype=float)
    R = np.rint(A)
    if not np.array_equal(A, R):
        raise TypeError("non-integral matrix entry")
    return [[int(x) for x in row] for row in R.tolist()]


def _one(*vals):
    """Several API routes must give ONE answer; disagreement is an observable that never equals the model's."""
    return vals[0] if all(v == vals[0] for v in vals) else ["DISAGREE"] + [repr(v) for v in vals]


# ------------------------------------------------------------------ the code paths taken when SciPy cannot be imported (round 5)
# stoich._SCIPY_AVAILABLE is a module-level flag set at import time; with it False _null_space falls back to _svd_null_space (numpy),
# is_conservative has no LP (None when the kernel has dimension > 1 and no basis column is sign definite) and is_consistent uses the
# basis scan.  The flag is switched off for the duration of one case.

class _NoSciPy:
    def __enter__(self):
        from synkit.CRN.Props import stoich
        self.m, self.old = stoich, stoich._SCIPY_AVAILABLE
        stoich._SCIPY_AVAILABLE = False
        return stoich

    def __exit__(self, *a):
        self.m._SCIPY_AVAILABLE = self.old


def _noscipy_scan(Xv):
    """oracle inputs of the fall-back model: is some column of the numpy-SVD kernel basis sign definite? (left, right)"""
    import numpy as np
    with _NoSciPy() as stoich:
        L, R = stoich.left_nullspace(Xv), stoich.right_nullspace(Xv)
    eps = 1e-8

    def scan(B):
        B = np.atleast_2d(B)
        return bool(B.size) and any(bool(np.all(B[:, j] > eps) or np.all(B[:, j] < -eps)) for j in range(B.shape[1]))
    return scan(L), scan(R)


def _impl_noscipy(case):
    import warnings
    warnings.filterwarnings("ignore")
    from synkit.CRN.Petri import semiflows
    H = build(case)
    Xv = view_of(case, H)
    with _NoSciPy() as stoich:
        try:
            sp, rx, S = stoich.build_S(Xv)
        except ValueError:
            return [2]
        m, n = len(sp), len(rx)
        L, R = stoich.left_nullspace(Xv), stoich.right_nullspace(Xv)
        L2, R2 = stoich.left_right_kernels(Xv)
        P, T = semiflows.find_p_semiflows(Xv), semiflows.find_t_semiflows(Xv)
        sm = stoich.summary(Xv)
        rank = stoich.stoichiometric_rank(Xv)
        cons = stoich.is_conservative(Xv)
        flag, _w = stoich.compute_conservativity(Xv)
        consist = stoich.is_consistent(Xv)
        laws = stoich.integer_conservation_laws(Xv)
    return [0, True, _one(int(rank), int(sm.rank)),
            [_one(m, int(L.shape[0]), int(L2.shape[0]), int(P.shape[0])),
             _one(int(L.shape[1]), int(L2.shape[1]), int(P.shape[1]), int(sm.dim_left_kernel), len(laws))],
            [_one(n, int(R.shape[0]), int(R2.shape[0]), int(T.shape[0])),
             _one(int(R.shape[1]), int(R2.shape[1]), int(T.shape[1]), int(sm.dim_right_kernel))],
            _opt(_one(cons, flag, sm.is_conservative)), _opt(_one(consist, sm.is_consistent))]


def _coq_case_noscipy(case):
    species, rx, S = ref_matrix(case)
    m, n = len(species), len(rx)
    if n == 0:
        rc, scans = dict(r=0, A=[], B=[], A2=[], B2=[], d=1), (False, False)
    else:
        rc = X.rank_cert(S, m, n)
        import warnings
        warnings.filterwarnings("ignore")
        scans = _noscipy_scan(view_of(case, build(case)))
    return "run_noscipy %s %s %s %s %s" % (cnet(case), clist([_cstr(z) for z in case.get("iso", [])]), crcert(rc),
                                          cbool(scans[0]), cbool(scans[1]))


def _oracle_noscipy(case):
    """without SciPy the kernel bases still have the exact dimensions and annihilate S, and a verdict is either the certified truth or
    None (inconclusive) - never a wrong definite answer"""
    import warnings
    warnings.filterwarnings("ignore")
    import numpy as np
    H = build(case)
    Xv = view_of(case, H)
    fails = []
    with _NoSciPy() as stoich:
        try:
            sp, rx, S = stoich.build_S(Xv)
        except ValueError:
            return []
        S = np.asarray(S, dtype=float)
        Si = _imat(S)
        m, n = len(sp), len(rx)
        er = X.rank_frac(Si)
        L = np.atleast_2d(stoich.left_nullspace(Xv))
        R = np.atleast_2d(stoich.right_nullspace(Xv))
        cons, consist = stoich.is_conservative(Xv), stoich.is_consistent(Xv)
        r1 = stoich.stoichiometric_rank(Xv)
    scale = max(1.0, float(np.abs(S).max()) if S.size else 1.0)
    if r1 != er:
        fails.append(dict(clause="rank", detail="without SciPy: stoichiometric_rank=%r exact=%d  S=%r" % (r1, er, Si)))
    if L.shape != (m, m - er):
        fails.append(dict(clause="left-kernel-dim", detail="without SciPy (_svd_null_space): left basis shape %r, expected (%d,%d)  S=%r" % (L.shape, m, m - er, Si)))
    elif L.size and np.abs(L.T @ S).max() > 1e-9 * scale:
        fails.append(dict(clause="left-kernel-annihilates", detail="without SciPy: max |L^T S| = %g" % np.abs(L.T @ S).max()))
    if R.shape != (n, n - er):
        fails.append(dict(clause="right-kernel-dim", detail="without SciPy (_svd_null_space): right basis shape %r, expected (%d,%d)  S=%r" % (R.shape, n, n - er, Si)))
    elif R.size and np.abs(S @ R).max() > 1e-9 * scale:
        fails.append(dict(clause="right-kernel-annihilates", detail="without SciPy: max |S R| = %g" % np.abs(S @ R).max()))
    truth_c, truth_f = exact_truth(Si, m, n)
    if cons is not None and bool(cons) != truth_c:
        fails.append(dict(clause="conservative", detail="without SciPy: is_conservative=%r, certified truth %r  S=%r" % (cons, truth_c, Si)))
    if consist is not None and bool(consist) != truth_f:
        fails.append(dict(clause="consistent", detail="without SciPy: is_consistent=%r, certified truth %r  S=%r" % (consist, truth_f, Si)))
    return fails[:3]


def impl(case):
    if case.get("ns"):
        return _impl_noscipy(case)
    if case.get("raw"):
        return _impl_raw(case)
    if case.get("il"):
        return _impl_intlaw(case)
    if case.get("states"):
        return _impl_history(case)
    return _impl_core(case, build(case))


# ------------------------------------------------------------------ integer scaling helpers (round 5)
# _vector_to_minimal_integer / integer_conservation_laws / Fraction.limit_denominator against model/C17_IntLaws.v.  A float is handed to
# the model EXACTLY (float.as_integer_ratio()).  The two fall-back branches of _vector_to_minimal_integer round floats and are outside the
# model ([99] on both sides): the harness sees them by giving the module its own `round`.

def _with_round_probe(f):
    """run f() and report whether stoich's code called round() meanwhile"""
    from synkit.CRN.Props import stoich
    used = []

    def probe(x, *a):
        used.append(1)
        return round(x, *a)
    stoich.round = probe
    try:
        out = f()
    finally:
        del stoich.round
    return out, bool(used)


def _law_obs(ints, fell_back):
    return [99] if fell_back else [[int(v) for v in ints]]


def _impl_intlaw(case):
    import warnings
    warnings.filterwarnings("ignore")
    import numpy as np
    from fractions import Fraction
    from synkit.CRN.Props import stoich
    if case["il"] == "limit":
        out = []
        for p_, q_ in case["xs"]:
            r = Fraction(p_, q_).limit_denominator(case["maxd"])
            out.append([int(r.numerator), int(r.denominator)])
        return out
    if case["il"] == "vec":
        vec = np.array([float.fromhex(h) for h in case["vec"]], dtype=float)
        tol = float.fromhex(case["tol"])
        ints, fb = _with_round_probe(lambda: stoich._vector_to_minimal_integer(vec, tol=tol))
        return [_law_obs(ints, fb)]
    # il == "net": integer_conservation_laws of a network, column by column
    Xv = view_of(case, build(case))
    orig = stoich._vector_to_minimal_integer
    flags = []

    def wrapped(vec, **kw):
        out, fb = _with_round_probe(lambda: orig(vec, **kw))
        flags.append(fb)
        return out
    stoich._vector_to_minimal_integer = wrapped
    try:
        laws = stoich.integer_conservation_laws(Xv)
    finally:
        stoich._vector_to_minimal_integer = orig
    assert len(flags) == len(laws)
    return [_law_obs(l, fb) for l, fb in zip(laws, flags)]


# ------------------------------------------------------------------ raw attribute layer (round 5)
# caller-supplied DiGraphs whose nodes / edges carry only SOME of the documented attributes (model/C17_RawModel.v).
# case["raw"] = {"nodes": [[id, attrs], ...], "edges": [[u, v, attrs], ...]}; ids are ints or strings; attrs hold any of
# kind / bipartite / label (nodes), role / stoich (edges) with documented or foreign values.

def _raw_graph(case):
    import networkx as nx
    G = nx.Graph() if case["raw"].get("undirected") else nx.DiGraph()
    for u, a in case["raw"]["nodes"]:
        G.add_node(u, **a)
    for u, v, a in case["raw"]["edges"]:
        G.add_edge(u, v, **a)
    return G


def _impl_raw(case):
    from synkit.CRN.Props import stoich
    from synkit.CRN.Props import utils as U
    G = _raw_graph(case)
    pos = {u: i for i, u in enumerate(G.nodes)}
    try:
        sp_nodes, rx_nodes = U._split_species_reactions(G)
        sl, rl, si, ri = U._species_and_reaction_order(G)
        sp, rx, Sm, Sp = stoich.build_S_minus_plus(G)
        sp2, rx2, S = stoich.build_S(G)
        sn_sorted, sl2, si2 = U._species_order(G)
    except ValueError:
        return [2]
    except KeyError:
        return [3]
    s_sorted = sorted(si, key=lambda u: si[u])
    r_sorted = sorted(ri, key=lambda u: ri[u])
    ok = (set(sp_nodes) == set(si) and set(rx_nodes) == set(ri) and list(sn_sorted) == s_sorted and list(sl2) == list(sl) and si2 == si
          and sorted(si.values()) == list(range(len(si))) and sorted(ri.values()) == list(range(len(ri))))
    k = case["raw"].get("scale", 1)      # fractional coefficients (multiples of 1/scale): the matrices are handed over scaled, exactly
    return [0, _one([pos[u] for u in s_sorted]) if ok else ["INCONSISTENT"], [pos[u] for u in r_sorted],
            _one(list(sl), list(sp), list(sp2)), _one(list(rl), list(rx), list(rx2)), _smat(Sm, k), _smat(Sp, k), _smat(S, k)]


def _smat(M, k):
    """k * M as exact integers (every entry of M is a float: exact rational arithmetic; a non-integral product is an error marker)"""
    from fractions import Fraction
    import numpy as np
    out = []
    for row in np.asarray(M, dtype=float).tolist():
        r = []
        for x in row:
            f = Fraction(x) * k
            r.append(int(f) if f.denominator == 1 else ["NONINTEGRAL", repr(x)])
        out.append(r)
    return out


def _coq_case_raw(case):
    G = _raw_graph(case)
    pos = {u: i for i, u in enumerate(G.nodes)}

    def tri(v, yes, no):
        # [Some true] / [Some false] / [None] exactly as the code's == tests read the value (0 == False == 0.0, 1 == True)
        return "(Some true)" if v == yes else "(Some false)" if v == no else "None"
    nodes = []
    for u, a in G.nodes(data=True):
        lab = a.get("label", None)
        nodes.append("(RNode %s %s %s %s %s)" % (
            cN(pos[u]), _cstr(str(u)), tri(a.get("kind"), "species", "reaction"),
            tri(a["bipartite"], 0, 1) if "bipartite" in a else "None",
            "None" if "label" not in a else "(Some %s)" % _cstr(str(lab))))
    edges = []
    for u, v, a in G.edges(data=True):
        ro = a.get("role")
        edges.append("(REdge %s %s %s %s)" % (
            cN(pos[u]), cN(pos[v]), "(Some Reactant)" if ro == "reactant" else "(Some Product)" if ro == "product" else "None",
            "(Some %s)" % cZ(_scaled(a["stoich"], case["raw"].get("scale", 1))) if "stoich" in a else "None"))
    # undirected: the edges in the orientation networkx stores (and iterates) them; _as_bipartite orients each by its role
    return "%s (RG %s %s)" % ("run_raw_und" if case["raw"].get("undirected") else "run_raw", clist(nodes), clist(edges))


def _scaled(c, k):
    """coefficient c (int or float, a multiple of 1/k) times k, exactly"""
    from fractions import Fraction
    f = Fraction(c) * k
    assert f.denominator == 1, (c, k)
    return int(f)


def _oracle_raw(case):
    """On graphs whose attributes are partly absent the property still fixes the matrix: one row per species-classified node, one
    column per reaction-classified node, entry = produced - consumed over the role-carrying incidences with absent coefficients
    read as 1 (the documented defaults).  Independent reference straight from the case description."""
    from synkit.CRN.Props import stoich
    G = _raw_graph(case)

    def sl(a):
        return a.get("kind") == "species" or ("bipartite" in a and a["bipartite"] == 0)

    def rl(a):
        return a.get("kind") == "reaction" or ("bipartite" in a and a["bipartite"] == 1)
    from fractions import Fraction
    attrs = dict(G.nodes(data=True))
    if any(sl(a) and rl(a) for a in attrs.values()):
        return []                      # contradictory attributes: outside the documented conventions, correspondence only
    species = [u for u in G.nodes if sl(attrs[u])]
    rxns = [u for u in G.nodes if rl(attrs[u])]
    try:
        sp, rx, S = stoich.build_S(G)
    except ValueError:
        return [] if (not species or not rxns) else [dict(clause="S-shape", detail="build_S raised ValueError although the graph has species %r and reactions %r" % (species, rxns))]
    if not species or not rxns:
        return [dict(clause="S-shape", detail="build_S answered on a graph without species or without reactions")]
    lab = lambda u: str(attrs[u].get("label", u))
    want = {}
    for u, v, a in G.edges(data=True):
        s_, r_ = (u, v) if (sl(attrs[u]) and rl(attrs[v])) else (v, u) if (sl(attrs[v]) and rl(attrs[u])) else (None, None)
        if s_ is None:
            continue
        c = Fraction(a.get("stoich", 1))
        if a.get("role") == "product":
            want[(s_, r_)] = want.get((s_, r_), 0) + c
        elif a.get("role") == "reactant":
            want[(s_, r_)] = want.get((s_, r_), 0) - c
    fails = []
    import numpy as np
    Si = [[Fraction(x) for x in row] for row in np.asarray(S, dtype=float).tolist()]
    if sorted(sp) != sorted(lab(u) for u in species) or len(rx) != len(rxns) or len(Si) != len(species) or any(len(r) != len(rxns) for r in Si):
        return [dict(clause="S-shape", detail="rows %r / %d columns; the graph has species %r and %d reaction nodes" % (list(sp), len(rx), sorted(map(lab, species)), len(rxns)))]
    # columns as multisets of (reaction label, {species label: entry}): species labels are unique by construction of the cases
    from collections import Counter
    got = Counter((str(rx[j]), tuple(sorted((sp[i], Si[i][j]) for i in range(len(sp)) if Si[i][j]))) for j in range(len(rx)))
    ref = Counter((lab(r_), tuple(sorted((lab(s_), c) for (s_, r2), c in want.items() if r2 == r_ and c))) for r_ in rxns)
    if got != ref:
        fails.append(dict(clause="S-entries", detail="columns %r, expected %r (nodes %r, edges %r)" % (sorted(got.items()), sorted(ref.items()), case["raw"]["nodes"], case["raw"]["edges"])))
    return fails


def _cfrac(x):
    p_, q_ = float(x).as_integer_ratio()
    return cpair(cZ(p_), cZ(q_))


def _coq_case_intlaw(case):
    import warnings
    warnings.filterwarnings("ignore")
    import numpy as np
    from fractions import Fraction
    from synkit.CRN.Props import stoich
    if case["il"] == "limit":
        xs = []
        for p_, q_ in case["xs"]:
            fr = Fraction(p_, q_)                      # Fraction reduces and makes the denominator positive
            xs.append(cpair(cZ(fr.numerator), cZ(fr.denominator)))
        return "run_limit %s %s" % (cZ(case["maxd"]), clist(xs))
    if case["il"] == "vec":
        return "run_intlaws %s %s" % (_cfrac(float.fromhex(case["tol"])), clist([clist([_cfrac(float.fromhex(h)) for h in case["vec"]])]))
    B = stoich.left_nullspace(view_of(case, build(case)))
    cols = [] if B is None or B.size == 0 else [[float(x) for x in B[:, k]] for k in range(B.shape[1])]
    return "run_intlaws %s %s" % (_cfrac(1e-9), clist([clist([_cfrac(x) for x in col]) for col in cols]))


def _impl_core(case, H, Xv=None):
    import warnings
    warnings.filterwarnings("ignore")
    from synkit.CRN.Props import stoich
    Xv = view_of(case, H) if Xv is None else Xv
    try:
        sp, rx, Sm, Sp = stoich.build_S_minus_plus(Xv)
    except ValueError:
        return [2]
    sp2, rx2, S = stoich.build_S(Xv)
    S0 = stoich.stoichiometric_matrix(Xv)
    fd = case.get("frac_d", 1)
    if fd != 1:
        S, S0, Sm, Sp = (_smat(M_, fd) for M_ in (S, S0, Sm, Sp))
    Si = _imat(S)
    so, eo, mat = H.incidence_matrix(sparse=False)
    m, n = len(sp), len(rx)
    rank = stoich.stoichiometric_rank(Xv)
    L = stoich.left_nullspace(Xv)
    R = stoich.right_nullspace(Xv)
    laws = stoich.integer_conservation_laws(Xv)
    sm = stoich.summary(Xv)
    cons = stoich.is_conservative(Xv)
    flag, _w = stoich.compute_conservativity(Xv)
    consist = stoich.is_consistent(Xv)
    # ---- every other public route to the same quantities (wrappers, facades, non-default tolerances, the sparse forms):
    #      each must give the ONE answer; _one() turns a disagreement into an observable no model value equals
    from synkit.CRN.Petri import semiflows
    so2, eo2, mp = H.incidence_matrix(sparse=True)
    dense_from_sparse = [[int(mp.get((s_, e_), 0)) for e_ in eo2] for s_ in so2]
    hs = H.stoichiometric_matrix(sparse=False)
    hs = hs[2] if isinstance(hs, tuple) else hs
    L2, R2 = stoich.left_right_kernels(Xv)
    L3, R3 = stoich.left_right_kernels(Xv, rtol=1e-10)
    P, T = semiflows.find_p_semiflows(Xv), semiflows.find_t_semiflows(Xv, rtol=1e-9)
    sm2 = stoich.StoichSummary.from_crn(Xv)
    sm3 = stoich.StoichSummary.from_crn(Xv, conservativity_check=False, consistency_check=False)
    sm4 = stoich.StoichSummary.from_crn(Xv, consistency_check=False)
    td = sm.to_dict()
    facade_ok = (sm3.is_conservative is None and sm3.is_consistent is None and sm4.is_consistent is None
                 and sm.is_full_rank == (int(sm.rank) == min(m, n)) and sm.is_underdetermined == (int(sm.rank) < n)
                 and td == dict(n_species=sm.n_species, n_reactions=sm.n_reactions, rank=sm.rank, dim_left_kernel=sm.dim_left_kernel,
                                dim_right_kernel=sm.dim_right_kernel, is_conservative=sm.is_conservative, is_consistent=sm.is_consistent)
                 and all(("= %s" % v) in str(sm) for v in (sm.n_species, sm.n_reactions, sm.rank)))
    # exact truth (certificates found and checked in exact integer arithmetic by the harness; the model re-checks the
    # same certificates with the proved Coq checkers, so these two slots tie the Python truth to the certified one)
    truth_c, truth_f = exact_truth(Si, m, n)
    return [0,
            _one(list(sp), list(sp2)), _one(list(rx), list(rx2)),
            _one(Si, _imat(S0)), _imat(Sm), _imat(Sp),
            _one(list(so), list(so2)), _one(list(eo), list(eo2)), _one(_imat(mat), dense_from_sparse, _imat(hs)),
            bool(facade_ok),
            _one(int(rank), int(sm.rank), int(stoich.stoichiometric_rank(Xv, tol=1e-8)), int(stoich.stoichiometric_rank(Xv, tol=1e-12)),
                 int(sm2.rank), int(sm3.rank)),
            [_one(m, int(L.shape[0]), int(sm.n_species), int(L2.shape[0]), int(P.shape[0]), int(sm2.n_species)),
             _one(int(L.shape[1]), int(sm.dim_left_kernel), len(laws), int(L2.shape[1]), int(L3.shape[1]), int(P.shape[1]),
                  int(sm2.dim_left_kernel), len(stoich.integer_conservation_laws(Xv, rtol=1e-10)),
                  int(stoich.left_nullspace(Xv, rtol=1e-9).shape[1]))],
            [_one(n, int(R.shape[0]), int(sm.n_reactions), int(R2.shape[0]), int(T.shape[0])),
             _one(int(R.shape[1]), int(sm.dim_right_kernel), int(R2.shape[1]), int(R3.shape[1]), int(T.shape[1]),
                  int(stoich.right_nullspace(Xv, rtol=1e-9).shape[1]),
                  int(R.shape[1]) if bool(stoich.has_irreversible_futile_cycles(Xv)) == (int(R.shape[1]) > 0) else -1)],
            truth_c, truth_f,
            _one(cons, flag, sm.is_conservative, sm2.is_conservative, sm4.is_conservative),
            _opt(_one(consist, sm.is_consistent, sm2.is_consistent)),
            # the four premises of C17_verdicts_sound hold on this input: the model computes implb(flag of the numerics, certified truth)
            # for scanL, lpL, lpR = 0, scanR (C17_verdicts_sound_checked); a premise that fails is a correspondence break
            [True, True, True, True]]


def exact_truth(Si, m, n):
    ck, cv = X.positive_kernel_cert(X.transpose(Si, n), n, m)
    St = X.transpose(Si, n)
    assert X.check_pos_py(St, cv) if ck == "pos" else X.check_neg_py(St, cv, m)
    fk, fv = X.positive_kernel_cert(Si, m, n)
    assert X.check_pos_py(Si, fv) if fk == "pos" else X.check_neg_py(Si, fv, n)
    return ck == "pos", fk == "pos"


def trace_numerics(Xv):
    """Run is_conservative / is_consistent with scipy's null_space and linprog WRAPPED and report what the external
    numerics answered (oracle inputs of the model; also used to attribute a failure to the known LP defect)."""
    import numpy as np
    from synkit.CRN.Props import stoich
    rec = dict(ns=[], lp=[])
    o_ns, o_lp = stoich.scipy_null_space, stoich.linprog

    def ns(A, *a, **k):
        B = o_ns(A, *a, **k)
        rec["ns"].append(np.array(B, dtype=float))
        return B

    def lp(c, *a, **k):
        res = o_lp(c, *a, **k)
        rec["lp"].append((dict(k), res))
        return res
    stoich.scipy_null_space, stoich.linprog = ns, lp
    try:
        v_cons = stoich.is_conservative(Xv)
        nsL, lpL = rec["ns"], rec["lp"]
        rec = dict(ns=[], lp=[])
        v_consist = stoich.is_consistent(Xv)
        nsR, lpR = rec["ns"], rec["lp"]
    finally:
        stoich.scipy_null_space, stoich.linprog = o_ns, o_lp
    eps = 1e-8

    def scan(B):
        B = np.atleast_2d(B)
        return bool(B.size) and any(bool(np.all(B[:, j] > eps) or np.all(B[:, j] < -eps)) for j in range(B.shape[1]))
    out = dict(v_cons=v_cons, v_consist=v_consist, scanL=False, lpL_called=bool(lpL), lpL_ok=False, lpL_status=None,
               lpR=2, scanR=False)
    if nsL:
        out["scanL"] = scan(nsL[0])
    if lpL:
        res = lpL[0][1]
        out["lpL_status"] = int(res.status)
        if res.success and res.x is not None:
            mvec = np.atleast_2d(nsL[0]) @ res.x.astype(float)
            out["lpL_ok"] = bool(np.all(mvec > eps))
    if lpR:
        kw, res = lpR[0]
        if res is not None and res.success:
            S = np.asarray(kw["A_eq"], dtype=float)
            v = res.x
            max_v = float(np.max(np.abs(v))) or 1.0
            out["lpR"] = 0 if np.linalg.norm(S @ v, ord=np.inf) / max_v <= 1e-8 else 1
    if nsR:
        out["scanR"] = scan(nsR[0])
    return out


def _opt(v):
    return [] if v is None else [v]


# ------------------------------------------------------------------ reference matrix + certificates (encoder side)

def ref_matrix(case):
    """Species (sorted, with isolated ones), reactions in the order (rule, id), S as integer rows — computed from the
    case alone (used to FIND certificates and by distribution(); the model computes its own S in Coq)."""
    species = sorted({s for _, _, l, r in case["rxns"] for s, _ in l + r} | set(case.get("iso", [])))
    rx = sorted(case["rxns"], key=lambda t: (t[1], t[0]))
    S = [[sum(c for x, c in r if x == s) - sum(c for x, c in l if x == s) for (_, _, l, r) in rx] for s in species]
    return species, rx, S


def _cstr(s):
    assert all(32 <= ord(c) < 127 for c in s), s
    return clist([cN(ord(c)) for c in s])


def _cside(l):
    return clist([cpair(_cstr(s), cZ(c)) for s, c in l])


def cmat(M):
    return clist([clist([cZ(x) for x in row]) for row in M])


def crcert(c):
    return "(RCert %s %s %s %s %s %s)" % (cnat(c["r"]), cmat(c["A"]), cmat(c["B"]), cmat(c["A2"]), cmat(c["B2"]), cZ(c["d"]))


def cfcert(kind, v):
    return "(%s %s)" % ("FPos" if kind == "pos" else "FNeg", clist([cZ(x) for x in v]))


def cnet(case):
    return clist([cpair(_cstr(eid), _cstr(rule), _cside(l), _cside(r)) for eid, rule, l, r in case["rxns"]])


def certificates(S, m, n):
    rc = X.rank_cert(S, m, n)
    cc = X.positive_kernel_cert(X.transpose(S, n), n, m)     # y > 0, S^T y = 0   | neg: w with (S w) >= 0, != 0
    fc = X.positive_kernel_cert(S, m, n)                     # v > 0, S v = 0     | neg: w with w^T S >= 0, != 0
    return rc, cc, fc


def coq_case(case):
    if case.get("ns"):
        return _coq_case_noscipy(case)
    if case.get("raw"):
        return _coq_case_raw(case)
    if case.get("il"):
        return _coq_case_intlaw(case)
    if case.get("states"):
        return "L [%s]" % "; ".join(_coq_case_core(_state_case(case, k)) for k in range(len(case["states"])))
    return _coq_case_core(case)


def _coq_case_core(case):
    species, rx, S = ref_matrix(case)
    m, n = len(species), len(rx)
    if n == 0:
        rc, cc, fc = dict(r=0, A=[], B=[], A2=[], B2=[], d=1), ("pos", []), ("pos", [])
        nm = dict(scanL=False, lpL_ok=False, lpR=2, scanR=False)
    else:
        rc, cc, fc = certificates(S, m, n)
        import warnings
        warnings.filterwarnings("ignore")
        nm = trace_numerics(view_of(case, build(case)))
    sid, rids = node_ids(case)
    return "run_ids %s %s %s %s %s (Num %s %s %s %s) %s %s" % (
        cnet(case), clist([_cstr(z) for z in case.get("iso", [])]), crcert(rc), cfcert(*cc), cfcert(*fc),
        cbool(nm["scanL"]), cbool(nm["lpL_ok"]), cnat(nm["lpR"]), cbool(nm["scanR"]),
        clist([cN(x) for x in sid]), clist([cN(x) for x in rids]))


def node_ids(case):
    """The node identifiers of the graph the implementation really works on (view of the case), as numbers: integers
    as they are, strings interned (identifiers are only ever compared for equality).  Species identifiers in the order
    of sorted(H.species), reaction identifiers in the order of sorted(edge ids) — the node order of the export, which
    relabelling keeps."""
    import networkx as nx
    from synkit.CRN.Hypergraph.conversion import _as_bipartite
    if not case["rxns"]:
        return [], []
    Gv = _as_bipartite(view_of(case, build(case)))
    intern = {}

    def num(u):
        if isinstance(u, int) and not isinstance(u, bool):
            return 2 * u
        return 2 * intern.setdefault(u, len(intern)) + 1
    def is_sp(d):
        return d.get("kind") == "species" or (d.get("kind") is None and d.get("bipartite") == 0)

    def is_rx(d):
        return d.get("kind") == "reaction" or (d.get("kind") is None and d.get("bipartite") == 1)
    sp = [(str(d.get("label", u)), num(u)) for u, d in Gv.nodes(data=True) if is_sp(d)]
    rx = [num(u) for u, d in Gv.nodes(data=True) if is_rx(d)]
    assert len(sp) == len({k for _, k in sp}) and len(rx) == len(set(rx)) and sp and rx
    sp.sort(key=lambda t: t[0])          # aligned with species_set (label order), whatever the node insertion order
    return [k for _, k in sp], rx


# ------------------------------------------------------------------ property oracle

def oracle(case):
    if case.get("ns"):
        return _oracle_noscipy(case)
    if case.get("raw"):
        return _oracle_raw(case)
    if case.get("il"):
        return []          # the property text makes no exact demand on the scaled integer laws (count = species - rank is judged on the
                           # network cases); these cases tie the helper's integer / rational logic to the model (correspondence only)
    if case.get("states"):
        return _oracle_history(case)
    return _oracle_core(case, build(case))


# ------------------------------------------------------------------ edit histories on ONE hypergraph object

def _state_case(case, k):
    st = case["states"][k]
    return dict(kind=case.get("kind"), rxns=st["rxns"], iso=st["iso"], view="hyper", name="%s[state %d]" % (case.get("name", ""), k))


def apply_edit(H, op):
    """in-place edits of the analysed hypergraph (what a caller can do between two analyses)"""
    k = op[0]
    if k == "replace":                 # the reaction is replaced under its OLD id
        _, eid, rule, l, r = op
        H.remove_rxn(eid)
        H.add_rxn({s: c for s, c in l}, {s: c for s, c in r}, rule=rule, edge_id=eid)
    elif k == "coef":                  # a coefficient edited in place (counts of reactions / species unchanged)
        _, eid, side, sp, c = op
        sd = H.edges[eid].reactants if side == "l" else H.edges[eid].products
        sd[sp] = c
    elif k == "rmsp":                  # remove_species; prune_orphans=False keeps the species without incidence
        _, sp, prune = op
        H.remove_species(sp, prune_orphans=bool(prune))
    elif k == "add":
        _, eid, rule, l, r = op
        H.add_rxn({s: c for s, c in l}, {s: c for s, c in r}, rule=rule, edge_id=eid)
    elif k == "del":
        H.remove_rxn(op[1])
    else:
        raise AssertionError(op)


def _touch_everything(H):
    """every derived view a cache could sit behind, read once (results discarded)"""
    import warnings
    warnings.filterwarnings("ignore")
    from synkit.CRN.Props import stoich
    for f in (lambda: H.incidence_matrix(sparse=False), lambda: H.incidence_matrix(sparse=True),
              lambda: H.stoichiometric_matrix(sparse=False), lambda: stoich.build_S(H), lambda: stoich.summary(H),
              lambda: stoich.left_nullspace(H), lambda: stoich.integer_conservation_laws(H)):
        try:
            f()
        except ValueError:
            pass


def apply_graph_edit(Gv, op, ids):
    """the same edits on a CALLER-SUPPLIED bipartite graph, in place (node and edge counts mostly unchanged: a memo keyed
    by the graph object or by its sizes survives them).  ids: species label -> node, edge id -> node."""
    k = op[0]
    if k == "coef":
        _, eid, side, sp, c = op
        u, v = (ids["s"][sp], ids["r"][eid]) if side == "l" else (ids["r"][eid], ids["s"][sp])
        Gv[u][v]["stoich"] = c
    elif k == "replace":                # the incidences of one reaction node are rewritten (rule label too)
        _, eid, rule, l, r = op
        rn = ids["r"][eid]
        for u, v in list(Gv.in_edges(rn)) + list(Gv.out_edges(rn)):
            Gv.remove_edge(u, v)
        Gv.nodes[rn]["label"] = rule
        for sp, c in l + r:
            if sp not in ids["s"]:
                nid = ids["fresh"](sp)
                Gv.add_node(nid, kind="species", label=sp, bipartite=0)
                ids["s"][sp] = nid
        for sp, c in l:
            Gv.add_edge(ids["s"][sp], rn, stoich=c, role="reactant")
        for sp, c in r:
            Gv.add_edge(rn, ids["s"][sp], stoich=c, role="product")
    elif k == "rmsp":                   # all incidences of a species removed, the node stays
        sn = ids["s"][op[1]]
        for u, v in list(Gv.in_edges(sn)) + list(Gv.out_edges(sn)):
            Gv.remove_edge(u, v)
    elif k == "relabel":                # species renamed in place (label attribute only; node id unchanged)
        _, old, new = op
        Gv.nodes[ids["s"][old]]["label"] = new
        ids["s"][new] = ids["s"].pop(old)
    else:
        raise AssertionError(op)


def _graph_history_setup(case):
    from synkit.CRN.Hypergraph.conversion import hypergraph_to_bipartite
    H0 = build(_state_case(case, 0))
    integer = case.get("gview", "bip_int") == "bip_int"
    Gv = hypergraph_to_bipartite(H0, integer_ids=integer)
    ids = dict(s={d["label"]: u for u, d in Gv.nodes(data=True) if d.get("kind") == "species"}, r={})
    rn = [u for u, d in Gv.nodes(data=True) if d.get("kind") == "reaction"]
    for u, eid in zip(rn, sorted(H0.edges)):
        ids["r"][eid] = u
    cnt = [len(Gv)]

    def fresh(sp):
        cnt[0] += 1
        return cnt[0] * 7 + 1000 if integer else "S:new:%s" % sp
    ids["fresh"] = fresh
    return Gv, ids


def _impl_history(case):
    if case.get("gview"):
        Gv, ids = _graph_history_setup(case)
        out = []
        for k in range(len(case["states"])):
            if k:
                for op in case["edits"][k - 1]:
                    apply_graph_edit(Gv, op, ids)
            sub = _state_case(case, k)
            out.append(_impl_core(dict(sub, view="given"), build(sub), Xv=Gv))
        return out
    H = build(_state_case(case, 0))
    out = []
    for k in range(len(case["states"])):
        if k:
            for op in case["edits"][k - 1]:
                apply_edit(H, op)
        _touch_everything(H)
        out.append(_impl_core(_state_case(case, k), H))
    return out


def _oracle_history(case):
    """every state of the edited object is judged like a fresh network (the reference is read off H.species / H.edges, the
    object's own primary data); the states the generator predicted must be the states the object reaches"""
    if case.get("gview"):
        # caller-supplied graph edited in place: judged against a fresh hypergraph of the predicted state
        Gv, ids = _graph_history_setup(case)
        fails = []
        for k in range(len(case["states"])):
            if k:
                for op in case["edits"][k - 1]:
                    apply_graph_edit(Gv, op, ids)
            sub = _state_case(case, k)
            for f in _oracle_core(dict(sub, view="given"), build(sub), Xv=Gv):
                fails.append(dict(f, detail="state %d of the graph edited in place (%r): %s" % (k, case["edits"][k - 1] if k else None, f["detail"])))
            if fails:
                break
        return fails[:4]
    H = build(_state_case(case, 0))
    fails = []
    for k in range(len(case["states"])):
        if k:
            for op in case["edits"][k - 1]:
                apply_edit(H, op)
        st = case["states"][k]
        want_sp = sorted({s for _, _, l, r in st["rxns"] for s, _ in l + r} | set(st["iso"]))
        got = {eid: (e.rule, sorted(e.reactants.to_dict().items()), sorted(e.products.to_dict().items())) for eid, e in H.edges.items()}
        want = {eid: (rule, sorted(map(tuple, l)), sorted(map(tuple, r))) for eid, rule, l, r in st["rxns"]}
        if sorted(H.species) != want_sp or got != want:
            return [dict(clause="history-generator", detail="state %d after %r: the hypergraph holds species %r reactions %r, the case predicted %r %r"
                         % (k, case["edits"][k - 1] if k else None, sorted(H.species), got, want_sp, want))]
        _touch_everything(H)
        for f in _oracle_core(_state_case(case, k), H):
            f = dict(f, detail="state %d (after in-place edits %r): %s" % (k, case["edits"][k - 1] if k else None, f["detail"]))
            fails.append(f)
        if fails:
            break
    return fails[:4]


def _oracle_core(case, H, Xv=None):
    import warnings
    warnings.filterwarnings("ignore")
    import numpy as np
    from collections import Counter
    from synkit.CRN.Props import stoich
    Xv = view_of(case, H) if Xv is None else Xv
    fails = []

    def bad(clause, detail):
        fails.append(dict(clause=clause, detail=detail))

    try:
        sp, rx, S = stoich.build_S(Xv)
    except ValueError as e:
        if H.edges:
            bad("S-shape", "build_S raised ValueError on a network with reactions: %s" % e)
        return fails
    S = np.asarray(S, dtype=float) * case.get("frac_d", 1)         # fractional view: S_Q * d, exact for multiples of 1/4
    species = sorted(H.species)
    edges = list(H.edges.values())
    m, n = len(species), len(edges)
    # --- one row per species, one column per reaction, entry = produced - consumed
    if list(sp) != species or S.shape != (m, n) or len(rx) != n:
        bad("S-shape", "rows %r / shape %r, expected species %r x %d reactions" % (list(sp), S.shape, species, n))
        return fails
    if not np.array_equal(S, np.rint(S)):
        bad("S-entries", "non-integral entries")
        return fails
    Si = [[int(x) for x in row] for row in S.tolist()]
    want = Counter((e.rule, tuple(int(e.products.get(s, 0)) - int(e.reactants.get(s, 0)) for s in species)) for e in edges)
    got = Counter((str(rx[j]), tuple(Si[i][j] for i in range(m))) for j in range(n))
    if want != got:
        bad("S-entries", "columns (label, produced-consumed) %r, expected %r" % (sorted(got.items()), sorted(want.items())))
    # --- agrees with the network's own incidence matrix
    so, eo, mat = H.incidence_matrix(sparse=False)
    inc = Counter((H.edges[eo[j]].rule, tuple(int(mat[i, j]) for i in range(len(so)))) for j in range(len(eo)))
    if list(so) != list(sp) or inc != got:
        bad("S-incidence", "build_S columns %r vs incidence_matrix columns %r" % (sorted(got.items()), sorted(inc.items())))
    _, _, Sm, Sp = stoich.build_S_minus_plus(Xv)
    Sm, Sp = np.asarray(Sm, dtype=float) * case.get("frac_d", 1), np.asarray(Sp, dtype=float) * case.get("frac_d", 1)
    if (np.asarray(Sm) < 0).any() or (np.asarray(Sp) < 0).any() or not np.array_equal(np.asarray(Sp) - np.asarray(Sm), S):
        bad("S-entries", "S_plus - S_minus != S or negative entries")
    # --- rank
    er = X.rank_frac(Si)
    r1 = stoich.stoichiometric_rank(Xv)
    sm = stoich.summary(Xv)
    if r1 != er or sm.rank != er:
        bad("rank", "stoichiometric_rank=%r summary.rank=%r exact=%d  S=%r" % (r1, sm.rank, er, Si))
    # --- kernel bases
    scale = max(1.0, float(np.abs(S).max()) if S.size else 1.0)
    L = np.atleast_2d(stoich.left_nullspace(Xv))
    R = np.atleast_2d(stoich.right_nullspace(Xv))
    if L.shape != (m, m - er) or sm.dim_left_kernel != m - er:
        bad("left-kernel-dim", "left basis shape %r, summary %r, expected (%d,%d)" % (L.shape, sm.dim_left_kernel, m, m - er))
    elif L.size and (np.abs(L.T @ S).max() > 1e-9 * scale or np.linalg.matrix_rank(L) != m - er):
        bad("left-kernel-annihilates", "max |L^T S| = %g" % np.abs(L.T @ S).max())
    if R.shape != (n, n - er) or sm.dim_right_kernel != n - er:
        bad("right-kernel-dim", "right basis shape %r, summary %r, expected (%d,%d)" % (R.shape, sm.dim_right_kernel, n, n - er))
    elif R.size and (np.abs(S @ R).max() > 1e-9 * scale or np.linalg.matrix_rank(R) != n - er):
        bad("right-kernel-annihilates", "max |S R| = %g" % np.abs(S @ R).max())
    laws = stoich.integer_conservation_laws(Xv)
    if len(laws) != m - er:
        bad("left-kernel-dim", "%d integer conservation laws, expected %d" % (len(laws), m - er))
    # --- conservativity: exact decision by a checked certificate
    ck, cv = X.positive_kernel_cert(X.transpose(Si, n), n, m)
    if ck == "pos":
        assert X.check_pos_py(X.transpose(Si, n), cv)
    else:
        assert X.check_neg_py(X.transpose(Si, n), cv, m)
    truth_c = ck == "pos"
    c1 = stoich.is_conservative(Xv)
    c2, wit = stoich.compute_conservativity(Xv)
    verdicts = (("is_conservative", c1), ("compute_conservativity", c2), ("summary.is_conservative", sm.is_conservative))
    if any(bool(v) != truth_c for _, v in verdicts):
        tr = trace_numerics(Xv)
        # Known defect (kept: two repository tests pin it): the LP of _positive_conservation_law_from_basis
        # (min 1^T a, B a >= eps, a free) is unbounded for many orientations of the float basis B, and eps lies below the
        # HiGHS tolerance; "no success" is read as "no law".  A failure is attributed to it only if the network IS
        # conservative, every route answered False, the exact left kernel has dimension > 1, no basis column was sign
        # definite and the LP was actually attempted without a usable answer.  Everything else is a new violation.
        known = (truth_c and all(v is False for _, v in verdicts) and m - er > 1 and tr["lpL_called"]
                 and not tr["scanL"] and not tr["lpL_ok"])
        for nm, v in verdicts:
            if bool(v) != truth_c:
                f = dict(clause="conservative",
                         detail="%s=%r but a strictly positive conservation law %s (certificate %s %r); LP status %r  S=%r"
                         % (nm, v, "exists" if truth_c else "does not exist", ck, cv, tr["lpL_status"], Si))
                if known:
                    f["key"] = KNOWN_LP_KEY
                fails.append(f)
    if wit is not None:
        w = np.asarray(wit, dtype=float)
        if w.shape != (m,) or not (w > 0).all() or np.abs(w @ S).max() > 1e-8 * scale * max(1.0, float(np.abs(w).max())):
            bad("conservative-witness", "returned m=%r is not a strictly positive conservation law (m^T S = %r)" % (w.tolist(), (w @ S).tolist() if w.shape == (m,) else None))
    # --- consistency
    fk, fv = X.positive_kernel_cert(Si, m, n)
    if fk == "pos":
        assert X.check_pos_py(Si, fv)
    else:
        assert X.check_neg_py(Si, fv, n)
    truth_f = fk == "pos"
    f1 = stoich.is_consistent(Xv)
    for nm, v in (("is_consistent", f1), ("summary.is_consistent", sm.is_consistent)):
        if bool(v) != truth_f:
            bad("consistent", "%s=%r but a strictly positive steady flux %s (certificate %s %r)  S=%r"
                % (nm, v, "exists" if truth_f else "does not exist", fk, fv, Si))
    # --- the same network object analysed, EDITED (remaining reactions added), analysed again: the second analysis must
    #     be the analysis of the edited network (no result remembered per object); Python-oracle only
    if case.get("view", "hyper") == "hyper" and len(case["rxns"]) >= 2 and not case.get("iso"):
        from synkit.CRN.Hypergraph.hypergraph import CRNHyperGraph
        cut = len(case["rxns"]) // 2
        H2 = CRNHyperGraph()
        for eid, rule, l, r in case["rxns"][:cut]:
            H2.add_rxn({s_: c for s_, c in l}, {s_: c for s_, c in r}, rule=rule, edge_id=eid)
        try:
            stoich.build_S(H2), stoich.stoichiometric_rank(H2), stoich.is_conservative(H2), stoich.summary(H2)
        except ValueError:
            pass
        for eid, rule, l, r in case["rxns"][cut:]:
            H2.add_rxn({s_: c for s_, c in l}, {s_: c for s_, c in r}, rule=rule, edge_id=eid)
        sp2, rx2, S2 = stoich.build_S(H2)
        sm2 = stoich.summary(H2)
        if list(sp2) != list(sp) or list(rx2) != list(rx) or not np.array_equal(np.asarray(S2, dtype=float), S):
            bad("edited-network", "build_S after adding reactions %d.. to an already analysed hypergraph differs from build_S of the "
                "whole network: rows %r vs %r" % (cut, list(sp2), list(sp)))
        elif (sm2.rank, sm2.is_conservative, sm2.is_consistent) != (sm.rank, sm.is_conservative, sm.is_consistent):
            bad("edited-network", "summary after editing an analysed hypergraph %r, of the whole network %r" % (
                (sm2.rank, sm2.is_conservative, sm2.is_consistent), (sm.rank, sm.is_conservative, sm.is_consistent)))
    return fails[:4]


def shrink(case, fl):
    """Drop reactions / isolated species / decorations while the same clause still fails."""
    if case.get("states") or case.get("il") or case.get("raw") or case.get("ns"):
        return case
    cur = dict(case)
    clause = fl.get("clause")

    def still(c):
        try:
            return any(f.get("clause") == clause for f in oracle(c))
        except Exception:
            return False
    changed = True
    while changed:
        changed = False
        for k in range(len(cur["rxns"])):
            cand = dict(cur, rxns=cur["rxns"][:k] + cur["rxns"][k + 1:])
            if cand["rxns"] and still(cand):
                cur, changed = cand, True
                break
        if not changed and cur.get("iso"):
            cand = dict(cur, iso=[])
            if still(cand):
                cur, changed = cand, True
        if not changed and cur.get("view", "hyper") != "hyper":
            cand = dict(cur, view="hyper")
            if still(cand):
                cur, changed = cand, True
    cur["name"] = case.get("name", "") + "(shrunk)"
    return cur


def neighbours(case, rng):
    if case.get("states") or case.get("il") or case.get("raw") or case.get("ns"):
        return []
    out = []
    for k in range(len(case["rxns"])):
        out.append(dict(case, rxns=case["rxns"][:k] + case["rxns"][k + 1:], name="drop-rxn"))
        eid, rule, l, r = case["rxns"][k]
        out.append(dict(case, rxns=case["rxns"][:k] + [[eid, rule, r, l]] + case["rxns"][k + 1:], name="reverse-rxn"))
    return [c for c in out if c["rxns"]]


def nontrivial(case, obs):
    if case.get("ns"):
        return isinstance(obs, list) and len(obs) == 7 and isinstance(obs[2], int) and obs[2] > 0
    if case.get("raw"):
        return isinstance(obs, list) and len(obs) == 8 and any(any(x != 0 for x in row) for row in obs[7])
    if case.get("il"):
        return isinstance(obs, list) and any(o != [99] and o not in ([[0] * len(o[0])] if o and isinstance(o[0], list) else []) for o in obs)
    if case.get("states"):
        obs = obs[-1] if isinstance(obs, list) and obs and isinstance(obs[-1], list) else obs
    return bool(case["rxns"]) and isinstance(obs, list) and len(obs) > 3 and any(any(x != 0 for x in row) for row in obs[3])


def distribution(cases, obss):
    sizes, ranks, verd, lk = {}, {}, {}, {}
    lp_branch = 0
    views = {}
    hist = dict(cases=0, states=0, edits={})
    il = dict(cases={}, laws=0, fallback=0, zero=0, limit_queries=0)
    rawd = dict(cases=0, undirected=0, fractional=0, answers={}, nodes_without_kind=0, nodes_without_flag=0, nodes_without_label=0, junk_nodes=0, edges_without_stoich=0,
                edges_without_role=0, foreign_values=0)
    nsd = dict(cases=0, wide=0, conservative={}, consistent={})
    for c, o in zip(cases, obss):
        if c.get("ns"):
            nsd["cases"] += 1
            if isinstance(o, list) and len(o) == 7:
                nsd["wide"] += isinstance(o[3][0], int) and isinstance(o[4][0], int) and o[4][0] > o[3][0]
                nsd["conservative"][str(o[5])] = nsd["conservative"].get(str(o[5]), 0) + 1
                nsd["consistent"][str(o[6])] = nsd["consistent"].get(str(o[6]), 0) + 1
            continue
        if c.get("raw"):
            rawd["cases"] += 1
            rawd["undirected"] += bool(c["raw"].get("undirected"))
            rawd["fractional"] += bool(c["raw"].get("scale"))
            key = str(o[0]) if isinstance(o, list) and o else "?"
            rawd["answers"][key] = rawd["answers"].get(key, 0) + 1
            for _, a in c["raw"]["nodes"]:
                rawd["nodes_without_kind"] += "kind" not in a
                rawd["nodes_without_flag"] += "bipartite" not in a
                rawd["nodes_without_label"] += "label" not in a
                rawd["junk_nodes"] += not (a.get("kind") in ("species", "reaction") or a.get("bipartite") in (0, 1))
                rawd["foreign_values"] += a.get("kind", "species") not in ("species", "reaction") or a.get("bipartite", 0) not in (0, 1)
            for _, _, a in c["raw"]["edges"]:
                rawd["edges_without_stoich"] += "stoich" not in a
                rawd["edges_without_role"] += a.get("role") not in ("reactant", "product")
            continue
        if c.get("il"):
            il["cases"][c["il"]] = il["cases"].get(c["il"], 0) + 1
            if c["il"] == "limit":
                il["limit_queries"] += len(c["xs"])
            elif isinstance(o, list):
                for law in o:
                    il["laws"] += 1
                    il["fallback"] += law == [99]
                    il["zero"] += law != [99] and isinstance(law, list) and bool(law) and all(v == 0 for v in law[0])
            continue
        if c.get("states"):
            hist["cases"] += 1
            hist["states"] += len(c["states"])
            for ed in c["edits"]:
                for op in ed:
                    key = ("graph:" if c.get("gview") else "") + op[0] + ("/keep" if op[0] == "rmsp" and len(op) > 2 and not op[2] else "")
                    hist["edits"][key] = hist["edits"].get(key, 0) + 1
            o = o[-1] if isinstance(o, list) and o and isinstance(o[-1], list) else o
        views[c.get("view", "hyper")] = views.get(c.get("view", "hyper"), 0) + 1
        if not (isinstance(o, list) and len(o) == 18):
            verd["error/other"] = verd.get("error/other", 0) + 1
            continue
        m, n = len(o[1]), len(o[2])
        sizes["%dx%d" % (m, n)] = sizes.get("%dx%d" % (m, n), 0) + 1
        ranks[str(o[10])] = ranks.get(str(o[10]), 0) + 1
        k = "cons=%s/%s,consist=%s/%s" % (o[15], o[13], o[16][0] if o[16] else None, o[14])
        verd[k] = verd.get(k, 0) + 1
        dl = o[11][1]
        lk[str(dl)] = lk.get(str(dl), 0) + 1
        if isinstance(dl, int) and dl > 1:
            lp_branch += 1
    return dict(matrix_sizes=dict(sorted(sizes.items())), ranks=ranks, verdicts=verd, left_kernel_dims=lk,
                left_kernel_dim_gt1=lp_branch, views=views, edit_histories=hist, integer_laws=il, raw_attribute_graphs=rawd, without_scipy=nsd)


# ------------------------------------------------------------------ generators

BIG_NAMES = [
    lambda n: ["X%d" % i for i in range(1, n + 1)],                 # X1, X10, X11, ..., X2: label order != numeric order
    lambda n: ["%d" % i for i in range(1, n + 1)],                  # bare numbers as labels
    lambda n: ["S%02d" % i for i in range(1, n + 1)],               # zero padded
    lambda n: list("ABCDEFGHIJKLMNOP")[:n],
    lambda n: ["m%d_a" % i if i % 3 else "M%d" % i for i in range(n, 0, -1)],
]
BIG_VIEWS = ["hyper", "bip_int", "bip_str", "bip_perm", "bip_sperm", "bip_shuf"]


def big_net(rng, k, kind="big"):
    """10-14 species and 10-14 reactions: two-digit node ids / row and column indices / generated edge ids
    (r_10 < r_2 as strings), sparse reactions, some reversed and repeated; every view in turn."""
    ns, nr = rng.randint(10, 14), rng.randint(10, 14)
    sp = BIG_NAMES[k % len(BIG_NAMES)](ns)
    rng.shuffle(sp)
    sides = []
    used = set()
    while len(sides) < nr:
        z = rng.random()
        if z < 0.2 and sides:
            l0, r0 = rng.choice(sides)
            l, r = [list(x) for x in r0], [list(x) for x in l0]
        elif z < 0.25 and sides:
            l0, r0 = rng.choice(sides)
            l, r = [list(x) for x in l0], [list(x) for x in r0]
        else:
            l = {s: rng.choice([1, 1, 1, 2, 3]) for s in rng.sample(sp, rng.choice([0, 1, 1, 1, 2, 2]))}
            r = {s: rng.choice([1, 1, 1, 2, 3]) for s in rng.sample(sp, rng.choice([0, 1, 1, 1, 2, 2]))}
            if not l and not r:
                continue
            if len(sides) < ns - len(used) + 2:        # make sure every species occurs (N >= 10 rows)
                free = [s for s in sp if s not in used]
                if free:
                    (l if rng.random() < 0.5 else r)[free[0]] = 1
            l, r = [list(x) for x in l.items()], [list(x) for x in r.items()]
            rng.shuffle(l)
        used |= {s for s, _ in l + r}
        sides.append((l, r))
    style = ["num", "gen", "adv", "one-rule"][k % 4]
    if style == "one-rule":                            # add_rxn's own ids r_1..r_14 under a single rule label
        rx = [["r_%d" % (i + 1), "r", l, r] for i, (l, r) in enumerate(sides)]
        rng.shuffle(rx)
    else:
        rx = G.assign_ids(sides, rng, style=style if style != "adv" else "gen")
    iso = [s for s in sp if s not in used]
    return dict(kind=kind, rxns=rx, iso=iso, view=BIG_VIEWS[(k // 2) % len(BIG_VIEWS)], perm_seed=rng.randrange(10 ** 6))


def edit_history(rng, kind="edit-history"):
    """ONE hypergraph analysed, edited in place, analysed again (1-3 times).  Edits that keep the set of reaction ids and the
    number of species (reaction replaced under its old id, coefficient changed in place, remove_species(prune_orphans=False))
    as well as edits that change them."""
    import copy
    base = G.random_net(rng, max_s=5, max_r=4, maxc=3)
    st = dict(rxns=copy.deepcopy(base["rxns"]), iso=list(base["iso"]))
    pool = list(G.SPECIES7[:5])
    states, edits = [copy.deepcopy(st)], []
    fresh = 0

    def side():
        k = rng.choice([0, 1, 1, 2, 2])
        return [[x, rng.randint(1, 3)] for x in rng.sample(pool, k)]

    def occurring(rxns):
        return {x for _, _, l, r in rxns for x, _ in l + r}
    for _ in range(rng.randint(1, 3)):
        ops = []
        for _ in range(rng.choice([1, 1, 2])):
            z = rng.random()
            rx = st["rxns"]
            if z < 0.3 and rx:
                i = rng.randrange(len(rx))
                l, r = side(), side()
                if not l and not r:
                    continue
                rule = rx[i][1] if rng.random() < 0.7 else rng.choice(G.RULES)
                ops.append(["replace", rx[i][0], rule, l, r])
                rx.pop(i)
                rx.append([ops[-1][1], rule, l, r])
            elif z < 0.6 and rx:
                i = rng.randrange(len(rx))
                sd = "l" if (rx[i][2] and rng.random() < 0.5) or not rx[i][3] else "r"
                lst = rx[i][2] if sd == "l" else rx[i][3]
                if not lst:
                    continue
                j = rng.randrange(len(lst))
                c = rng.choice([x for x in (1, 2, 3, 4, 12) if x != lst[j][1]])
                ops.append(["coef", rx[i][0], sd, lst[j][0], c])
                lst[j][1] = c
            elif z < 0.85 and rx:
                occ = sorted(occurring(rx))
                cand = [x for x in occ if all(any(y != x for y, _ in l + r) for _, _, l, r in rx if any(y == x for y, _ in l + r))]
                if not cand:
                    continue
                x = rng.choice(cand)
                prune = rng.random() < 0.25
                ops.append(["rmsp", x, prune])
                for t in rx:
                    t[2] = [p for p in t[2] if p[0] != x]
                    t[3] = [p for p in t[3] if p[0] != x]
                if not prune and x not in st["iso"]:
                    st["iso"].append(x)
            elif z < 0.93:
                l, r = side(), side()
                if not l and not r:
                    continue
                fresh += 1
                ops.append(["add", "zz_%d" % fresh, rng.choice(G.RULES), l, r])
                rx.append([ops[-1][1], ops[-1][2], l, r])
            elif len(rx) > 1:
                i = rng.randrange(len(rx))
                ops.append(["del", rx[i][0]])
                rx.pop(i)
            st["iso"] = [x for x in st["iso"] if x not in occurring(st["rxns"])]
        if not ops:
            continue
        edits.append(copy.deepcopy(ops))
        states.append(copy.deepcopy(st))
    if len(states) < 2:
        return None
    return dict(kind=kind, states=states, edits=edits, rxns=states[-1]["rxns"], iso=states[-1]["iso"], view="hyper")


def graph_edit_history(rng, kind="graph-edit-history"):
    """ONE caller-supplied bipartite graph (integer or string node ids) analysed, edited IN PLACE, analysed again: coefficient
    attributes changed, the incidences of a reaction node rewritten, all incidences of a species removed (node stays), a species
    label changed — node and (mostly) edge counts unchanged.  Orphaned species stay in the graph as isolated nodes."""
    import copy
    base = G.random_net(rng, max_s=5, max_r=4, maxc=3)
    st = dict(rxns=copy.deepcopy(base["rxns"]), iso=list(base["iso"]))
    states, edits = [copy.deepcopy(st)], []

    def species():
        return sorted({x for _, _, l, r in st["rxns"] for x, _ in l + r} | set(st["iso"]))
    for _ in range(rng.randint(1, 3)):
        before = set(species())
        rx = st["rxns"]
        z = rng.random()
        op = None
        if z < 0.4:
            i = rng.randrange(len(rx))
            sd = "l" if (rx[i][2] and rng.random() < 0.5) or not rx[i][3] else "r"
            lst = rx[i][2] if sd == "l" else rx[i][3]
            if lst:
                j = rng.randrange(len(lst))
                if rng.random() < 0.25 and len(rx[i][2]) + len(rx[i][3]) > 1:
                    # the coefficient attribute set to 0 (falsy): the arc stays in the graph and contributes nothing
                    op = ["coef", rx[i][0], sd, lst[j][0], 0]
                    lst.pop(j)
                else:
                    c = rng.choice([x for x in (1, 2, 3, 4, 12) if x != lst[j][1]])
                    op = ["coef", rx[i][0], sd, lst[j][0], c]
                    lst[j][1] = c
        elif z < 0.7:
            i = rng.randrange(len(rx))
            pool = sorted(set(species()) | {"Q9"})       # distinct labels: a side is a dict
            l = [[x, rng.randint(1, 3)] for x in rng.sample(pool, rng.choice([0, 1, 1, 2]))]
            r = [[x, rng.randint(1, 3)] for x in rng.sample(pool, rng.choice([0, 1, 1, 2]))]
            if (l or r) and not ({x for x, _ in l} & {x for x, _ in r}):
                rule = rx[i][1] if rng.random() < 0.6 else rng.choice(G.RULES)
                op = ["replace", rx[i][0], rule, l, r]
                rx[i] = [rx[i][0], rule, l, r]
        elif z < 0.85:
            occ = sorted({x for _, _, l, r in rx for x, _ in l + r})
            cand = [x for x in occ if all(any(y != x for y, _ in l + r) for _, _, l, r in rx if any(y == x for y, _ in l + r))]
            if cand:
                x = rng.choice(cand)
                op = ["rmsp", x]
                for t in rx:
                    t[2] = [p for p in t[2] if p[0] != x]
                    t[3] = [p for p in t[3] if p[0] != x]
        else:
            sp = species()
            old = rng.choice(sp)
            new = rng.choice([x for x in ("A0", "Zz", "B", "a", "E1") if x not in sp] or ["Nn"])
            op = ["relabel", old, new]
            for t in rx:
                for lst in (t[2], t[3]):
                    for p in lst:
                        if p[0] == old:
                            p[0] = new
            st["iso"] = [new if x == old else x for x in st["iso"]]
            before = {new if x == old else x for x in before}
        if op is None:
            continue
        occ = {x for _, _, l, r in st["rxns"] for x, _ in l + r}
        st["iso"] = sorted((before | set(st["iso"])) - occ)          # orphans stay as isolated nodes
        edits.append([copy.deepcopy(op)])
        states.append(copy.deepcopy(st))
    if len(states) < 2:
        return None
    return dict(kind=kind, states=states, edits=edits, rxns=states[-1]["rxns"], iso=states[-1]["iso"], view="hyper",
                gview=rng.choice(["bip_int", "bip_str"]))


DEGENERATE_LABELS = [["", "B"], ["0", "00", "000"], [" ", "A", "  "], ["False", "None", "nan"], ["-1", "1e3", "+2"], ["A B", "A+B", "A>>B"],
                     ["S:A", "R:r_1", "A"], ["__tmp__", "r_1", "q"], ["a", "A", "Aa"]]


def degenerate_nets(rng):
    """falsy / odd labels, huge coefficients, single species, one-sided and repeated reactions, identical reactions under two rules"""
    out = []
    for k, names in enumerate(DEGENERATE_LABELS):
        a, b = names[0], names[1]
        c = names[2] if len(names) > 2 else names[0]
        rx = [["r_1", "r", [[a, 1]], [[b, 2]]], ["r_2", "r", [[b, 1]], []], ["q_1", "q", [], [[c, rng.choice([1, 100, 1000])]]]]
        if k % 2:
            rx.append(["r_10", "r", [[a, 1]], [[b, 2]]])           # the first reaction again under another id
        out.append(dict(kind="degenerate-labels", rxns=rx, iso=[], view=["hyper", "bip_int", "bip_str", "bip_perm", "bip_sperm"][k % 5],
                        perm_seed=rng.randrange(10 ** 6)))
    out.append(dict(kind="degenerate-labels", rxns=[["r_1", "r", [["A", 1]], []]], iso=[], view="hyper"))
    out.append(dict(kind="degenerate-labels", rxns=[["r_1", "r", [], [["A", 1000000]]]], iso=["", "B"], view="bip_int"))
    # (an empty rule label is replaced by the default rule "r" in add_rxn — outside the stated domain; edge ids "0" / " " are kept)
    out.append(dict(kind="degenerate-labels", rxns=[["0", "q", [["A", 1]], [["B", 1]]], [" ", "q", [["B", 1]], [["A", 1]]]], iso=[], view="bip_str"))
    return out


def _sweep_sample(count, rng, kind):
    """random sample of the coefficient sweep (sets of 1..2 reactions, coefficients in {0,1,2}, 3 species) without
    enumerating the orbit representatives (the thorough tier enumerates them all)."""
    R = G.coeff_reactions()
    sp = ("A", "B", "C")
    cases, seen = [], set()
    while len(cases) < count:
        rep = tuple(sorted(rng.sample(range(len(R)), rng.choice([1, 2, 2, 2]))))
        if rep in seen:
            continue
        seen.add(rep)
        sides = []
        for i in rep:
            l, r = R[i]
            sides.append(([[sp[q], l[q]] for q in range(3) if l[q]], [[sp[q], r[q]] for q in range(3) if r[q]]))
        rng.shuffle(sides)
        cases.append(dict(kind=kind, rxns=G.assign_ids(sides, rng, style=rng.choice(["gen", "adv"])), iso=[], view="hyper"))
    return cases


def gen_intlaw(tier, rng, nets):
    """cases for the integer-scaling helpers: networks (integer_conservation_laws on every view), vectors handed to
    _vector_to_minimal_integer directly (rational directions times awkward scales, float noise around the tolerance, tiny entries,
    denominators around 10^6), Fraction.limit_denominator queries"""
    import math
    q = tier == "quick"
    out = []
    pool = [c for c in nets if not c.get("states") and c.get("rxns")]
    for c in rng.sample(pool, min(len(pool), 160 if q else 1500)):
        out.append(dict(c, il="net", kind="intlaw-net", name=(c.get("name") or c.get("kind", "")) + "/integer-laws"))
    for t in range(150 if q else 1500):
        n = rng.randint(1, 7)
        base = [rng.randint(-6, 6) for _ in range(n)]
        z = rng.random()
        if z < 0.35:
            sc = rng.choice([1.0, 0.5, 1 / 3, 1 / math.sqrt(sum(b * b for b in base) or 1), 1 / 7, 0.1, 1e-3, 12.0, 1 / 999983, 1 / 1000003])
            vec = [b * sc for b in base]
        elif z < 0.6:
            sc = 1 / math.sqrt(sum(b * b for b in base) or 1)
            vec = [b * sc + rng.choice([0, 1e-17, -1e-16, 1e-12, 3e-10, 2e-9, -9.9e-10]) for b in base]
        elif z < 0.75:
            vec = [rng.uniform(-1, 1) for _ in range(n)]
        elif z < 0.9:
            vec = [rng.choice([0.0, 1e-10, 5e-7, 1e-6, 2.5e-7, 1e-9, -1e-9, 0.25, 1 / 3, -0.0, 4.9e-7, 5.1e-7]) for _ in range(n)]
        else:
            vec = [rng.choice([1, -1]) * rng.randint(1, 40) / rng.choice([2, 3, 5, 7, 64, 999, 1000, 1024, 999983, 1000000, 1000001]) for _ in range(n)]
        out.append(dict(il="vec", kind="intlaw-vec", vec=[float(x).hex() for x in vec], tol=float(rng.choice([1e-9, 1e-9, 1e-12])).hex(), rxns=[]))
    for t in range(12 if q else 100):
        xs = []
        for _ in range(25):
            z = rng.random()
            if z < 0.3:
                p_, q_ = float(rng.uniform(-3, 3)).as_integer_ratio()
            elif z < 0.6:
                p_, q_ = rng.randint(-10 ** 9, 10 ** 9), rng.randint(1, 10 ** 9)
            elif z < 0.8:
                a_, b_ = rng.randint(-50, 50), rng.randint(1, 50)
                p_, q_ = float(a_ / b_).as_integer_ratio()
            else:
                p_, q_ = rng.randint(-5, 5), rng.choice([1, 2, 999999, 1000000, 1000001, 2000000, 10 ** 12 + 39])
            xs.append([int(p_), int(q_)])
        out.append(dict(il="limit", kind="intlaw-limit", xs=xs, maxd=rng.choice([10 ** 6, 10 ** 6, 1, 2, 10, 1000, 999983]), rxns=[]))
    return out


def gen_raw(tier, rng, nets):
    """raw attribute graphs derived from networks of the net population: each node keeps a random subset of kind / bipartite / label
    (always enough to be classified; labels fall back to the node id, which then IS the species name), each arc a random subset of
    role / stoich; plus junk: nodes without attributes or with foreign values (kind='other', bipartite=2), species-species and
    reaction-reaction edges, role-less / foreign-role edges, edges to junk nodes; a few with CONTRADICTORY attributes."""
    q = tier == "quick"
    out = []
    pool = [c for c in nets if not c.get("states") and c.get("rxns") and len(c["rxns"]) <= 8]
    for c in rng.sample(pool, min(len(pool), 220 if q else 2000)):
        species = sorted({s_ for _, _, l, r in c["rxns"] for s_, _ in l + r} | set(c.get("iso", [])))
        if any(not s_ or s_ != s_.strip() for s_ in species):
            continue
        style = rng.choice(["name", "name", "int", "prefixed"])
        sid = {s_: (s_ if style == "name" else 100 + 7 * i if style == "int" else "S:" + s_) for i, s_ in enumerate(species)}
        nodes, edges = [], []
        order = list(species)
        rng.shuffle(order)
        for s_ in order:
            a = {}
            z = rng.random()
            if z < 0.35:
                a["kind"] = "species"
            elif z < 0.7:
                a["bipartite"] = 0
            else:
                a.update(kind="species", bipartite=0)
            if style != "name" or rng.random() < 0.5:
                a["label"] = s_
            nodes.append([sid[s_], a])
        for j, (eid, rule, l, r) in enumerate(c["rxns"]):
            rid_ = "R:%s" % eid if style != "int" else 5000 + j
            a = {}
            z = rng.random()
            if z < 0.35:
                a["kind"] = "reaction"
            elif z < 0.7:
                a["bipartite"] = 1
            else:
                a.update(kind="reaction", bipartite=1)
            if rng.random() < 0.7:
                a["label"] = rule
            nodes.insert(rng.randrange(len(nodes) + 1), [rid_, a])
            lhs = {x: cc for x, cc in l}
            rhs = {x: cc for x, cc in r}
            for x, cc in lhs.items():
                if x in rhs:
                    continue                # a species on both sides needs two arcs between the same pair: (s, r) and (r, s) below
                ea = {"role": "reactant"}
                if cc != 1 or rng.random() < 0.5:
                    ea["stoich"] = cc
                edges.append([sid[x], rid_, ea] if rng.random() < 0.8 else [rid_, sid[x], ea])      # direction does not matter, the role does
            for x, cc in rhs.items():
                ea = {"role": "product"}
                if cc != 1 or rng.random() < 0.5:
                    ea["stoich"] = cc
                if x in lhs:
                    edges.append([rid_, sid[x], ea])
                    eb = {"role": "reactant"}
                    if lhs[x] != 1 or rng.random() < 0.5:
                        eb["stoich"] = lhs[x]
                    edges.append([sid[x], rid_, eb])
                else:
                    edges.append([rid_, sid[x], ea] if rng.random() < 0.8 else [sid[x], rid_, ea])
        # junk
        have = {(u, v) for u, v, _ in edges}
        rnodes = [u for u, a in nodes if a.get("kind") == "reaction" or a.get("bipartite") == 1]
        snodes = [sid[s_] for s_ in species]
        for _ in range(rng.choice([0, 1, 2, 3, 4])):
            z = rng.random()
            if z < 0.3:
                nodes.append(["junk%d" % len(nodes), rng.choice([{}, {"kind": "other"}, {"bipartite": 2}, {"label": "Z9"}, {"kind": "Species"}])])
            elif z < 0.5 and len(snodes) >= 2:
                u, v = rng.sample(snodes, 2)
                if (u, v) not in have:
                    edges.append([u, v, {"role": "product", "stoich": 4}])
                    have.add((u, v))
            elif z < 0.65 and len(rnodes) >= 2:
                u, v = rng.sample(rnodes, 2)
                if (u, v) not in have:
                    edges.append([u, v, {"role": "reactant"}])
                    have.add((u, v))
            elif z < 0.85 and snodes and rnodes:
                u, v = rng.choice(snodes), rng.choice(rnodes)
                if (u, v) not in have and (v, u) not in have:
                    edges.append([u, v, rng.choice([{}, {"stoich": 3}, {"role": "catalyst", "stoich": 2}, {"role": None}])])
                    have.add((u, v))
            else:
                nodes.append(["junk%d" % len(nodes), {}])
                if rnodes:
                    edges.append([nodes[-1][0], rng.choice(rnodes), {"role": "reactant", "stoich": 2}])
        rng.shuffle(edges)
        raw = dict(nodes=nodes, edges=edges)
        if rng.random() < 0.25:
            # fractional coefficients (1/2 O2, 3/2, 1/4 ...), the usual way to write combustion steps on a bipartite graph: every arc gets
            # an explicit coefficient that is a multiple of 1/4; the model works on the coefficients times 4
            raw["scale"] = 4
            for e_ in edges:
                e_[2]["stoich"] = rng.choice([0.5, 1.5, 0.25, 2.5, 1, 2, 0.75, 1.0, 3])
        pairs = [frozenset((u, v)) for u, v, _ in edges]
        if len(set(pairs)) == len(pairs) and rng.random() < 0.35:
            raw["undirected"] = True        # an nx.Graph with the same attributes (one edge per node pair: no species on both sides of a reaction)
        out.append(dict(raw=raw, kind="raw-attributes", rxns=[], name=(c.get("name") or c.get("kind", "")) + "/raw"))
    # degenerate / contradictory
    out.append(dict(raw=dict(nodes=[["A", {}]], edges=[]), kind="raw-attributes", rxns=[]))
    out.append(dict(raw=dict(nodes=[["A", {"kind": "species"}]], edges=[]), kind="raw-attributes", rxns=[]))
    out.append(dict(raw=dict(nodes=[["A", {"bipartite": 0}], ["r", {"bipartite": 1}]], edges=[]), kind="raw-attributes", rxns=[]))
    out.append(dict(raw=dict(nodes=[["A", {"kind": "species"}], ["x", {"kind": "reaction", "bipartite": 0}], ["r", {"kind": "reaction"}]],
                             edges=[["A", "x", {"role": "reactant"}], ["r", "A", {"role": "product"}]]), kind="raw-attributes", rxns=[]))
    out.append(dict(raw=dict(nodes=[["A", {"kind": "species"}], ["x", {"kind": "species", "bipartite": 1}], ["r", {"kind": "reaction"}]],
                             edges=[["x", "r", {"role": "reactant", "stoich": 2}], ["r", "A", {"role": "product"}]]), kind="raw-attributes", rxns=[]))
    # falsy labels that ARE present: "" / 0 / "0" must be used as they are (not replaced by the node id)
    out.append(dict(raw=dict(nodes=[["n1", {"kind": "species", "label": ""}], ["n2", {"kind": "species", "label": "0"}], ["n3", {"bipartite": 0, "label": 0}],
                                    ["n4", {"kind": "reaction", "label": ""}], ["n5", {"bipartite": 1, "label": 0}]],
                             edges=[["n1", "n4", {"role": "reactant"}], ["n4", "n2", {"role": "product", "stoich": 2}], ["n3", "n5", {"role": "reactant", "stoich": 3}],
                                    ["n5", "n1", {"role": "product"}]]), kind="raw-attributes", rxns=[]))
    out.append(dict(raw=dict(nodes=[[7, {"bipartite": 0, "label": ""}], [0, {"bipartite": 1}], [3, {"bipartite": 0}]],
                             edges=[[7, 0, {"role": "reactant"}], [0, 3, {"role": "product"}]]), kind="raw-attributes", rxns=[]))
    out.append(dict(raw=dict(nodes=[[0, {"bipartite": False, "label": "A"}], [1, {"bipartite": True, "label": "go"}], [2, {"bipartite": 0.0}]],
                             edges=[[0, 1, {"role": "reactant"}], [1, 2, {"role": "product", "stoich": 2}]]), kind="raw-attributes", rxns=[]))
    return out


def gen_noscipy(tier, rng, nets):
    """a slice of the net population analysed with stoich._SCIPY_AVAILABLE switched off; wide matrices (more reactions than species: the
    right kernel has n - rank > 0 vectors that an economy-size SVD would lose) and tall ones, every view"""
    pool = [c for c in nets if not c.get("states") and c.get("rxns") and not c.get("frac_d")]
    wide = [c for c in pool if len(c["rxns"]) > len({s_ for _, _, l, r in c["rxns"] for s_, _ in l + r} | set(c.get("iso", [])))]
    q = tier == "quick"
    pick = rng.sample(pool, min(len(pool), 90 if q else 700)) + rng.sample(wide, min(len(wide), 60 if q else 500))
    return [dict(c, ns=True, kind="no-scipy", name=(c.get("name") or c.get("kind", "")) + "/no-scipy") for c in pick]


def gen_cases(tier, rng):
    cases = _gen_cases_nets(tier, rng)
    return cases + gen_intlaw(tier, rng, cases) + gen_raw(tier, rng, cases) + gen_noscipy(tier, rng, cases)


def _gen_cases_nets(tier, rng):
    cases = []
    cases += G.textbook()
    for k in range(40 if tier == "quick" else 400):
        c = big_net(rng, k)
        if k % 7 == 3 and not has_catalyst(c):
            c["view"] = "bip_und"
        elif k % 7 == 5:
            c["view"] = "bip_shuf"
        cases.append(c)
    for t in G.textbook():                                   # undirected inputs of the textbook networks without catalysts
        t.pop("delta", None)
        t.pop("wr", None)
        if not has_catalyst(t):
            cases.append(dict(t, view="bip_und", name=t["name"] + "/undirected"))
        cases.append(dict(t, view="bip_shuf", perm_seed=len(cases), name=t["name"] + "/shuffled-nodes"))
        if all(c == 1 for _, _, l, r in t["rxns"] for _, c in l + r) and not any(s_.startswith("R:") for _, _, l, r in t["rxns"] for s_, _ in l + r):
            cases.append(dict(t, view="bip_bare", name=t["name"] + "/bare-attributes"))
    nh = 0
    while nh < (60 if tier == "quick" else 400):
        c = edit_history(rng)
        if c is not None:
            cases.append(c)
            nh += 1
    nh = 0
    while nh < (40 if tier == "quick" else 300):
        c = graph_edit_history(rng)
        if c is not None:
            cases.append(c)
            nh += 1
    cases += degenerate_nets(rng)
    if tier != "quick":
        # three-digit node ids / indices (one case: about 1.5 min of vm_compute)
        c101 = G.net_from_strings(["X%d >> X%d" % (i, i % 101 + 1) for i in range(1, 102)], "big", name="big/cycle-101")
        c101["view"] = "bip_int"
        cases.append(c101)
    cases += G.exhaustive_alphabet(2, rng, "exh-alphabet<=2")
    if tier == "quick":
        nrand, ncons, nsw = 500, 250, 400
        cases += _sweep_sample(nsw, rng, "coeff-sweep-sample")
    else:
        nrand, ncons = 6000, 2500
        cases += G.coeff_sweep(2, rng, "exh-coeff{0,1,2}<=2")
        cases += G.sample_alphabet(3, 8000, rng, "sample-alphabet-3")
    # fractional coefficients on a caller-supplied graph: the textbook way to write H2 + 1/2 O2 >> H2O, and a few more
    for rx_, d_ in ((["2 H2 + O2 >> 2 H2O"], 2), (["2 H2O2 >> 2 H2O + O2", "2 H2 + O2 >> 2 H2O"], 2), (["4 A + 2 B >> 3 C", "C >> A"], 4),
                    (["A + B >> C", "C >> A + B"], 2)):
        cf = G.net_from_strings(rx_, "fractional", name="fractional/" + ",".join(rx_))
        cf.update(view="bip_int", frac_d=d_)
        cases.append(cf)
    for _ in range(nrand):
        c = G.random_net(rng)
        if c["view"] != "hyper" and rng.random() < 0.4:      # node ids unrelated to the labels
            c["view"] = "bip_perm" if c["view"] == "bip_int" else "bip_sperm"
            c["perm_seed"] = rng.randrange(10 ** 6)
        elif not has_catalyst(c) and rng.random() < 0.25:    # undirected input
            c["view"] = "bip_und"
            c["perm_seed"] = rng.randrange(10 ** 6)
        elif c["view"] != "hyper" and rng.random() < 0.5:    # node insertion order unrelated to the labels
            c["view"] = "bip_shuf"
            c["perm_seed"] = rng.randrange(10 ** 6)
        elif c["view"] == "bip_int" and rng.random() < 0.6:  # every coefficient written c / d on the arcs (fractional graph input)
            c["frac_d"] = rng.choice([2, 4])
        cases.append(c)
    for _ in range(ncons):
        cases.append(G.conservative_net(rng))
    # degenerate inputs: no reaction at all (ValueError is the documented behaviour of _split_species_reactions)
    cases.append(dict(kind="degenerate", rxns=[], iso=[], view="hyper"))
    cases.append(dict(kind="degenerate", rxns=[], iso=["A"], view="hyper"))
    for c in cases:
        c.pop("delta", None)
        c.pop("wr", None)
    return cases
