"""C05 — rule application depends on the chemistry only, not on how the inputs are written.

case = {"kind", "name", "tpl": {"rsmi", "core"}, "sub": smiles, "invert", "mode",
        "variants": [{"v": "base" | "sub:<kind>" | "tpl:<how>" | "both", "sub": smiles, "rsmi": reaction smiles}, ...],
        "strategies": ["all", "comp", "bt"],
        "pre": {"vs": [[host JSON, template ITS JSON], ...], ...}}     # RDKit parsing is an oracle input of the model
Every variant is the SAME (template, substrate) pair written differently: substrate atoms renumbered by a PRNG
permutation (Chem.RenumberAtoms + MolToSmiles(canonical=False)), ring-closure digits renamed, fragments shuffled;
template atom-map numbers permuted (reverse / cyclic shift / random).

Observable compared with the Gallina model, per variant: prepared rule (rc) and matching pattern; per strategy: number of
raw matches, number kept by the symmetry pruning, number of rule automorphisms used, number of glued ITS graphs, the
MULTISET of glued ITS graphs (before RDKit serialisation; node ids of the hydrogens materialised on the explicit path
renamed to ascending-host-atom order) each with the order-insensitive view of _explicit_h, and the crash flag.
The set of standardised reaction strings (RDKit) is examined by the oracle only.
"""
import os

from ..gen import c03_common as K
from ..gen import c05_gen as Gn

PID = "C05"
COQ_HEADER = ("From Coq Require Import List NArith ZArith Bool.\nImport ListNotations.\n"
              "From SK Require Import lib.Tok lib.LGraph model.C03_Model model.C05_Model.\n")
SHARD = 6
IMPL_TIMEOUT = 1500
COQ_TIMEOUT = 1500
# CPU budget of one impl(case) in the worker process (oracle: 2x, thorough tier: 4x; harness/main.py).  Measured: the heaviest case of
# the quick tier 7 CPU-s (18 before heavy cases were trimmed to three writings); by construction at most HUGE_RAW = 1500 results x
# 70 atoms x 9 reactor runs x 1.2e-4 s = 113 s for a case that is only judged by the oracle.  The histories run in other processes.
CASE_CPU_LIMIT = 400
STRATS = {"all": 0, "comp": 1, "bt": 2}
MAX_GLUED = 120            # per (variant, strategy): beyond this only the oracle sees the case
MAX_RAW = 400
MAX_HOST = 70
HUGE_RAW = 1500          # beyond this many raw matches / glued graphs a case is dropped (memory)
MAX_ISO = 40             # glued graphs per run compared up to isomorphism by the oracle (strings are always compared)

RULE = ("(template, substrate, direction, hydrogen mode) as in C03 (centre / full ITS of corpus reactions on their own and on foreign "
        "substrates, hand-made rules with symmetric or multi-component left sides), each written in several ways: substrate SMILES "
        "rewritings (atom order, ring-closure digits, fragment order), template atom-map permutations, both; all three strategies on "
        "every variant; non-trivial = the exhaustive strategy finds >= 2 raw matches and >= 1 result on the base writing and there is "
        "at least one rewriting; distinct = distinct (pair, variant list)")
EXHAUSTIVE = {"quick": False, "thorough": False}
EXPLANATION = ("Theorems about the composed pipeline model (rule preparation -> matches by strategy -> pruning by rule automorphisms -> "
               "glue -> hydrogen stage): literal equivariance of every stage under renumbering (all strategies); set-level invariance of the "
               "glued graphs under any rewriting (every strategy; exhaustive strategy under every embedding cap); comp <= all, BACKTRACK = "
               "COMPONENT when non-empty; pruning loses no class; a capped search returns everything or nothing. Correspondence: per writing and strategy, match counts and the multiset of glued ITS graphs are compared with the "
               "implementation before RDKit serialisation, theorem premises (side_okb) evaluated per writing; the metamorphic oracle "
               "compares the sets of standardised reactions across writings, strategies and repeated calls.")
TRUSTED_BASE = [
    "Coq 8.16.1 kernel + vm_compute (no native_compute)",
    "hand-written models coq/model/C05_Model.v (composition, lazy enumerator proved equal to lib/Mono.v) over C03_Model.v (rule preparation, "
    "glue, hydrogen stages), C06_Model.v (strategies) and C11_Model.v (dedup by automorphisms), tied to synkit/Synthesis/Reactor/syn_reactor.py, "
    "synkit/Graph/Matcher/{subgraph_matcher,dedup_matches}.py by the per-run correspondence",
    "harness encoders harness/gen/c03_common.py and harness/props/C05.py (nx graphs -> Gallina literals; attributes -> tok; block-wise "
    "renaming of hydrogen ids on the explicit path)",
    "networkx VF2 enumerates exactly the label-preserving monomorphisms / automorphisms, in some order (oracle contract; the model "
    "uses the verified enumerator lib/Mono.v; every count and glued multiset is compared on every case)",
    "RDKit: SMILES parsing yields isomorphic graphs for rewritings of one molecule; graph_to_smi / Standardize give equal strings for "
    "isomorphic results (oracle contract; monitored by the metamorphic oracle, which checks the parsed hosts for isomorphism and compares "
    "the glued ITS graphs up to isomorphism next to the strings)",
]
ASSUMPTIONS = ["templates have typesGH 5-tuples on every node, no wildcard atoms", "hydrogen counts are non-negative",
               "hydrogen mode matches how the template is written (as in C03)",
               "engine configuration of SynReactor: no max_results (except partial=True + embed_threshold), strict_cc_count on (off inside "
               "PartialMatcher); parameters of the model: the embedding cap (embed_threshold: not given = 5000, or any k >= 0), "
               "embed_pre_filter, partial"]
TESTED_NOT_PROVED = [
    "RDKit half: result serialisation/standardisation (graph_to_smi, Standardize.fit) maps observationally equal ITS graphs to equal "
    "strings — metamorphic oracle on the implementation: equal sets of strings across writings, strategies, repeated calls, histories "
    "(that a rewritten SMILES parses to the same graph is CHECKED per case inside Coq: rewriting_okb)",
    "explicit-hydrogen path (pattern keeps X-H bonds: re-matching on the hydrogen-expanded substrate), the _explicit_h stage and rule "
    "preparation in the default mode for templates that write hydrogen changes with explicit H atoms: modelled and compared on every run, "
    "not covered by the invariance theorems (new hydrogen ids and h_pairs ids are allocated in numeric order: results are isomorphic, "
    "not renumbered); hydrogen-free templates in the default mode ARE covered",
    "the clause 'unchanged when the call is repeated' (C05_repeat_trivial is congruence of a pure function, not coverage): the "
    "implementation's lazily cached fields, shared objects, module-level caches — histories in a fresh interpreter (both orders, "
    "input forms, result-neutral options, repeated reads, in-place renumbering of a shared template, emptied results); the model is a pure "
    "function",
    "the partial-matching option: the raw and kept matches of the PartialMatcher engine are modelled, compared on every run and proved "
    "equivariant under renumbering; gluing a partial match (wildcard completion) is not modelled — the result sets of this option are "
    "judged by the metamorphic oracle only",
    "the embedding cap for the component-aware / fallback strategies under RE-ORDERING of the inputs: whether the cap is hit is evaluated on "
    "every compared writing (side_okb_c), not proved invariant (under renumbering it is; for the exhaustive strategy it is proved for any rewriting)",
]
LEVEL_TEXT = ("Machine-checked proof (Coq) over an executable model of the whole graph-level rule-application pipeline (SynRule preparation, "
              "search strategies ALL/COMPONENT/BACKTRACK over a verified monomorphism enumerator, the embedding cap embed_threshold as a parameter, "
              "the pre-filter guard embed_pre_filter, the PartialMatcher engine of partial=True, pruning by rule automorphisms, gluing, _explicit_h). Proved for all inputs AND EVERY "
              "EMBEDDING CAP: (1) every stage and the result list commute literally with any injective renumbering of substrate and template, "
              "for every strategy (also the raw and kept matches of the partial-matching engine); (2) for every strategy the SET of glued ITS "
              "graphs is invariant under arbitrary rewriting of both inputs (renumbering plus any re-ordering of atoms, bonds and bond "
              "orientation) — raw match sets coincide, the glue depends only on the graphs as functions and on the match as a set of pairs, "
              "matches related by a rule automorphism glue to the same ITS, pruning keeps one match of every class — from the template ITS to "
              "its_list in implicit-hydrogen mode and, for hydrogen-free templates, in the default configuration (where the _explicit_h stage "
              "is shown to be the identity); for the exhaustive strategy with no premise about the cap at all (a capped search answers with "
              "everything or nothing, never a truncated list, and whether it is capped does not depend on the writing); the pre-filter guard "
              "only empties results and its decision does not depend on the writing either; the result set does not depend on the order in "
              "which the matcher lists its matches (VF2 is instantiated by the verified enumerator; the pruning keeps the first match of "
              "a class, any other listing gives the same glued graphs); (3) component-aware "
              "matches and results are exhaustive matches / results when neither search is capped, BACKTRACK returns the COMPONENT result "
              "whenever that is non-empty. Refuted with witnesses (code kept, known findings): BACKTRACK = COMPONENT on the explicit-hydrogen "
              "path; COMPONENT within EXHAUSTIVE when a non-default cap empties the exhaustive search only; invariance under re-ordering for "
              "partial=True + embed_threshold (a result limit keeps the first matches in enumeration order). Every premise about the two "
              "writings is a boolean that the run function evaluates on each compared writing of each case (well-formedness and cap "
              "premises, and 'the other writing is the base renumbered and re-ordered', with renumberings found on the graphs the "
              "implementation parsed). The model is tied to the Python code on every run by comparing, per writing and strategy, match counts "
              "and the multiset of glued ITS graphs (also under non-default caps around the number of embeddings); the RDKit serialisation, "
              "patterns with explicit X-H bonds, explicit-hydrogen templates in the default mode and the gluing of partial matches are covered "
              "by the correspondence and a metamorphic oracle with histories, not by proof.")
LEVEL_NOTE = ("Trusted: Coq kernel + vm_compute; the models and encoders; VF2 and RDKit contracts (monitored, not proved). Imports, read-only: "
              "C03 glue and preparation lemmas (proof/C03_Proof.v, C03_Glue.v, C03_Iso.v, C03_Backward.v, C03_Default.v), C06 strategy "
              "specification (lib/C06_Spec.v, proof/C06_*.v), C11 pruning completeness (proof/C11_Dedup.v).")
TECHNIQUE = "Coq proof about an executable Gallina model + per-run correspondence (vm_compute vs implementation) + metamorphic property oracle"
DESIGN_REF = "DESIGN.md section 5 C05, section 7 row 17; notes/C05.md"


def worker_init():
    K.quiet()


# ------------------------------------------------------------------ running the implementation

# partial matching (PartialMatcher engine): its own two "modes", judged by the oracle only (the engine is not modelled)
from ..gen.c05_hist import PARTIAL_MODES      # noqa: E402  ({"P": implicit mode + partial=True, "Q": default mode + partial=True})


def _vcase(case, v, strategy):
    for k, cfg in PARTIAL_MODES.items():
        K.MODES.setdefault(k, cfg)
    d = dict(tpl=dict(rsmi=v["rsmi"], core=bool(case["tpl"].get("core", True))), sub=v["sub"], invert=bool(case.get("invert", False)),
             strategy=strategy, mode=case.get("mode", "E"))
    if case.get("opts"):
        d["opts"] = dict(case["opts"])        # constructor options of the reactor (embed_threshold)
    return d


# The adapter and the oracle of ONE case are called one after the other in the same worker process; the reactor runs of the
# adapter (one per writing and strategy, in that order) are kept for the oracle of the same case, which would otherwise
# repeat exactly the same sequence of applications.  The memo is emptied whenever another case starts.
_MEMO = {"case": None, "recs": {}}


def _memo_key(case):
    return (case.get("name"), tuple((v["sub"], v["rsmi"]) for v in case["variants"]), case.get("mode"), bool(case.get("invert")),
            repr(sorted((case.get("opts") or {}).items())))


def _run_memo(case, v, strategy):
    k = _memo_key(case)
    if _MEMO["case"] != k:
        _MEMO["case"], _MEMO["recs"] = k, {}
    kk = (v["sub"], v["rsmi"], strategy)
    if kk not in _MEMO["recs"]:
        _MEMO["recs"][kk] = _run(case, v, strategy, want_smarts=True)
    return _MEMO["recs"][kk]


def _run(case, v, strategy, want_smarts=False):
    """K.run_reactor with an extra recorder on _to_smarts (which glued graph produced which string)."""
    import synkit.Synthesis.Reactor.syn_reactor as SR
    orig = SR.SynReactor.__dict__["_to_smarts"].__func__
    log = []

    def rec_smarts(g):
        s = orig(g)
        log.append(s)
        return s
    SR.SynReactor._to_smarts = staticmethod(rec_smarts)
    try:
        rec = K.run_reactor(_vcase(case, v, strategy), want_smarts=want_smarts)
    finally:
        SR.SynReactor._to_smarts = staticmethod(orig)
    rec.smarts_log = log
    return rec


def _h_rename(host, m):
    """new hydrogen ids of h_to_explicit(host, list(m.values())) -> ids the same call gives for sorted(m.values())"""
    nxt = max(host.nodes) + 1 if host.number_of_nodes() else 1

    def blocks(order):
        b, k = {}, nxt
        for v in order:
            hc = host.nodes[v].get("hcount", 0) if v in host else 0
            if hc > 0:
                b[v] = list(range(k, k + hc))
                k += hc
        return b
    vals = list(m.values())
    bi, bm = blocks(vals), blocks(sorted(vals))
    return {i: j for v in bi for i, j in zip(bi[v], bm[v])}


def _relabel(g, ren):
    import networkx as nx
    if not ren or all(a == b for a, b in ren.items()):
        return g
    return nx.relabel_nodes(g, ren, copy=True)


def _strategy_obs(rec, mode):
    """[nraw, nkept, nauts, nglued, S(results), crashed, S(raw matches as sets of pairs)]"""
    from synkit.Graph.Matcher.dedup_matches import graph_automorphisms
    from ..tok import S
    nraw = len(rec.raw)
    nauts = len(graph_automorphisms(rec.rule.rc.raw)) if nraw > 1 else 0
    show_ex = mode == "E" and rec.its_err is None
    after = list(rec.its_list)
    res, k = [], 0
    for m, remaps, hx, out in rec.glue_calls:
        ren = _h_rename(rec.host, m) if remaps is not None else {}
        for j, g in enumerate(out):
            gb = _relabel(g, ren)
            if show_ex:
                ga = _relabel(after[k + j], ren)
                res.append([K.its_obs(gb), K.explicit_h_obs(gb, ga)])
            else:
                res.append([K.its_obs(gb), []])
        k += len(out)
    raw_set = S([S([[int(a), int(b)] for a, b in m.items()]) for m in rec.raw])
    return [nraw, len(rec.mappings), nauts, len(res), S(res), 0 if rec.its_err is None else 1, raw_set]


def _model_variants(case):
    """indices of the writings whose intermediate results are compared with the model: the base, one substrate rewriting,
    one template numbering and the combined one (the oracle judges ALL writings; every writing is applied by the adapter)"""
    vs = case["variants"]
    idx = [0]
    for pref in ("sub:", "tpl:", "both"):
        for i, v in enumerate(vs):
            if i and v["v"].startswith(pref):
                idx.append(i)
                break
    return sorted(set(idx))


def impl(case):
    from synkit.Graph.Hyrogen._misc import h_to_implicit, has_XH
    pre = case.get("pre")
    if pre is not None and ("error" in pre or "outside" in pre):
        return ["SKIP"]
    if pre is not None and pre.get("big"):
        return ["SKIP"]         # judged by the oracle only (no model term): the adapter's observable would not be compared with anything
    if case.get("mode") in PARTIAL_MODES:
        return _impl_partial(case)
    if (case.get("opts") or {}).get("embed_pre_filter"):
        return _impl_prefilter(case)
    mode = case.get("mode", "E")
    thr = (case.get("opts") or {}).get("embed_threshold")
    out = []
    keep = set(_model_variants(case))
    for i, v in enumerate(case["variants"]):
        per = []
        first = None
        for st in case["strategies"]:
            rec = _run_memo(case, v, st)
            first = first or rec
            per.append(_strategy_obs(rec, mode))
        if i not in keep:
            continue
        left = first.rule.left.raw
        pat = h_to_implicit(left) if has_XH(left) else left
        # the premise flag of the set-level theorems (side_okb_c): with a non-default cap it is false exactly when a search of
        # this writing runs into the cap (reference count with networkx, independent of the engine)
        prem = 1
        if thr is not None and not first.flag:
            n_all, bound = _embedding_counts(first.host, pat)
            prem = 1 if (n_all <= thr and bound <= thr) else 0
        out.append([K.rc_obs(first.rule.rc.raw, mode != "I"), 1 if first.flag else 0, K.mol_obs(pat), prem, per])
    # second component: every compared writing is a rewriting of the base in the sense of the theorems (the model evaluates
    # rewriting_okb on the renumberings found at generation time; expected: all 1)
    # third component: the cap-free premises (side_okb0, or: the pattern keeps explicit X-H bonds) hold on every compared writing
    return [out, [1] * len(out), [1] * len(out)]


def _impl_partial(case):
    """SynReactor(partial=True): per compared writing [explicit-H flag, pattern, per strategy [#raw partial matches, #kept by the
    symmetry pruning, the raw matches as a multiset of sets of pairs]]; gluing with wildcard completion is not modelled"""
    from synkit.Graph.Hyrogen._misc import h_to_implicit, has_XH
    from ..tok import S
    out = []
    keep = set(_model_variants(case))
    for i, v in enumerate(case["variants"]):
        if i not in keep:
            continue
        per, first = [], None
        for st in case["strategies"]:
            try:
                rec = _run_memo(case, v, st)
            except ValueError:          # PartialMatcher: "Pattern graph has no components."
                per.append([-1])
                continue
            first = first or rec
            if (case.get("opts") or {}).get("embed_threshold"):
                # max_results = embed_threshold / 100: WHICH matches are kept depends on VF2's order; only their number is compared
                per.append([len(rec.raw), [], []])
            else:
                per.append([len(rec.raw), len(rec.mappings), S([S([[int(a), int(b)] for a, b in m.items()]) for m in rec.raw])])
        if first is None:
            out.append([-1])
            continue
        left = first.rule.left.raw
        pat = h_to_implicit(left) if has_XH(left) else left
        out.append([1 if first.flag else 0, K.mol_obs(pat), per])
    return out


def _impl_prefilter(case):
    """SynReactor(embed_pre_filter=True[, embed_threshold=k]): per compared writing [explicit-H flag, pattern, does the guard fire
    (SubgraphSearchEngine._quick_pre_filter on the graphs the reactor searched), per strategy the usual observable]"""
    from synkit.Graph.Hyrogen._misc import h_to_implicit, has_XH
    from synkit.Graph.Matcher.subgraph_matcher import SubgraphSearchEngine
    mode = case.get("mode", "E")
    thr = (case.get("opts") or {}).get("embed_threshold")
    eff = SubgraphSearchEngine.DEFAULT_THRESHOLD if thr is None else thr
    out = []
    keep = set(_model_variants(case))
    for i, v in enumerate(case["variants"]):
        per, first = [], None
        for st in case["strategies"]:
            rec = _run_memo(case, v, st)
            first = first or rec
            per.append(_strategy_obs(rec, mode))
        if i not in keep:
            continue
        left = first.rule.left.raw
        pat = h_to_implicit(left) if has_XH(left) else left
        fires = bool(SubgraphSearchEngine._quick_pre_filter(first.host, pat, ["element", "charge"], eff))
        out.append([1 if first.flag else 0, K.mol_obs(pat), 1 if fires else 0, 1, per])      # 1: the model's wfb premise holds
    return out


def _embedding_counts(host, pat):
    """(number of embeddings of the whole pattern, longest list the limit-free component-aware search builds) counted with
    networkx directly: node_match = element, charge equal and hcount >=, edge_match = order equal (strict_cc_count=True)"""
    import networkx as nx
    from networkx.algorithms.isomorphism import GraphMatcher

    def nm(h, p):
        return h.get("element") == p.get("element") and h.get("charge") == p.get("charge") and h.get("hcount", 0) >= p.get("hcount", 0)

    def em(h, p):
        return h.get("order") == p.get("order")

    def count(H, P):
        return sum(1 for _ in GraphMatcher(H, P, node_match=nm, edge_match=em).subgraph_monomorphisms_iter())
    n_all = count(host, pat)
    hcs = [host.subgraph(c) for c in nx.connected_components(host)]
    pcs = [pat.subgraph(c) for c in nx.connected_components(pat)]
    per = []
    for pc in pcs:
        per.append([(i, frozenset(m.values())) for i, hc in enumerate(hcs) if hc.number_of_nodes() >= pc.number_of_nodes()
                    for m in GraphMatcher(hc, pc, node_match=nm, edge_match=em).subgraph_monomorphisms_iter()])
    if not pcs:
        unl = 1
    elif len(hcs) < len(pcs):
        unl = n_all
    elif len(hcs) > len(pcs):
        unl = 0
    else:
        def combos(level, used):
            if level == len(per):
                return 1
            return sum(combos(level + 1, used | {i}) for i, _ in per[level] if i not in used)
        unl = combos(0, frozenset())
    return n_all, max([unl] + [len(x) for x in per])


# ------------------------------------------------------------------ preparation: oracle inputs of the model (RDKit parsing)

def _host_json(g):
    return [[[n, d.get("element", "*"), bool(d.get("aromatic", False)), int(d.get("hcount", 0)), int(d.get("charge", 0)),
              list(d.get("neighbors", []))] for n, d in g.nodes(data=True)],
            [[u, v, K.half(d.get("order", 1.0))] for u, v, d in g.edges(data=True)]]


def _its_json(g):
    ns = []
    for n, d in g.nodes(data=True):
        t = d["typesGH"]
        ns.append([n, [t[0][0], bool(t[0][1]), int(t[0][2]), int(t[0][3]), list(t[0][4])],
                   [t[1][0], bool(t[1][1]), int(t[1][2]), int(t[1][3]), list(t[1][4])]])
    es = [[u, v, K.half(d["order"][0]), K.half(d["order"][1]), K.half(d.get("standard_order", 0.0))] for u, v, d in g.edges(data=True)]
    return [ns, es]


def prepare(case):
    case = dict(case)
    K.quiet()
    vs = []
    cost = dict(raw=0, glued=0, host=0)
    try:
        mv = set(_model_variants(case))
        kept_recs = {}
        vi = -1
        while vi + 1 < len(case["variants"]):
            vi += 1
            v = case["variants"][vi]
            rec = K.run_reactor(_vcase(case, v, "all"))
            if vi == 0 and case.get("trim") and len(rec.its_list) * rec.host.number_of_nodes() > case["trim"]:
                # hundreds of results on a large substrate: every writing x strategy re-creates, copies, serialises and standardises
                # all of them (18 CPU-s for one corpus case).  Such a case keeps the base, one substrate rewriting and one numbering.
                keep = [0] + [next((i for i, w in enumerate(case["variants"]) if i and w["v"].startswith(pref)), None) for pref in ("sub:", "tpl:")]
                case["variants"] = [case["variants"][i] for i in sorted(set(k for k in keep if k is not None))]
                case["trimmed"] = True
                mv = set(_model_variants(case))
            if not K.in_domain_tpl(rec.tpl):
                case["pre"] = {"outside": "template outside the model domain (wildcard / missing typesGH)"}
                return case
            if any(d.get("hcount", 0) < 0 for _, d in rec.host.nodes(data=True)):
                case["pre"] = {"outside": "negative hydrogen count"}
                return case
            vs.append([_host_json(rec.host), _its_json(rec.tpl)])
            if vi in mv:
                kept_recs[vi] = rec
            cost["raw"] = max(cost["raw"], len(rec.raw))
            cost["glued"] = max(cost["glued"], sum(len(c[3]) if c[1] is None else len(c[1]) for c in rec.glue_calls))
            cost["host"] = max(cost["host"], rec.host.number_of_nodes())
            if cost["raw"] > HUGE_RAW or cost["glued"] > HUGE_RAW:
                break
            np_, nh_ = rec.tpl.number_of_nodes(), rec.host.number_of_nodes()
            # rough seconds of vm_compute for the three strategies of this writing (measured: 38-node pattern in a 38-node host
            # 1.3 s per run, 4-node pattern in a 56-node host 0.3 s per run)
            if vi not in mv:
                continue
            cost["est"] = cost.get("est", 0.0) + len(case["strategies"]) * (1.3 * np_ * nh_ * (np_ + 10) / 69000.0 + 0.3 * (nh_ / 56.0) ** 2)
            # the exhaustive enumeration of a multi-component pattern explores the cross product of the candidates: measured
            # 12.6 s for 112 matches in a 62-atom host; the run function evaluates it once per writing (shared by strategy ALL and the premise monitor)
            cost["est"] += 1.2 * len(rec.raw) * nh_ / 550.0
    except Exception as e:
        case["pre"] = {"error": type(e).__name__ + ": " + str(e)[:120]}
        return case
    if cost["raw"] > HUGE_RAW or cost["glued"] > HUGE_RAW:
        # thousands of matches: the recorded runs of such a case (every glued graph of every writing and strategy, deep-copied by
        # the recording wrappers) take gigabytes; the case is dropped from the population (counted as outside the domain)
        case["pre"] = {"outside": "more than %d matches / glued graphs (%d / %d)" % (HUGE_RAW, cost["raw"], cost["glued"])}
        return case
    case["pre"] = {"vs": vs, "cost": cost}
    try:
        case["pre"]["maps"] = [_renumbering(kept_recs[0], kept_recs[i]) for i in sorted(kept_recs)]
    except Exception as e:
        case["pre"]["maps"] = None
    cost["est"] = round(cost.get("est", 0.0), 2)
    if cost["raw"] > MAX_RAW or cost["glued"] > case.get("max_glued", MAX_GLUED) or cost["host"] > MAX_HOST or cost["est"] > case.get("cap", 12.0):
        case["pre"]["big"] = True
    return case


def _complete(f):
    """extend an injective finite map to a permutation of (domain | image): image-only ids go back to the domain-only ids"""
    dom, img = set(f), set(f.values())
    extra = dict(zip(sorted(img - dom), sorted(dom - img)))
    g = dict(f)
    g.update(extra)
    return sorted([int(a), int(b)] for a, b in g.items() if a != b)


def _renumbering(rec0, rec):
    """(pi, sg): an isomorphism base substrate -> this writing's substrate and base template -> this writing's template, found
    by networkx on the graphs as parsed by the implementation (every attribute the model's graphs carry is compared); the
    model re-checks them ([rewriting_okb]).  None when there is none."""
    from networkx.algorithms.isomorphism import GraphMatcher
    keys = ("element", "aromatic", "hcount", "charge", "neighbors")
    gm = GraphMatcher(rec0.host, rec.host, node_match=lambda a, b: all(a.get(k, None) == b.get(k, None) for k in keys),
                      edge_match=lambda a, b: a.get("order") == b.get("order"))
    pi = next(gm.isomorphisms_iter(), None)
    gt = GraphMatcher(rec0.tpl, rec.tpl, node_match=lambda a, b: a.get("typesGH") == b.get("typesGH"),
                      edge_match=lambda a, b: a.get("order") == b.get("order") and a.get("standard_order") == b.get("standard_order"))
    sg = next(gt.isomorphisms_iter(), None)
    if pi is None or sg is None:
        return None
    return [_complete(pi), _complete(sg)]


def _prep_worker(case):
    return prepare(case)


def prepare_all(cases, procs=16):
    import multiprocessing as mp
    if not cases:
        return []
    with mp.get_context("fork").Pool(min(procs, len(cases)), initializer=K.quiet) as pool:
        return pool.map(_prep_worker, cases, chunksize=max(1, min(4, len(cases) // 64)))


# ------------------------------------------------------------------ model encoder

def _c_t5(t):
    return "(NA %s %s %s %s %s)" % (K.cN(K.ecode(t[0])), K.cb(t[1]), K.cZ(t[2]), K.cZ(t[3]), K.cl([K.cN(K.ecode(x)) for x in t[4]]))


def _c_host(h):
    hn, he = h
    return "(LG %s %s)" % (K.cl(["(%s, %s)" % (K.cN(n), _c_t5((el, ar, hc, ch, nb))) for n, el, ar, hc, ch, nb in hn]),
                           K.cl(["(%s, %s, %s)" % (K.cN(u), K.cN(v), K.cZ(o)) for u, v, o in he]))


def _c_tpl(t):
    tn, te = t
    return "(LG %s %s)" % (K.cl(["(%s, IN %s %s 0%%Z None)" % (K.cN(n), _c_t5(g), _c_t5(h)) for n, g, h in tn]),
                           K.cl(["(%s, %s, (%s, %s, %s))" % (K.cN(u), K.cN(v), K.cZ(a), K.cZ(b), K.cZ(s)) for u, v, a, b, s in te]))


def coq_case(case):
    pre = case.get("pre")
    if pre is None:
        pre = prepare(case)["pre"]
    if "error" in pre or "outside" in pre or pre.get("big"):
        return None
    mode = case.get("mode", "E")
    thr = (case.get("opts") or {}).get("embed_threshold")
    cthr = "None" if thr is None else "(Some %s)" % K.cN(int(thr))
    if (case.get("opts") or {}).get("embed_pre_filter"):
        vs = K.cl(["(%s, %s)" % (_c_host(pre["vs"][i][0]), _c_tpl(pre["vs"][i][1])) for i in _model_variants(case)])
        return "run_c05f %s %s %s %s %s %s" % (cthr, K.cb(case.get("invert", False)), K.cb(mode == "I"), K.cb(mode == "E"),
                                              K.cl([K.cN(STRATS[s_]) for s_ in case["strategies"]]), vs)
    if mode in PARTIAL_MODES:
        vs = K.cl(["(%s, %s)" % (_c_host(pre["vs"][i][0]), _c_tpl(pre["vs"][i][1])) for i in _model_variants(case)])
        return "run_c05p %s %s %s %s %s" % (cthr, K.cb(case.get("invert", False)), K.cb(mode == "P"),
                                           K.cl([K.cN(STRATS[s_]) for s_ in case["strategies"]]), vs)
    maps = pre.get("maps") or [None] * len(_model_variants(case))

    def cmap(f):
        return K.cl(["(%s, %s)" % (K.cN(a), K.cN(b)) for a, b in f])
    ws = []
    for (h, t), m in zip([pre["vs"][i] for i in _model_variants(case)], maps):
        # no isomorphism found by the harness: a map the model rejects (1 -> 1 twice), so the flag is 0 and the case is reported
        pi, sg = m if m is not None else ([[1, 1], [1, 1]], [])
        ws.append("(%s, %s, %s, %s)" % (_c_host(h), _c_tpl(t), cmap(pi), cmap(sg)))
    strats = K.cl([K.cN(STRATS[s]) for s in case["strategies"]])
    return "run_c05t %s %s %s %s %s %s" % (cthr, K.cb(case.get("invert", False)),
                                          K.cb(mode == "I"), K.cb(mode == "E"), strats, K.cl(ws))


# ------------------------------------------------------------------ property oracle (metamorphic, on the implementation only)

def _std_set(smarts):
    out, dropped = set(), 0
    for s in smarts:
        f = K.std_fit(s)
        if f:
            out.add(f)
        else:
            dropped += 1
    return out, dropped


def _its_key_graph(g):
    """ITS graph reduced to what the reaction is: element/aromaticity/hydrogens/charge before and after, bond orders before
    and after (the derived standard_order and the neighbour lists are representation, not chemistry)"""
    import networkx as nx
    G = nx.Graph()
    for n, d in g.nodes(data=True):
        t = d["typesGH"]
        G.add_node(n, lab=repr((t[0][:4], t[1][:4])))
    for u, v, d in g.edges(data=True):
        G.add_edge(u, v, lab=repr(tuple(d["order"])))
    return G


def _iso_classes(graphs):
    """multiset of ITS graphs -> {WL hash: [representatives of distinct iso classes]}"""
    import networkx as nx
    from networkx.algorithms.isomorphism import GraphMatcher
    buckets = {}
    for g in graphs:
        G = _its_key_graph(g)
        h = nx.weisfeiler_lehman_graph_hash(G, node_attr="lab", edge_attr="lab", iterations=3)
        reps = buckets.setdefault(h, [])
        if not any(GraphMatcher(G, r, node_match=lambda a, b: a["lab"] == b["lab"], edge_match=lambda a, b: a["lab"] == b["lab"]).is_isomorphic()
                   for r in reps):
            reps.append(G)
    return buckets


def _same_iso_sets(A, B):
    from networkx.algorithms.isomorphism import GraphMatcher
    if {k: len(v) for k, v in A.items()} != {k: len(v) for k, v in B.items()}:
        return False
    for k, reps in A.items():
        for G in reps:
            if not any(GraphMatcher(G, r, node_match=lambda a, b: a["lab"] == b["lab"], edge_match=lambda a, b: a["lab"] == b["lab"]).is_isomorphic()
                       for r in B[k]):
                return False
    return True


def _sub_iso_sets(A, B):
    """every class of A has an isomorphic class in B"""
    from networkx.algorithms.isomorphism import GraphMatcher
    for k, reps in A.items():
        for G in reps:
            if not any(GraphMatcher(G, r, node_match=lambda a, b: a["lab"] == b["lab"], edge_match=lambda a, b: a["lab"] == b["lab"]).is_isomorphic()
                       for r in B.get(k, [])):
                return False
    return True


def _observe(case, v, st):
    """one reactor run -> dict(set of standardised reactions, iso classes of the glued graphs that serialise, raw, kept)"""
    rec = _run_memo(case, v, st)
    if rec.its_err is not None:
        return dict(err=rec.its_err, std=set(), iso={}, nraw=len(rec.raw), nkept=len(rec.mappings), rec=rec, dropped=0)
    std, dropped = _std_set(rec.smarts)
    live = [g for g, s in zip(rec.its_list, rec.smarts_log) if s]
    # the graph-level comparison is quadratic in the number of results: beyond MAX_ISO glued graphs only the strings are compared
    iso = _iso_classes(live) if len(live) <= MAX_ISO else None
    return dict(err=None, std=std, iso=iso, nraw=len(rec.raw), nkept=len(rec.mappings), rec=rec, dropped=dropped)


def _host_iso(a, b):
    from networkx.algorithms.isomorphism import GraphMatcher
    keys = ("element", "aromatic", "hcount", "charge")
    nm = lambda x, y: all(x.get(k) == y.get(k) for k in keys)
    return GraphMatcher(a, b, node_match=nm, edge_match=lambda x, y: x.get("order") == y.get("order")).is_isomorphic()


# ---- applications in a FRESH interpreter, one after the other (shared caches, both orders) ----------------------

def _seq_main():
    """entry point of the helper process: JSON spec on stdin -> JSON answers on stdout"""
    import json
    import sys
    K.quiet()
    spec = json.load(sys.stdin)
    out = []
    for v in spec["apps"]:
        row = {}
        for st in spec["strategies"]:
            try:
                rec = K.run_reactor(_vcase(spec, v, st), want_smarts=True)
                row[st] = None if rec.its_err is not None else sorted(_std_set(rec.smarts)[0])
            except Exception as e:
                row[st] = ["EXC " + type(e).__name__]
        out.append(row)
    json.dump(out, sys.stdout)


def _fresh_sequence(case, apps, strategies):
    import json
    import subprocess
    import sys
    spec = dict(tpl=dict(core=bool(case["tpl"].get("core", True))), invert=bool(case.get("invert", False)),
                mode=case.get("mode", "E"), apps=apps, strategies=strategies)
    r = subprocess.run([sys.executable, "-c", "from harness.props import C05; C05._seq_main()"], input=json.dumps(spec),
                       capture_output=True, text=True, timeout=300)
    if r.returncode != 0:
        raise RuntimeError("helper process failed: " + r.stderr[-300:])
    return json.loads(r.stdout)


def _seq_sampled(case):
    """which cases get the fresh-interpreter sequences (two helper processes each, ~1 s of start-up each)"""
    import hashlib
    if case.get("opts"):
        return False          # the history steps carry their own (result-neutral) options
    if case.get("seq"):
        return True
    return int(hashlib.md5(case.get("name", "").encode()).hexdigest(), 16) % 16 == 0


def _seq_numberings(case):
    """the base numbering, the case's own template variants, and a handful of further permutations of the map numbers
    (transpositions and random ones, PRNG seeded by the case name): cache-key collisions between numberings of one
    rule only show for SOME permutations"""
    import hashlib
    import random
    base = case["variants"][0]
    rs = [base["rsmi"]] + [v["rsmi"] for v in case["variants"][1:] if v["v"].startswith("tpl")]
    rng = random.Random(int(hashlib.md5(("seq:" + case.get("name", "")).encode()).hexdigest(), 16) % (1 << 32))
    nums = Gn.map_numbers(base["rsmi"])
    import re
    for _ in range(3):
        if len(nums) >= 2:
            a, b = rng.sample(nums, 2)
            sig = {a: b, b: a}
            rs.append(re.sub(r":(\d+)\]", lambda mo: ":%d]" % sig.get(int(mo.group(1)), int(mo.group(1))), base["rsmi"]))
    for how in ("random", "offset"):
        r = Gn.permute_maps(base["rsmi"], rng, how)
        if r:
            rs.append(r[0])
    out = []
    for r in rs:
        if r not in out:
            out.append(r)
    return out


def _sequence_failures(case, obs, fail):
    """histories (harness/gen/c05_hist.py): every (writing, strategy) of the case — decorated with the different input forms
    (SMILES / graph / SynGraph / SynRule / shared objects / from_smiles), result-neutral options, repeated reads of every
    lazily computed attribute, one in-place renumbering of a shared template object, steps that empty what they were given
    back, and for designated rules further numberings — applied one after the other in ONE fresh interpreter, in forward and
    in reverse order.  Every step must give the base writing's set of reactions for its strategy."""
    if not _seq_sampled(case):
        return
    from ..gen import c05_hist as H
    extra = _seq_numberings(case)[1 + sum(1 for v in case["variants"][1:] if v["v"].startswith("tpl")):] if case.get("seq") else []
    steps = H.steps_of(case, extra)
    fwd, rev = H.fresh_many([H.spec_of(case, steps + steps[:1]), H.spec_of(case, steps[::-1] + steps[-1:])])
    for label, seq, answers in (("forward", steps + steps[:1], fwd), ("reverse", steps[::-1] + steps[-1:], rev)):
        for k, (st, ans) in enumerate(zip(seq, answers)):
            here = obs[(0, st["key"])]
            want = None if here["err"] else sorted(here["std"])
            what = "step %d of the %s history (substrate %s as %s, template %s as %s, strategy %s%s%s%s%s)" % (
                k + 1, label, st["sub"], st.get("sub_form", "smiles"), st["rsmi"], st.get("tpl_form", "graph"), st["strategy"],
                " enum" if st.get("enum") else "", " via from_smiles" if st.get("ctor") == "from_smiles" else "",
                " options %r" % st["opts"] if st.get("opts") else "",
                " after renumbering the shared template object in place" if st.get("relabel") else "")
            if ans["std"] != want:
                fail("invariant-sequence", "%s gives %s reactions, the base writing alone gives %s; history run in one fresh interpreter: %r"
                     % (what, None if ans["std"] is None else (ans["std"][:1] if ans["std"] and ans["std"][0].startswith("EXC") else len(ans["std"])),
                        None if want is None else len(want),
                        [(x["sub"], x["rsmi"], x["strategy"], x.get("tpl_form", "graph"), x.get("sub_form", "smiles")) for x in seq[:k + 1]][-6:]))
                return
            if not ans["reads_ok"]:
                fail("repeat", "%s: a second read of smarts_list / smarts / its / mapping_count / smiles_list disagrees with the first" % what)
                return


def oracle(case):
    try:
        return _oracle(case)
    finally:
        _MEMO["case"], _MEMO["recs"] = None, {}      # the recorded runs of this case are not needed any more


def _oracle(case):
    pre = case.get("pre")
    if pre is not None and ("error" in pre or "outside" in pre):
        return []          # construction errors (unparsable input) are not results; dropped cases are not run
    base_key = case.get("key")
    fails = []

    def fail(clause, detail, sub=None):
        f = dict(clause=clause, detail=detail)
        if base_key:
            f["key"] = "%s:%s" % (base_key, clause)
        fails.append(f)

    strategies = case["strategies"]
    obs = {}
    base = case["variants"][0]
    try:
        for st in strategies:
            obs[(0, st)] = _observe(case, base, st)
    except Exception:
        return []          # the base writing cannot be run at all (unparsable input): not a result
    for i, v in enumerate(case["variants"]):
        if i == 0:
            continue
        for st in strategies:
            try:
                obs[(i, st)] = _observe(case, v, st)
            except Exception as e:      # the base writing runs, this writing of the same inputs does not
                fail("invariant-raises", "strategy %s: writing %s (%s ; %s) raises %s: %s while the base writing (%s ; %s) runs"
                     % (st, v["v"], v["sub"], v["rsmi"], type(e).__name__, str(e)[:80], base["sub"], base["rsmi"]))
                return fails
    hostb = obs[(0, strategies[0])]["rec"].host
    capped_partial = case.get("mode") in PARTIAL_MODES and bool((case.get("opts") or {}).get("embed_threshold"))
    if capped_partial:
        # known finding: SynReactor(partial=True, embed_threshold=k) limits the engine to the first k/100 matches in VF2 order
        def fail(clause, detail, sub=None, _f=fail):          # noqa: F811
            if clause.startswith("invariant-") and clause != "invariant-raises":
                fails.append(dict(clause=clause, key="partial-capped:invariant-rewriting", detail=detail))
            else:
                _f(clause, detail)
    for i, v in enumerate(case["variants"]):
        if i == 0:
            continue
        # (the generator only emits rewritings that RDKit itself reads back as the same molecule; the parse through
        #  smiles_to_graph is part of what is being checked, so nothing is skipped here)
        kind = "rewriting" if v["v"].startswith("sub") else ("map-permutation" if v["v"].startswith("tpl") else "rewriting+map-permutation")
        for st in strategies:
            a, b = obs[(0, st)], obs[(i, st)]
            if a["err"] != b["err"]:
                fail("invariant-" + kind, "strategy %s: base writing %s, variant %s (%s / %s): %r vs %r" % (st, base["sub"], v["v"], v["sub"], v["rsmi"], a["err"], b["err"]))
            elif a["std"] != b["std"]:
                fail("invariant-" + kind, "strategy %s: %d distinct reactions for (%s ; %s), %d for variant %s (%s ; %s); raw matches %d/%d kept %d/%d; only in base %r; only in variant %r"
                     % (st, len(a["std"]), base["sub"], base["rsmi"], len(b["std"]), v["v"], v["sub"], v["rsmi"], a["nraw"], b["nraw"], a["nkept"], b["nkept"],
                        sorted(a["std"] - b["std"])[:2], sorted(b["std"] - a["std"])[:2]))
            elif a["iso"] is not None and b["iso"] is not None and not _same_iso_sets(a["iso"], b["iso"]):
                fail("invariant-its-" + kind, "strategy %s: glued ITS graphs (those that serialise) of variant %s (%s ; %s) are not the base's up to isomorphism (%d vs %d classes)"
                     % (st, v["v"], v["sub"], v["rsmi"], sum(map(len, b["iso"].values())), sum(map(len, a["iso"].values()))))
    # strategies
    for i, v in enumerate(case["variants"]):
        if not {"all", "comp", "bt"} <= set(strategies) or capped_partial:
            break
        A, C, B = obs[(i, "all")], obs[(i, "comp")], obs[(i, "bt")]
        if A["err"] or C["err"] or B["err"]:
            continue
        thr = (case.get("opts") or {}).get("embed_threshold")
        if thr is not None and thr < case.get("n_all", 0) and not A["std"] and C["std"]:
            # known finding: the documented guard empties the exhaustive search (more embeddings than the cap) while the
            # component-aware search stays below the cap
            fails.append(dict(clause="comp-subset", key="capped:comp-subset",
                              detail="writing %s (%s ; %s): embed_threshold=%d is below the %d embeddings of the exhaustive search, which "
                                     "therefore returns nothing; the component-aware search (below the cap) returns %d reactions"
                                     % (v["v"], v["sub"], v["rsmi"], thr, case.get("n_all", 0), len(C["std"]))))
        elif not C["std"] <= A["std"]:
            fail("comp-subset", "writing %s (%s ; %s): component-aware results not among the exhaustive ones: %r" % (v["v"], v["sub"], v["rsmi"], sorted(C["std"] - A["std"])[:2]))
        elif C["iso"] is not None and A["iso"] is not None and not _sub_iso_sets(C["iso"], A["iso"]):
            fail("comp-subset-its", "writing %s (%s ; %s): a glued ITS graph of the component-aware strategy is not isomorphic to any of the exhaustive strategy" % (v["v"], v["sub"], v["rsmi"]))
        if C["std"] and B["std"] != C["std"] and C["rec"].flag and C["std"] <= B["std"]:
            # known finding: on the explicit-hydrogen path the re-matching inside _glue_graph re-decides BACKTRACK's fallback per kept match
            fails.append(dict(clause="bt-equals-comp", key="explicit-path:bt-equals-comp",
                              detail="writing %s (%s ; %s): pattern keeps explicit X-H bonds; fallback strategy gives %d reactions, component-aware %d (non-empty, a subset)"
                                     % (v["v"], v["sub"], v["rsmi"], len(B["std"]), len(C["std"]))))
        elif C["std"] and B["std"] != C["std"]:
            fail("bt-equals-comp", "writing %s (%s ; %s): fallback strategy gives %d reactions, component-aware %d (non-empty)" % (v["v"], v["sub"], v["rsmi"], len(B["std"]), len(C["std"])))
    # repetition: same reactor object asked again; a second reactor on the same template OBJECT and substrate
    try:
        for st in strategies[:1]:
            rec = obs[(0, st)]["rec"]
            if rec.its_err is None:
                first = list(rec.smarts)
                again = list(rec.R.smarts_list)
                if first != again:
                    fail("repeat", "second read of smarts_list on the same reactor differs (%d vs %d strings)" % (len(first), len(again)))
                fails.extend(_repeat_same_template(case, base, st, obs[(0, st)]["std"], base_key))
    except Exception as e:
        fail("repeat", "repeating the call raised %s: %s" % (type(e).__name__, str(e)[:100]))
    if not fails:
        try:
            _sequence_failures(case, obs, fail)
        except Exception as e:
            fail("invariant-sequence", "the fresh-interpreter sequence could not be run: %s: %s" % (type(e).__name__, str(e)[:200]))
    return fails[:4]


def _repeat_same_template(case, v, st, want, base_key):
    import synkit.Synthesis.Reactor.syn_reactor as SR
    cfg = dict(K.MODES[case.get("mode", "E")])
    cfg.update(case.get("opts") or {})
    tpl = K.tpl_graph(dict(rsmi=v["rsmi"], core=bool(case["tpl"].get("core", True))))
    out = []
    sets = []
    for _ in range(3):
        R = SR.SynReactor(v["sub"], tpl, invert=bool(case.get("invert", False)), strategy=st, **cfg)
        try:
            sets.append(_std_set(list(R.smarts_list))[0])
        except StopIteration:
            sets.append(None)
    if any(s != want for s in sets if s is not None) or (None in sets and any(s is not None for s in sets)):
        f = dict(clause="repeat", detail="three reactors built on the same template graph object give %r distinct reactions, the first run %d"
                 % ([None if s is None else len(s) for s in sets], len(want)))
        if base_key:
            f["key"] = base_key + ":repeat"
        out.append(f)
    return out


# ------------------------------------------------------------------ evidence helpers

def _ok_obs(obs):
    return isinstance(obs, list) and obs and obs[0] not in ("SKIP", "EXC", "TIMEOUT") and isinstance(obs[0], list)


def nontrivial(case, obs):
    if (case.get("opts") or {}).get("embed_pre_filter"):
        try:
            return obs[0][4][0][0] >= 2 or obs[0][2] == 1
        except Exception:
            return False
    if case.get("mode") in PARTIAL_MODES:
        try:
            return obs[0][2][0][0] >= 2
        except Exception:
            return False
    if not _ok_obs(obs) or len(obs) < 2:
        return False
    per = obs[0][0][4]          # obs = [per-writing observables, rewriting flags]; base writing first
    return bool(per) and per[0][0] >= 2 and per[0][3] >= 1


def distribution(cases, obss):
    d = dict(modes={}, direction={}, variant_kinds={}, variants_total=0, runs=0, raw_gt1=0, pruning_active=0, rule_auts_gt1=0, explicit_path=0,
             results_total=0, comp_smaller_than_all=0, bt_fallback=0, multi_component_pattern=0, skipped=0, big_oracle_only=0, empty_base=0,
             host_sizes={})
    for c, o in zip(cases, obss):
        pre = c.get("pre") or {}
        if pre.get("big"):
            d["big_oracle_only"] += 1
        if c.get("mode") in PARTIAL_MODES:
            d["partial_mode"] = d.get("partial_mode", 0) + 1
            continue
        if (c.get("opts") or {}).get("embed_pre_filter"):
            d["pre_filter"] = d.get("pre_filter", 0) + 1
            try:
                d["pre_filter_fires"] = d.get("pre_filter_fires", 0) + sum(1 for w in o if w[2] == 1)
            except Exception:
                pass
            continue
        if not _ok_obs(o):
            d["skipped"] += 1
            continue
        d["modes"][c.get("mode", "E")] = d["modes"].get(c.get("mode", "E"), 0) + 1
        k = "backward" if c.get("invert") else "forward"
        d["direction"][k] = d["direction"].get(k, 0) + 1
        for v, vo in zip([c["variants"][i] for i in _model_variants(c)], o[0]):
            kind = v["v"]
            d["variant_kinds"][kind] = d["variant_kinds"].get(kind, 0) + 1
            d["variants_total"] += 1
            if vo[1]:
                d["explicit_path"] += 1
            per = dict(zip(c["strategies"], vo[4]))
            for st, so in per.items():
                d["runs"] += 1
                d["raw_gt1"] += so[0] > 1
                d["pruning_active"] += so[1] < so[0]
                d["rule_auts_gt1"] += so[2] > 1
                d["results_total"] += so[3]
            if "all" in per and "comp" in per:
                d["comp_smaller_than_all"] += per["comp"][1] < per["all"][1]
                if "bt" in per:
                    d["bt_fallback"] += per["comp"][0] == 0 and per["bt"][0] > 0
        if o[0][0][4] and o[0][0][4][0][3] == 0:
            d["empty_base"] += 1
        tn = ((pre.get("vs") or [[None, [[], []]]])[0][1])[0]
        hs = str(min(((pre.get("cost") or {}).get("host", 0)) // 10 * 10, 90))
        d["host_sizes"][hs] = d["host_sizes"].get(hs, 0) + 1
        if "." in c["tpl"]["rsmi"].split(">>")[1 if c.get("invert") else 0]:
            d["multi_component_pattern"] += 1
    return d


# ------------------------------------------------------------------ generators

SEQ_RULES = ("amine-double-abstraction", "suzuki-bare", "metathesis-bare", "tishchenko", "halogen-exchange-bare", "ring-symmetric",
             "single-symmetric", "diol-mono-oxidation", "halohydrin-closure", "hydrolysis-explicit", "meinwald")


def _mk_case(pair, rng, k_sub, k_tpl, cap=12.0):
    rsmi, sub = pair["tpl"]["rsmi"], pair["sub"]
    big_tpl = not pair["tpl"].get("core", True) and len(Gn.map_numbers(rsmi)) > 16
    if big_tpl:
        k_sub, k_tpl = 1, min(k_tpl, 1)          # full ITS of a corpus reaction: 30-60 pattern nodes, keep the case affordable
    vs = [dict(v="base", sub=sub, rsmi=rsmi)]
    subs = Gn.substrate_variants(sub, rng, k_order=k_sub)
    tpls = Gn.template_variants(rsmi, rng, k=k_tpl)
    for kind, s in subs:
        vs.append(dict(v="sub:" + kind, sub=s, rsmi=rsmi))
    for how, t in tpls:
        vs.append(dict(v="tpl:" + how, sub=sub, rsmi=t))
    if subs and tpls and not big_tpl:
        vs.append(dict(v="both", sub=rng.choice(subs)[1], rsmi=rng.choice(tpls)[1]))
    c = dict(pair)
    c["variants"] = vs
    c["strategies"] = ["all", "comp", "bt"]
    c["cap"] = cap
    if pair.get("kind") == "hand" and any(k in pair.get("name", "") for k in SEQ_RULES) and pair["sub"] == pair.get("first_sub"):
        c["seq"] = True
    return c


def gen_cases(tier, rng):
    import json
    K.quiet()
    idx = {n: json.load(open(os.path.join(K.VERIF, "corpus", "C03_corpus_index.json")))[n] for n in ("usp", "eco")}
    pairs_tbl = json.load(open(os.path.join(K.VERIF, "corpus", "C03_pairs.json")))["pairs"]
    pairs = list(Gn.hand_pairs(full_all=(tier != "quick")))
    if tier == "quick":
        pick = {"usp": rng.sample(idx["usp"], 6), "eco": rng.sample(idx["eco"], 8)}
        nfor, k_sub, k_tpl, cap = 1, 1, 1, 8.0
    else:
        pick = {"usp": rng.sample(idx["usp"], 40), "eco": rng.sample(idx["eco"], 70)}
        nfor, k_sub, k_tpl, cap = 2, 2, 2, 16.0
    for name in ("usp", "eco"):
        for n_, (i, mode) in enumerate(pick[name]):
            inv = rng.random() < 0.5
            if tier == "quick":
                combos = [(True, inv, mode), (True, not inv, mode)] + ([(False, inv, mode)] if n_ % 3 == 0 else [])
                if mode == "E":
                    combos.append((True, inv, "I"))      # explicit centre hydrogens kept in the pattern: the re-matching path
            else:
                combos = [(True, False, mode), (True, True, mode), (False, inv, mode)]
                if mode == "E":
                    combos += [(True, inv, "I")]
            for core, iv, md in combos:
                p = Gn.own_pair(name, i, core, iv, md)
                if p:
                    pairs.append(p)
            fp = [p for p in pairs_tbl if p[0] == name and p[1] == i]
            for p in rng.sample(fp, min(nfor, len(fp))):
                q = Gn.foreign_pair(p)
                if q:
                    pairs.append(q)
    # the partial-matching option on the designated symmetric rules (first substrate, centre template): oracle only
    for p in list(pairs):
        if p.get("kind") == "hand" and p["tpl"].get("core") and p["sub"] == p.get("first_sub") and any(k in p["name"] for k in SEQ_RULES):
            q = dict(p)
            q["mode"] = "P" if p["mode"] == "I" else "Q"
            q["name"] = p["name"] + ":partial"
            pairs.append(q)
    cases = [_mk_case(p, rng, k_sub, k_tpl, cap) for p in pairs]
    for c in cases:
        c["trim"] = 2500 if tier == "quick" else 10000
    cases = prepare_all(cases)
    cases = cases + threshold_cases(cases, rng, 3 if tier == "quick" else 5) + partial_cap_cases(cases, rng) + prefilter_cases(cases, rng, k_sub, k_tpl, cap)
    # longest first: the pool hands out the cases in order, so an expensive case at the end of the list would run alone while
    # every other worker is idle (on a loaded machine that one case decided the wall time)
    cases.sort(key=lambda c: -_impl_cost(c))
    return cases


def _impl_cost(c):
    cost = (c.get("pre") or {}).get("cost") or {}
    return (cost.get("glued", 0) + 2) * (cost.get("host", 0) + 10) * len(c.get("variants", [])) + (4000 if _seq_sampled(c) else 0)


# the embedding cap (SynReactor(embed_threshold=k) -> find_subgraph_mappings(threshold=k)): a documented guard that EMPTIES a search
# with more than k embeddings.  Swept around the number n of embeddings of the exhaustive search on designated rules (first
# substrate, centre template): k = n - 1 (just over the cap), n (exactly at the cap), n // 2, 1, 0 (falsy).  Whatever k is, the
# answer must not depend on how the inputs are written.
THR_RULES = ("bromination-bare", "suzuki-bare", "metathesis-bare", "halogen-exchange-bare", "dimerisation-bare", "aldol-bare",
             "tishchenko-implicit", "diels-alder:", "halohydrin-closure", "hydrolysis-explicit", "sn2-explicit", "amine-double-abstraction",
             "three-component", "single-symmetric", "ester-exchange")


def partial_cap_cases(cases, rng):
    """SynReactor(partial=True, embed_threshold=k): the reactor also derives max_results = k / 100 (first matches in VF2 order).
    The number of raw matches is compared with the model; differences between writings are the known finding
    partial-capped:invariant-rewriting."""
    out = []
    for c in cases:
        pre = c.get("pre") or {}
        if c.get("mode") not in PARTIAL_MODES or "cost" not in pre or pre.get("big") or c.get("opts"):
            continue
        k = rng.choice([100, 150, 250, 400])
        q = {a: b for a, b in c.items() if a != "seq"}
        q["opts"] = dict(embed_threshold=k)
        q["name"] = "%s:thr=%d" % (c["name"], k)
        out.append(q)
    return out


def prefilter_cases(cases, rng, k_sub, k_tpl, cap):
    """SynReactor(embed_pre_filter=True): the documented guard of the first search (it may only EMPTY the result, and whether it
    does must not depend on the writing).  On the designated rules alternately alone and together with a cap k (the guard fires
    when the product of the per-atom candidate counts exceeds k * 10000, or an atom has no candidate); plus one case built so
    that the guard fires although the search itself is within the cap (20 carbon atoms, 4 pattern atoms, cap 8 = #embeddings)."""
    out = []
    j = 0
    for c in cases:
        pre = c.get("pre") or {}
        if c.get("kind") != "hand" or not c["tpl"].get("core") or c["sub"] != c.get("first_sub") or c.get("mode") in PARTIAL_MODES or c.get("opts"):
            continue
        if not any(("hand:" + k) in c["name"] + ":" for k in THR_RULES) or "cost" not in pre or pre.get("big"):
            continue
        n = int(pre["cost"]["raw"])
        j += 1
        q = {a: b for a, b in c.items() if a != "seq"}
        q["opts"] = dict(embed_pre_filter=True)
        q["n_all"] = n
        if j % 2 == 0:
            q["opts"]["embed_threshold"] = rng.choice(sorted({0, 1, max(n - 1, 0), n}))
        q["name"] = "%s:prefilter%s" % (c["name"], "" if "embed_threshold" not in q["opts"] else ":thr=%d/%d" % (q["opts"]["embed_threshold"], n))
        out.append(q)
    built = [
        # fires although the search is within the cap: 20^4 = 160000 candidate combinations > 8 * 10000, 8 embeddings <= 8
        ("metathesis-bare", "[C:1]=[C:2].[C:3]=[C:4]>>[C:1]=[C:3].[C:2]=[C:4]", "C=CCCCCCCCCCCCCCCC.C=CC", dict(embed_pre_filter=True, embed_threshold=8), 8),
        # a pattern atom without any candidate (no Br, no B in the substrate): fires
        ("suzuki-bare", "[C:1][Br:2].[B:3][C:4]>>[C:1][C:4].[B:3][Br:2]", "CCO.CCN", dict(embed_pre_filter=True), 0),
        # candidates by element but none by DEGREE (the inner diene atoms need two neighbours, ethene carbons have one): fires
        ("diels-alder", "[CH2:1]=[CH:2][CH:3]=[CH2:4].[CH2:5]=[CH2:6]>>[CH2:1]1[CH:2]=[CH:3][CH2:4][CH2:5][CH2:6]1", "C=C.C=C.C=C", dict(embed_pre_filter=True), 0),
    ]
    for name, r, sub, opts, n in built:
        p = dict(kind="hand", name="hand:%s:centre:%s:I:%s:prefilter-built%s" % (name, "bwd" if name == "suzuki-bare" else "fwd", sub,
                                                                                 ":thr=%d/%d" % (opts["embed_threshold"], n) if "embed_threshold" in opts else ""),
                 tpl=dict(rsmi=r, core=True), sub=sub, invert=(name == "suzuki-bare"), mode="I", first_sub=sub)
        q = _mk_case(p, rng, k_sub, min(k_tpl, 1), cap)
        q.pop("seq", None)
        q["opts"] = dict(opts)
        q["n_all"] = n
        out.append(prepare(q))
    # the guard belongs to the FIRST search only: propane, full template with all eight hydrogens written out, implicit-template mode
    # (the pattern keeps its explicit X-H bonds, so every kept match is re-matched on the hydrogen-expanded substrate): the
    # first search has 27 candidate combinations, the re-match 27 * 8^8 = 4.5e8 > 5000 * 10000 — a guard handed on to the
    # re-match would empty the answer (288 glued graphs, 24 reactions)
    r = ("[C:1]([H:4])([H:5])([H:6])[C:2]([H:7])([H:8])[C:3]([H:9])([H:10])[H:11]>>"
         "[C:1]([H:4])([H:5])=[C:2]([H:7])[C:3]([H:9])([H:10])[H:11].[H:6][H:8]")
    p = dict(kind="hand", name="hand:propane-dehydrogenation-explicit:full:fwd:I:CCC:prefilter-built-rematch", tpl=dict(rsmi=r, core=False), sub="CCC",
             invert=False, mode="I", first_sub="CCC")
    q = _mk_case(p, rng, 1, 1, cap)
    q.pop("seq", None)
    q["strategies"] = ["all"]
    q["opts"] = dict(embed_pre_filter=True)
    q["n_all"] = 2
    q["max_glued"] = 400
    out.append(prepare(q))
    # ... and the cap applies to BOTH searches: the same inputs with embed_threshold = 10 — the first search (2 embeddings) is within
    # the cap, each re-match (144 embeddings) is over it: no result at all
    q2 = {a: b for a, b in q.items() if a != "pre"}
    q2["name"] = "hand:propane-dehydrogenation-explicit:full:fwd:I:CCC:thr=10/2-rematch"
    q2["opts"] = dict(embed_threshold=10)
    out.append(prepare(q2))
    return out


def threshold_cases(cases, rng, per_rule):
    out = []
    for c in cases:
        pre = c.get("pre") or {}
        if c.get("kind") != "hand" or not c["tpl"].get("core") or c["sub"] != c.get("first_sub") or c.get("mode") in PARTIAL_MODES:
            continue
        if not any(("hand:" + k) in c["name"] + ":" for k in THR_RULES) or "cost" not in pre or pre.get("big"):
            continue
        n = int(pre["cost"]["raw"])
        if n < 2:
            continue
        rest = sorted({n, 1, 0} - {n - 1, n // 2})
        ks = [n - 1] + ([n // 2] if n // 2 not in (n - 1,) else []) + rng.sample(rest, max(0, min(per_rule - 2, len(rest))))
        for k in ks:
            q = {a: b for a, b in c.items() if a != "seq"}
            q["opts"] = dict(embed_threshold=k)
            q["n_all"] = n
            q["name"] = "%s:thr=%d/%d" % (c["name"], k, n)
            out.append(q)
    return out
