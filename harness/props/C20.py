"""C20 — siphons, traps, the Petri firing rule and pathway realizability.

Three case types (field "t"):

net   {"t":"net", "species":[labels], "iso":[labels], "rxns":[[lhs, rhs], ...], "mode":"hg"|"bip"|"und",
       "k": max_size, "cands":[[idx,...],...]}            lhs/rhs = [[label, count], ...]
      observable: per non-empty species subset (in itertools.combinations order) the value of
      _is_siphon_indices / _is_trap_indices, find_siphons / find_traps (unbounded and with max_size=k),
      _minimal_sets(cands).
petri {"t":"petri", "places":[p,...], "trans":[[tid, pre, post], ...], "queries":[[marking, tid], ...]}
      places / tids are small ints (adapter uses "p<i>", "t<i>"); pre/post/marking = [[place, int], ...]
      observable: place index, transition table, per query enabled / fire / marking_to_tuple.
flow  {"t":"flow", "species":[labels], "vertices":[labels], "edges":[[eid, tail, head], ...], "flow":[[eid, f], ...],
       "max_states": int|None, "max_depth": int|None, "via":"direct"|"hg"}
      observable: the extended net (places, transitions, M0, MT), verdict, certificate, number of
      enabled()/fire() calls made by the bounded BFS.
hist  {"t":"hist", species, vertices, edges, flow (as for flow cases), "ops":[op,...]}  — a call HISTORY on ONE object:
      op = ["R", max_states|None, max_depth|None] is_realizable, ["S", k_max] is_scaled_realizable, ["C"] the certificate
      property, ["B"] build_petri_net_from_flow, ["L", [[eid, f],...]] load_hypergraph_and_flow with a new flow,
      ["W", max_borrow_each] is_borrow_realizable.
      observable: per call the answer and the object's fields right after it (flow, built net places, M0, MT, certificate).
ana   {"t":"ana", "stages":[[rxn,...],[rxn,...],...], "k": max_siphon_size|None, "ops":["C"|"R"|"E",...]} — ONE PetriAnalyzer on ONE
      CRNHyperGraph that is edited between calls: C compute_siphons_traps(), R read the siphons / traps properties, E add the
      reactions of the next stage to the analysed hypergraph.  observable: per call the answer (sets as species ranks of the network
      at the last successful compute).
"""
import itertools
import os

from ..coqrun import cN, cZ, cnat, cbool, clist, cpair, copt
from ..tok import S

PID = "C20"
COQ_HEADER = ("From Coq Require Import ZArith NArith List.\nImport ListNotations.\n"
              "From SK Require Import lib.Tok model.C20_Model model.C20_Persist model.C20_Inputs model.C20_RawModel.\n")
SHARD = 120
IMPL_TIMEOUT = 1500
COQ_TIMEOUT = 1500
RULE = ("net cases: a network with its species subsets; petri cases: a net with (marking, transition) queries; flow cases: "
        "(network, integer flow, max_states, max_depth).  Non-trivial: net = at least one subset satisfies and one violates a "
        "predicate; petri = at least one query enabled and one disabled; flow = realizable with a certificate of length >= 2, or "
        "not realizable although at least 3 markings are reachable; hist (a call history on one object) = a scaled search that went "
        "beyond k = 1 or failed, followed by a later is_realizable / certificate call, or two searches with different answers; "
        "ana (PetriAnalyzer history) = two reads with different non-empty results.  "
        "distinct = distinct canonical case JSON")
EXHAUSTIVE = {"quick": True, "thorough": True}
EXPLANATION = ("Exhaustive sub-space: every network of <=2 (quick) / <=3 (thorough) distinct reactions between unit-coefficient "
               "complexes over the species {A,B,C} (56 reactions), with ALL 7 non-empty species subsets evaluated by both index "
               "predicates and the minimal siphons/traps compared.  Everything else (random networks <= 6 species, Petri firing "
               "queries, flows derived from valid firing sequences and their perturbations with <= 10^4 reachable markings, bounds "
               "at and around the exact reachable-set size and pathway length, call histories of 2-8 calls on one object over catalyst pathways "
               "that need a scaling factor 2-4, autocatalytic pathways that need a borrowed token, gcd-reduced and ordinary walk flows, "
               "compute / read / edit histories of one PetriAnalyzer on one hypergraph) is seeded random.")
TRUSTED_BASE = [
    "Coq 8.16.1 kernel + vm_compute (no native_compute)",
    "hand-written models coq/model/C20_Model.v (synkit/CRN/Petri/{structure,net,analyzer}.py, synkit/CRN/Path/realizability.py) and coq/model/C20_Persist.v "
    "(persistence.py) tied to the code by the per-run correspondence",
    "harness encoders harness/props/C20.py (labels -> rank in sorted order; places -> 3*s / 3*e+1 / 3*e+2; observables -> tok)",
    "hypergraph_to_bipartite (C16) is modelled only as far as C20 needs it: species sorted by label, one arc per (reaction, side, species) with role and stoich",
    "CPython dict / set / deque / itertools.combinations semantics",
    "caller-supplied DiGraphs go through the attribute layer of the model (model/C20_RawModel.v: classification by kind / bipartite, label fall-back to str(node), role test, stoich "
    "default 1; for undirected Graphs the orientation of every stored edge by its role as _as_bipartite does it); the encoder hands over each attribute as the code's == tests "
    "read it and interns label strings / str(node) to ranks among the species names",
]
ASSUMPTIONS = ["PetriNet.add_transition: a transition introduces at most ONE place that is not yet known (the order in which several new places enter "
               "_place_index is the iteration order of a Python set of strings - not modelled; the model uses pre ++ post order; gen_petri never generates such "
               "a transition and coq_case would put it outside the model domain)",
               "species labels do not start with '__ext__' / '__target__' (place names of the extended net would collide)",
               "stoichiometric coefficients are positive integers",
               "max_states, max_depth are non-negative integers"]
TESTED_NOT_PROVED = ["siphon_persistence_condition: the floating-point P-semiflow basis (scipy) is not modelled — the supports of its columns are oracle inputs of "
                     "model/C20_Persist.v, computed by the harness from the basis the implementation computes with the code's threshold 1e-8; the set logic on top "
                     "of them is modelled and proved (C20_persistence_condition) and compared on every net case for max_siphon_size None / k",
                     "PetriNet.fire / enabled leave the marking they are given untouched (adapter flag in every petri query; not a theorem: the model's functions are pure)",
                     "find_siphons / find_traps on caller-supplied networkx graphs with a species on both sides of a reaction given as an UNDIRECTED graph (outside the input format; such cases stay outside the model domain)",
                     ]

DEFAULT_MAX_STATES = 100000
DEFAULT_MAX_DEPTH = 10000


# ------------------------------------------------------------------ helpers

def _combos(n):
    return [c for k in range(1, n + 1) for c in itertools.combinations(range(n), k)]


def _all_species(case):
    sp = set(case.get("species", [])) | set(case.get("iso", []))
    for l, r in case["rxns"]:
        sp |= {s for s, c in l if c > 0} | {s for s, c in r if c > 0}
    return sorted(sp)


def _build_H(case):
    from synkit.CRN.Hypergraph.hypergraph import CRNHyperGraph
    H = CRNHyperGraph()
    for l, r in case["rxns"]:
        H.add_rxn({s: c for s, c in l}, {s: c for s, c in r})
    for s in case.get("iso", []):
        if s not in H.species:
            H.add_rxn({s: 1}, {}, edge_id="tmp__iso")
            H.remove_species(s, prune_orphans=False)
    return H


def _has_catalyst(case):
    return any({s for s, c in l if c > 0} & {s for s, c in r if c > 0} for l, r in case["rxns"])


def _species_insertion_order(case, n):
    """ranks of the species in the order their nodes are inserted into a caller-supplied graph ([] = label order)"""
    if case.get("mode", "hg") == "hg" or case.get("shuffle") is None:
        return []
    import random
    order = list(range(n))
    random.Random(case["shuffle"]).shuffle(order)
    return order


def _crn_input(case, H):
    mode = case.get("mode", "hg")
    if mode == "hg":
        return H
    import networkx as nx
    from synkit.CRN.Hypergraph.conversion import hypergraph_to_bipartite
    # "no_stoich": the converter's include_stoich=False form — no coefficient on any arc, every coefficient reads as 1
    # (repo 25ebd6d: the predicates used to read a missing coefficient as 0 and ignored every arc)
    if case.get("bare"):
        # minimally annotated: node id = species name and no 'label' on species nodes (the label falls back to the node id),
        # no 'kind' attribute (classification by the 'bipartite' flag)
        G = hypergraph_to_bipartite(H, species_prefix=None, include_stoich=not case.get("no_stoich"))
        for u, d in G.nodes(data=True):
            if d.get("kind") == "species":
                d.pop("label", None)
            d.pop("kind", None)
    else:
        G = hypergraph_to_bipartite(H, integer_ids=bool(case.get("int_ids", False)), include_stoich=not case.get("no_stoich"))
    if case.get("shuffle") is not None:
        # the same graph with its nodes INSERTED in another order: species in a shuffled order, reactions interleaved; the
        # node ids of the integer export are two-digit from 10 nodes on and unrelated to the insertion order
        sp = [u for u, d in G.nodes(data=True) if d.get("bipartite") == 0]
        rn = [u for u, d in G.nodes(data=True) if d.get("bipartite") == 1]
        assert [G.nodes[u].get("label", u) for u in sp] == sorted(G.nodes[u].get("label", u) for u in sp)
        order = _species_insertion_order(case, len(sp))
        G2 = nx.DiGraph()
        seq_ = [sp[i] for i in order]
        k = len(seq_) // 2
        for u in seq_[:k] + rn + seq_[k:]:
            G2.add_node(u, **G.nodes[u])
        for u, v, d in G.edges(data=True):
            G2.add_edge(u, v, **d)
        G = G2
    if case.get("frac") and mode in ("bip", "und"):
        # fractional coefficients on a caller-supplied graph (1/2 O2 ...): positive, so every siphon / trap answer is unchanged
        import random
        fr = random.Random(case["frac"])
        for _, _, d in G.edges(data=True):
            if "stoich" in d:
                d["stoich"] = d["stoich"] * fr.choice([0.5, 1.5, 0.25, 1, 0.75])
    if case.get("junk") and mode == "bip":
        # things the code must ignore: a node without attributes, nodes with foreign attribute values, a species-species edge, a
        # role-less and a foreign-role incidence, an edge from an unclassified node to a reaction
        import random
        jr = random.Random(case["junk"])
        sp = [u for u, d in G.nodes(data=True) if d.get("kind") == "species" or d.get("bipartite") == 0]
        rn = [u for u, d in G.nodes(data=True) if not (d.get("kind") == "species" or d.get("bipartite") == 0)]
        G.add_node("zz_junk")
        G.add_node("zz_other", kind="other", bipartite=2, label=jr.choice(["A", "zz", "0"]))
        if len(sp) >= 2:
            u, v = jr.sample(sp, 2)
            if not G.has_edge(u, v):
                G.add_edge(u, v, role="product", stoich=3)
        if sp and rn:
            u, v = jr.choice(sp), jr.choice(rn)
            if not G.has_edge(u, v) and not G.has_edge(v, u):
                G.add_edge(u, v, **jr.choice([{}, {"stoich": 2}, {"role": "catalyst", "stoich": 2}, {"role": None}]))
        if rn:
            G.add_edge("zz_junk", jr.choice(rn), role="reactant", stoich=2)
            G.add_edge(jr.choice(rn), "zz_other", role="product")
    if mode == "bip":
        return G
    if mode == "und":
        return nx.Graph(G)
    raise AssertionError(mode)


# ------------------------------------------------------------------ implementation adapter

def _impl_net(case):
    import synkit.CRN.Petri.structure as ST
    from synkit.CRN.Props.utils import _split_species_reactions, _species_order
    from synkit.CRN.Hypergraph.conversion import _as_bipartite
    H = _build_H(case)
    crn = _crn_input(case, H)
    try:
        G = _as_bipartite(crn)
        sns, labels, _ = _species_order(G)
        _, rnodes = _split_species_reactions(G)
    except ValueError:
        return [0]
    ref = _all_species(case)
    rank = {s: i for i, s in enumerate(ref)}
    n = len(labels)
    sip = [ST._is_siphon_indices(G, sns, rnodes, set(c)) for c in _combos(n)]
    trp = [ST._is_trap_indices(G, sns, rnodes, set(c)) for c in _combos(n)]
    e_s = ST._is_siphon_indices(G, sns, rnodes, set())
    e_t = ST._is_trap_indices(G, sns, rnodes, set())

    def conv(sets):
        return [S(sorted(rank[x] for x in st)) for st in sets]
    k = case.get("k", n)
    cands = [set(c) for c in case.get("cands", [])]
    mins = ST._minimal_sets(cands)
    from synkit.CRN.Petri.persistence import siphon_persistence_condition

    def pv(**kw):
        try:
            return [bool(siphon_persistence_condition(crn, **kw))]
        except ValueError:
            return []
    return [1, [rank[x] for x in labels], [e_s, e_t], sip, trp,
            conv(ST.find_siphons(crn)), conv(ST.find_traps(crn)),
            conv(ST.find_siphons(crn, max_size=k)), conv(ST.find_traps(crn, max_size=k)),
            [S(sorted(m)) for m in mins],
            [pv(), pv(max_siphon_size=k)]]


def _times4(c):
    from fractions import Fraction
    f = Fraction(c) * 4
    assert f.denominator == 1, c
    return int(f)


def _persist_supports(case):
    """ORACLE INPUT of the persistence model: the supports (species ranks with |coefficient| > 1e-8, the threshold of
    persistence.py) of the columns of the float P-semiflow basis the implementation computes for this input."""
    import warnings
    warnings.filterwarnings("ignore")
    from synkit.CRN.Petri.semiflows import find_p_semiflows
    from synkit.CRN.Props.utils import _species_order
    from synkit.CRN.Hypergraph.conversion import _as_bipartite
    crn = _crn_input(case, _build_H(case))
    try:
        G = _as_bipartite(crn)
        _, labels, _ = _species_order(G)
        Y = find_p_semiflows(G)
    except ValueError:
        return []
    rank = {s: i for i, s in enumerate(_all_species(case))}
    if Y.size == 0:
        return []
    return [[rank[labels[i]] for i in range(Y.shape[0]) if abs(float(Y[i, k])) > 1e-8] for k in range(Y.shape[1])]


def _mk_net(case):
    from synkit.CRN.Petri.net import PetriNet
    net = PetriNet()
    for p in case["places"]:
        net.add_place("p%d" % p)
    for tid, pre, post in case["trans"]:
        net.add_transition("t%d" % tid, {"p%d" % p: w for p, w in pre}, {"p%d" % p: w for p, w in post})
    return net


def _pn(x):
    return int(x[1:])


def _impl_petri(case):
    if case.get("rounds"):
        # ONE PetriNet object growing between rounds of queries (places / transitions added, transitions overwritten)
        from synkit.CRN.Petri.net import PetriNet
        net = PetriNet()
        for p in case["places"]:
            net.add_place("p%d" % p)
        out = []
        for trans, queries in case["rounds"]:
            for tid, pre, post in trans:
                net.add_transition("t%d" % tid, {"p%d" % p: w for p, w in pre}, {"p%d" % p: w for p, w in post})
            out.append(_petri_block(net, queries))
        return out
    net = _mk_net(case)
    return _petri_block(net, case["queries"])


def _petri_block(net, queries):
    order = sorted(net._place_index, key=lambda p: net._place_index[p])
    out = [[_pn(p) for p in order], sorted(net._place_index.values()) == list(range(len(order))),
           S([_pn(p) for p in net.places]),
           [[_pn(t), {_pn(p): w for p, w in tr.pre.items()}, {_pn(p): w for p, w in tr.post.items()}]
            for t, tr in net.transitions.items()]]
    qs = []
    for marking, tid in queries:
        m = {"p%d" % p: c for p, c in marking}
        m0 = dict(m)
        en = net.enabled(m, "t%d" % tid)
        m2 = net.fire(m, "t%d" % tid)
        untouched = (m == m0)
        qs.append([en, {_pn(p): c for p, c in m2.items()}, list(net.marking_to_tuple(m)), list(net.marking_to_tuple(m2)), untouched])
    out.append(qs)
    return out


def _flow_setup(case):
    from synkit.CRN.Path.realizability import PathwayRealizability, hypergraph_to_pr_inputs
    flow = {e: f for e, f in case["flow"]}
    if case.get("via", "direct") == "hg":
        from synkit.CRN.Hypergraph.hypergraph import CRNHyperGraph
        H = CRNHyperGraph()
        for eid, tail, head in case["edges"]:
            H.add_rxn({s: c for s, c in tail}, {s: c for s, c in head}, edge_id=eid)
        # hypergraph_to_pr_inputs defaults a missing flow to ONE (load_hypergraph_and_flow defaults it to zero): the case's flow is
        # the effective one; "omit" lists edges (of flow 1) left out of the mapping handed over, "flow_none" hands over None
        given = None if case.get("flow_none") else {k: x for k, x in flow.items() if k not in set(case.get("omit", []))}
        if case.get("flow_none"):
            v, e, f = hypergraph_to_pr_inputs(H) if len(case["edges"]) % 2 else hypergraph_to_pr_inputs(hg=H, flow=None)
        elif len(case["edges"]) % 2:
            v, e, f = hypergraph_to_pr_inputs(H, given)
        else:
            v, e, f = hypergraph_to_pr_inputs(hg=H, flow=given)
    else:
        v = list(case["vertices"])
        e = {eid: ({s: c for s, c in tail}, {s: c for s, c in head}) for eid, tail, head in case["edges"]}
        f = flow
    pr = PathwayRealizability().load_hypergraph_and_flow(v, e, f)
    pr.build_petri_net_from_flow()
    return pr


def _place_code(case):
    sp = sorted(set(case["species"]))
    code = {s: 3 * i for i, s in enumerate(sp)}
    for j, (eid, _, _) in enumerate(case["edges"]):
        code["__ext__" + eid] = 3 * j + 1
        code["__target__" + eid] = 3 * j + 2
    return code


def _impl_flow(case):
    pr = _flow_setup(case)
    net = pr.petri
    code = _place_code(case)
    eidx = {eid: j for j, (eid, _, _) in enumerate(case["edges"])}
    out = [S([code[p] for p in net.places]),
           sorted(net._place_index.values()) == list(range(len(net.places))) and set(net._place_index) == set(net.places),
           [[eidx[t], {code[p]: w for p, w in tr.pre.items()}, {code[p]: w for p, w in tr.post.items()}]
            for t, tr in net.transitions.items()],
           {code[p]: c for p, c in pr.initial_marking.items()},
           {code[p]: c for p, c in pr.target_marking.items()}]
    cnt = {"en": 0, "fi": 0}
    o_en, o_fi = net.enabled, net.fire

    def en(m, t):
        cnt["en"] += 1
        return o_en(m, t)

    def fi(m, t):
        cnt["fi"] += 1
        return o_fi(m, t)
    net.enabled, net.fire = en, fi
    ok, cert = pr.is_realizable(max_states=case.get("max_states"), max_depth=case.get("max_depth"))
    same = (pr.certificate == cert)
    out += [bool(ok), [] if cert is None else [[eidx[t] for t in cert]], same, cnt["en"], cnt["fi"]]
    return out


def _hist_object(case, flow=None):
    from synkit.CRN.Path.realizability import PathwayRealizability, RealizabilityConfig
    v = list(case["vertices"])
    e = {eid: ({s: c for s, c in tail}, {s: c for s, c in head}) for eid, tail, head in case["edges"]}
    f = {e_: f_ for e_, f_ in (case["flow"] if flow is None else flow)}
    cfg = case.get("config")             # non-default RealizabilityConfig: the bounds of every call made without bounds
    if cfg is None:
        pr = PathwayRealizability()
    elif cfg[0] % 2:
        pr = PathwayRealizability(RealizabilityConfig(max_states=cfg[0], max_depth=cfg[1]))
    else:
        pr = PathwayRealizability(config=RealizabilityConfig(cfg[0], cfg[1]))
    return pr.load_hypergraph_and_flow(v, e, f), v, e


def _hist_defaults(case):
    cfg = case.get("config")
    return (DEFAULT_MAX_STATES, DEFAULT_MAX_DEPTH) if cfg is None else (cfg[0], cfg[1])


def _hist_call(pr, v, e, op, eidx):
    """one call of a history -> encoded answer ([9] = RuntimeError 'not built', part of the contract)"""
    k = op[0]
    try:
        if k == "R":
            # keyword and positional call forms alternate (deterministically from the bounds): a parameter inserted in front of
            # max_states / max_depth would only show through positional callers
            if op[1] is not None and op[2] is not None and (op[1] + op[2]) % 2:
                ok, cert = pr.is_realizable(op[1], op[2])
            elif op[1] is not None and op[2] is None and op[1] % 2:
                ok, cert = pr.is_realizable(op[1])
            else:
                ok, cert = pr.is_realizable(max_states=op[1], max_depth=op[2])
            return [1, bool(ok), [] if cert is None else [[eidx[t] for t in cert]]], (ok, cert)
        if k == "S":
            ok, kk = pr.is_scaled_realizable(op[1]) if op[1] % 2 else pr.is_scaled_realizable(k_max=op[1])
            return [2, bool(ok), 0 if kk is None else int(kk)], (ok, kk)
        if k == "C":
            cert = pr.certificate
            return [3, [] if cert is None else [[eidx[t] for t in cert]]], cert
        if k == "B":
            pr.build_petri_net_from_flow()
            return [4], None
        if k == "X":
            # export_pnml(fn): REBUILDS the net from the current flow (clearing the certificate) and writes places / transitions /
            # markings as JSON; the file must show the object's own net.  In the model this call is OpBuild.
            import json as _json
            import tempfile
            with tempfile.TemporaryDirectory() as td:
                fn = os.path.join(td, "net.json")
                ret = pr.export_pnml(fn)
                with open(fn) as fh:
                    data = _json.load(fh)
            want = dict(places=sorted(pr._petri.places),
                        transitions={tid: {"pre": dict(t.pre), "post": dict(t.post)} for tid, t in pr._petri.transitions.items()},
                        initial=dict(pr._initial_marking), target=dict(pr._target_marking))
            if ret is not pr or data != _json.loads(_json.dumps(want)):
                return [5, "export_pnml wrote %r, the object holds %r" % (data, want)], None
            return [4], None
        if k == "L":
            pr.load_hypergraph_and_flow(v, e, {e_: f_ for e_, f_ in op[1]})
            return [4], None
        if k == "FB":                       # the caller edits pr.flow IN PLACE (same keys) and rebuilds
            for e_, f_ in op[1]:
                pr.flow[e_] = f_
            pr.build_petri_net_from_flow()
            return [4], None
        if k == "W":
            ok, b = pr.is_borrow_realizable(max_borrow_each=op[1])
            return [6, bool(ok), [] if b is None else [[int(b[s_]) for s_ in sorted(b)]]], (ok, b)
    except RuntimeError:
        return [9], "ERR"
    raise AssertionError(op)


def _impl_hist(case):
    pr, v, e = _hist_object(case)
    code = _place_code(case)
    eids = [eid for eid, _, _ in case["edges"]]
    eidx = {eid: j for j, eid in enumerate(eids)}
    out = []
    for op in case["ops"]:
        ans, _ = _hist_call(pr, v, e, op, eidx)
        if op[0] == "FB":
            # in the model an in-place flow edit followed by a rebuild is [OpLoad fl; OpBuild]; only the state after the rebuild is
            # observable, the entry for the intermediate model state is written down as the model defines it
            fl_ = {e_: f_ for e_, f_ in op[1]}
            out.append([[4], [[int(fl_.get(eid, 0)) for eid in eids], [], []]])
        if pr._petri is None:
            built = []
        else:
            built = [S([code[p] for p in pr._petri.places]), {code[p]: c for p, c in pr._initial_marking.items()},
                     {code[p]: c for p, c in pr._target_marking.items()}]
        cert = pr._certificate
        out.append([ans, [[int(pr.flow.get(eid, 0)) for eid in eids], built,
                          [] if cert is None else [[eidx[t] for t in cert]]]])
    return out


def _ana_species(net):
    """species of a network snapshot {"rxns": [[l, r], ...], "iso": [...]} in label order"""
    return sorted({s for l, r in net["rxns"] for s, c in l + r if c > 0} | set(net.get("iso", [])))


def _ana_apply(H, ids, net, stage):
    """applies one edit stage to the analysed hypergraph H and, in parallel, to the snapshot `net` the case predicts.
    stage = list of  ["add", l, r] | ["rep", i, l, r] (reaction i replaced under its OLD id) |
                     ["coef", i, "l"|"r", species, c] (coefficient edited in place) | ["rmsp", species] (remove_species with
                     prune_orphans=False: the species stays, without incidence)"""
    for op in stage:
        k = op[0]
        if k == "add":
            e = H.add_rxn({s: c for s, c in op[1]}, {s: c for s, c in op[2]})
            ids.append(e.id)
            net["rxns"].append([[list(x) for x in op[1]], [list(x) for x in op[2]]])
        elif k == "rep":
            eid = ids[op[1]]
            H.remove_rxn(eid)
            H.add_rxn({s: c for s, c in op[2]}, {s: c for s, c in op[3]}, edge_id=eid)
            net["rxns"][op[1]] = [[list(x) for x in op[2]], [list(x) for x in op[3]]]
        elif k == "coef":
            e = H.edges[ids[op[1]]]
            (e.reactants if op[2] == "l" else e.products)[op[3]] = op[4]
            for x in net["rxns"][op[1]][0 if op[2] == "l" else 1]:
                if x[0] == op[3]:
                    x[1] = op[4]
        elif k == "rmsp":
            H.remove_species(op[1], prune_orphans=False)
            for rx in net["rxns"]:
                rx[0] = [x for x in rx[0] if x[0] != op[1]]
                rx[1] = [x for x in rx[1] if x[0] != op[1]]
            if op[1] not in net["iso"]:
                net["iso"].append(op[1])
        else:
            raise AssertionError(op)
        occ = {s for l, r in net["rxns"] for s, c in l + r if c > 0}
        # remove_rxn drops species that lose their last incidence — except that a kept (isolated) species has none to lose
        net["iso"] = [z for z in net["iso"] if z not in occ]


def _ana_apply_graph(G, st, net, stage):
    """the same edit stages on a CALLER-SUPPLIED bipartite DiGraph, in place; st: dict(s=label->node, r=[reaction nodes], n=counter,
    integer=bool).  Orphaned species stay in the graph as isolated nodes (nothing prunes a caller's graph)."""
    def snode(sp):
        if sp not in st["s"]:
            st["n"] += 1
            nid = 1000 + 7 * st["n"] if st["integer"] else "S:late:%s" % sp
            G.add_node(nid, kind="species", label=sp, bipartite=0)
            st["s"][sp] = nid
        return st["s"][sp]

    def wire(rn, l, r):
        for sp, c in l:
            G.add_edge(snode(sp), rn, stoich=c, role="reactant")
        for sp, c in r:
            G.add_edge(rn, snode(sp), stoich=c, role="product")
    for op in stage:
        before = set(_ana_species(net))
        k = op[0]
        if k == "add":
            st["n"] += 1
            rn = 2000 + 7 * st["n"] if st["integer"] else "R:late_%d" % st["n"]
            G.add_node(rn, kind="reaction", label="r", bipartite=1)
            st["r"].append(rn)
            wire(rn, op[1], op[2])
            net["rxns"].append([[list(x) for x in op[1]], [list(x) for x in op[2]]])
        elif k == "rep":
            rn = st["r"][op[1]]
            for u, v in list(G.in_edges(rn)) + list(G.out_edges(rn)):
                G.remove_edge(u, v)
            wire(rn, op[2], op[3])
            net["rxns"][op[1]] = [[list(x) for x in op[2]], [list(x) for x in op[3]]]
        elif k == "coef":
            rn = st["r"][op[1]]
            u, v = (st["s"][op[3]], rn) if op[2] == "l" else (rn, st["s"][op[3]])
            G[u][v]["stoich"] = op[4]
            for x in net["rxns"][op[1]][0 if op[2] == "l" else 1]:
                if x[0] == op[3]:
                    x[1] = op[4]
        elif k == "rmsp":
            sn = st["s"][op[1]]
            for u, v in list(G.in_edges(sn)) + list(G.out_edges(sn)):
                G.remove_edge(u, v)
            for rx in net["rxns"]:
                rx[0] = [x for x in rx[0] if x[0] != op[1]]
                rx[1] = [x for x in rx[1] if x[0] != op[1]]
        else:
            raise AssertionError(op)
        occ = {s_ for l, r in net["rxns"] for s_, c in l + r if c > 0}
        net["iso"] = sorted((before | set(net["iso"])) - occ)


def _graph_network(G):
    """(sorted reactions, sorted species labels) read off a bipartite DiGraph"""
    rx = []
    for u, d in G.nodes(data=True):
        if d.get("kind") == "reaction":
            l = sorted((G.nodes[a]["label"], e["stoich"]) for a, _, e in G.in_edges(u, data=True))
            r = sorted((G.nodes[b]["label"], e["stoich"]) for _, b, e in G.out_edges(u, data=True))
            rx.append((l, r))
    return sorted(rx), sorted(d["label"] for _, d in G.nodes(data=True) if d.get("kind") == "species")


def _ana_apply_snapshot(net, stage, keep_orphans=False):
    """the predicted effect of an edit stage on the snapshot alone (used by the encoder; _ana_apply does the same next to the
    real hypergraph and the oracle compares the two)"""
    class _Edge:
        def __init__(self):
            self.id = None
            self.reactants = {}
            self.products = {}

    class _FakeH:
        def __init__(self):
            self.edges = collections.defaultdict(_Edge)

        def add_rxn(self, *a, **k):
            return _Edge()

        def remove_rxn(self, eid):
            pass

        def remove_species(self, sp, prune_orphans=True):
            pass
    import collections
    if keep_orphans:
        import networkx as nx

        class _AnyDict(dict):
            def __missing__(self, key):
                return key
        G = nx.DiGraph()
        for l, r in net["rxns"]:
            pass
        # replay on a throw-away graph built from the snapshot (only the snapshot matters)
        st = dict(s={}, r=[], n=0, integer=False)
        for sp in _ana_species(net):
            G.add_node("S:" + sp, kind="species", label=sp, bipartite=0)
            st["s"][sp] = "S:" + sp
        for i, (l, r) in enumerate(net["rxns"]):
            rn = "R:%d" % i
            G.add_node(rn, kind="reaction", label="r", bipartite=1)
            st["r"].append(rn)
            for sp, c in l:
                if c > 0:
                    G.add_edge(st["s"][sp], rn, stoich=c, role="reactant")
            for sp, c in r:
                if c > 0:
                    G.add_edge(rn, st["s"][sp], stoich=c, role="product")
        _ana_apply_graph(G, st, net, stage)
        return
    _ana_apply(_FakeH(), [None] * (len(net["rxns"]) + len(stage)), net, stage)


def _ana_replay(case):
    """runs the analyzer history; yields per call (op, answer kind, analyzer, current network snapshot, snapshot at the
    last successful compute, the analysed object).  gmode "bip": the analyzer is given a bipartite DiGraph (species nodes
    inserted in shuffled order, integer or string ids) which the caller then edits in place."""
    import copy
    import random
    from synkit.CRN.Hypergraph.hypergraph import CRNHyperGraph
    from synkit.CRN.Petri.analyzer import PetriAnalyzer
    H = CRNHyperGraph()
    ids = []
    net = dict(rxns=[], iso=[])
    _ana_apply(H, ids, net, [["add", l, r] for l, r in case["stages"][0]])
    graph = case.get("gmode") == "bip"
    if graph:
        import networkx as nx
        from synkit.CRN.Hypergraph.conversion import hypergraph_to_bipartite
        integer = bool(case.get("gseed", 0) % 2)
        G0 = hypergraph_to_bipartite(H, integer_ids=integer)
        sp = [u for u, d in G0.nodes(data=True) if d.get("kind") == "species"]
        rn = [u for u, d in G0.nodes(data=True) if d.get("kind") == "reaction"]
        random.Random(case.get("gseed", 0)).shuffle(sp)
        obj = nx.DiGraph()
        for u in sp[:len(sp) // 2] + rn + sp[len(sp) // 2:]:
            obj.add_node(u, **G0.nodes[u])
        for u, v, d in G0.edges(data=True):
            obj.add_edge(u, v, **d)
        # reaction nodes in the order of the stage-0 reactions (edge ids r_1, r_2, ... sort like the insertion order below 10)
        byid = dict(zip(sorted(H.edges), rn))
        gst = dict(s={d["label"]: u for u, d in obj.nodes(data=True) if d.get("kind") == "species"}, r=[byid[i] for i in ids],
                   n=0, integer=integer)
    else:
        obj = H
    an = PetriAnalyzer(obj, max_siphon_size=case.get("k"))
    nxt = 1
    computed = None
    for op in case["ops"]:
        if op == "C":
            try:
                if case.get("use_all") and net["rxns"]:
                    an.compute_all()              # the convenience route (semiflows, siphons / traps, persistence)
                else:
                    an.compute_siphons_traps()
                computed = copy.deepcopy(net)
                yield op, "done", an, copy.deepcopy(net), computed, obj
            except ValueError:
                yield op, "err", an, copy.deepcopy(net), computed, obj
        elif op == "P":
            try:
                an.check_persistence()
                yield op, "done", an, copy.deepcopy(net), computed, obj
            except ValueError:
                yield op, "err", an, copy.deepcopy(net), computed, obj
        elif op == "R":
            yield op, "read", an, copy.deepcopy(net), computed, obj
        elif op == "E":
            st = case["stages"][nxt]
            st = st if (st and isinstance(st[0][0], str)) else [["add", l, r] for l, r in st]
            if graph:
                _ana_apply_graph(obj, gst, net, st)
            else:
                _ana_apply(H, ids, net, st)
            nxt += 1
            yield op, "done", an, copy.deepcopy(net), computed, obj


def _impl_ana(case):
    out = []
    for op, kind, an, net, computed, H in _ana_replay(case):
        if kind == "done":
            out.append([4])
        elif kind == "err":
            out.append([9])
        else:
            rank = {s: i for i, s in enumerate(_ana_species(computed or dict(rxns=[], iso=[])))}

            def conv(sets):
                return [] if sets is None else [[S(sorted(rank.get(x, 999) for x in st)) for st in sets]]
            out.append([1, conv(an.siphons), conv(an.traps), [] if an.persistence_ok is None else [bool(an.persistence_ok)]])
    return out


def _ana_supports(obj, net):
    """oracle input of a check_persistence / compute_all step: supports (ranks among the species of the network as it is now) of the
    columns of the float P-semiflow basis the implementation computes for the analysed object at this moment"""
    import warnings
    warnings.filterwarnings("ignore")
    from synkit.CRN.Petri.semiflows import find_p_semiflows
    from synkit.CRN.Props.utils import _species_order
    from synkit.CRN.Hypergraph.conversion import _as_bipartite
    try:
        G = _as_bipartite(obj)
        _, labels, _ = _species_order(G)
        Y = find_p_semiflows(G)
    except ValueError:
        return []
    rank = {s_: i for i, s_ in enumerate(_ana_species(net))}
    if Y.size == 0:
        return []
    return [[rank.get(labels[i], 999) for i in range(Y.shape[0]) if abs(float(Y[i, k])) > 1e-8] for k in range(Y.shape[1])]


def impl(case):
    t = case["t"]
    if t == "ana":
        return _impl_ana(case)
    if t == "hist":
        return _impl_hist(case)
    if t == "net":
        return _impl_net(case)
    if t == "petri":
        return _impl_petri(case)
    if t == "flow":
        return _impl_flow(case)
    raise AssertionError(t)


# ------------------------------------------------------------------ model encoder

def _cside(side, rank):
    return clist([cpair(cnat(rank[s]), cZ(c)) for s, c in side])


def _cdict(d):
    return clist([cpair(cN(p), cZ(c)) for p, c in d])


def coq_case(case):
    t = case["t"]
    if t == "net":
        ref = _all_species(case)
        rank = {s: i for i, s in enumerate(ref)}
        n = len(ref)
        if case.get("mode") == "und" and _has_catalyst(case):
            return None
        if case.get("mode") in ("bip", "und"):
            # caller-supplied DiGraph / undirected Graph (edges in the orientation the graph stores them): the graph AS IT IS (attributes present or absent, junk included) goes to the attribute layer of
            # the model (model/C20_RawModel.v); labels and str(node) are interned to their rank among the species names
            G = _crn_input(case, _build_H(case))
            nid = {u: i + 1 for i, u in enumerate(G.nodes)}

            def tri(v, yes, no):
                return "(Some true)" if v == yes else "(Some false)" if v == no else "None"
            nodes = ["(RNode %s %s %s %s %s)" % (
                cnat(nid[u]), tri(a.get("kind"), "species", "reaction"), tri(a["bipartite"], 0, 1) if "bipartite" in a else "None",
                "(Some %s)" % cnat(rank.get(str(a["label"]), 999)) if "label" in a else "None", cnat(rank.get(str(u), 999)))
                for u, a in G.nodes(data=True)]
            arcs = ["(RArc %s %s %s %s)" % (
                cnat(nid[u]), cnat(nid[v]),
                "(Some Reactant)" if a.get("role") == "reactant" else "(Some Product)" if a.get("role") == "product" else "None",
                # (coefficients may be fractional multiples of 1/4: handed over times 4, exactly — only their sign is read)
                "(Some %s)" % cZ(_times4(a["stoich"])) if "stoich" in a else "None") for u, v, a in G.edges(data=True)]
            return "%s (RG %s %s) %s %s %s" % (
                "run_net_raw" if case["mode"] == "bip" else "run_net_raw_und", clist(nodes), clist(arcs), cnat(case.get("k", n)),
                clist([clist([cnat(i) for i in c]) for c in case.get("cands", [])]),
                clist([clist([cnat(i) for i in sup]) for sup in _persist_supports(case)]))
        rx = clist([cpair(_cside(l, rank), _cside(r, rank)) for l, r in case["rxns"]])
        return "run_net_p %s %s %s %s %s %s %s" % (cnat(n), rx, cbool(case.get("mode") == "und"), cnat(case.get("k", n)),
                                                  clist([clist([cnat(i) for i in c]) for c in case.get("cands", [])]),
                                                  clist([cnat(i) for i in _species_insertion_order(case, n)]),
                                                  clist([clist([cnat(i) for i in sup]) for sup in _persist_supports(case)]))
    if t == "petri" and case.get("rounds"):
        terms = []
        cum = []
        for trans, queries in case["rounds"]:
            cum = cum + [list(x) for x in trans]
            sub = coq_case(dict(t="petri", places=case["places"], trans=cum, queries=queries))
            if sub is None:
                return None
            terms.append(sub)
        return "L [%s]" % "; ".join(terms)
    if t == "petri":
        known = set(case["places"])
        for tid, pre, post in case["trans"]:
            new = {p for p, _ in pre} | {p for p, _ in post}
            if len(new - known) > 1:
                return None          # set-iteration order of the new places is not modelled
            known |= new
        tr = clist([cpair(cN(tid), _cdict(pre), _cdict(post)) for tid, pre, post in case["trans"]])
        qs = clist([cpair(_cdict(m), cN(tid)) for m, tid in case["queries"]])
        return "run_petri %s %s %s" % (clist([cN(p) for p in case["places"]]), tr, qs)
    if t == "flow":
        sp = sorted(set(case["species"]))
        rank = {s: i for i, s in enumerate(sp)}
        fl = {e: f for e, f in case["flow"]}
        verts = case["vertices"] if case.get("via", "direct") == "direct" else sorted(
            {s for _, a, b in case["edges"] for s, c in a + b})
        if len(set(verts)) != len(verts):
            verts = sorted(set(verts))
        ed = clist([cpair(clist([cpair(cN(rank[s]), cZ(c)) for s, c in tail]),
                          clist([cpair(cN(rank[s]), cZ(c)) for s, c in head])) for _, tail, head in case["edges"]])
        ms = case.get("max_states")
        md = case.get("max_depth")
        # the flow MAP as the caller hands it over (edge = its position in the edge list; entries for unknown edge ids get numbers
        # beyond the list): the two default rules (converter: missing -> 1, direct load: missing -> 0) are applied by the model
        eix = {eid: j for j, (eid, _, _) in enumerate(case["edges"])}
        unknown = {}

        def cmap(items):
            return clist([cpair(cN(eix[e_] if e_ in eix else 1000 + unknown.setdefault(e_, len(unknown))), cZ(f_)) for e_, f_ in items])
        if case.get("via", "direct") == "hg":
            omit = set(case.get("omit", []))
            given = "None" if case.get("flow_none") else "(Some %s)" % cmap([(e_, f_) for e_, f_ in case["flow"] if e_ not in omit])
            return "run_flow_hg %s %s %s %s %s" % (clist([cN(rank[s]) for s in verts]), ed, given,
                                                  cN(DEFAULT_MAX_STATES if ms is None else ms), cN(DEFAULT_MAX_DEPTH if md is None else md))
        return "run_flow_direct %s %s %s %s %s" % (clist([cN(rank[s]) for s in verts]), ed, cmap(case["flow"]),
                                                  cN(DEFAULT_MAX_STATES if ms is None else ms), cN(DEFAULT_MAX_DEPTH if md is None else md))
    if t == "ana":
        import copy

        class _NoH:                       # the encoder replays the edits on the predicted snapshot only
            def __getattr__(self, name):
                raise AssertionError(name)

        def cnetw(net):
            sp = _ana_species(net)
            rank = {s: i for i, s in enumerate(sp)}
            return cpair(cnat(len(sp)), clist([cpair(_cside([x for x in l if x[1] > 0], rank), _cside([x for x in r if x[1] > 0], rank))
                                               for l, r in net["rxns"]]))
        net = dict(rxns=[[[list(x) for x in l], [list(x) for x in r]] for l, r in case["stages"][0]], iso=[])
        net0 = cnetw(net)
        nxt = 1
        ops = []
        # the supports of the semiflow basis are read off the REAL object at the moment of each check (the basis of a kernel of
        # dimension > 1 depends on the object's own node / column order): the history is replayed here once more
        live = _ana_replay(case)

        def csup(sup):
            return clist([clist([cnat(i) for i in t_]) for t_ in sup])
        for op in case["ops"]:
            _, _, _, snap, _, obj = next(live)
            if op == "C" and case.get("use_all") and snap["rxns"]:
                ops.append("PAll %s" % csup(_ana_supports(obj, snap)))
            elif op == "C":
                ops.append("PBase AnCompute")
            elif op == "P":
                ops.append("PCheck %s" % csup(_ana_supports(obj, snap)))
            elif op == "R":
                ops.append("PBase AnRead")
            else:
                st = case["stages"][nxt]
                _ana_apply_snapshot(net, st if (st and isinstance(st[0][0], str)) else [["add", l, r] for l, r in st],
                                    keep_orphans=case.get("gmode") == "bip")
                nxt += 1
                ops.append("PBase (AnEdit %s)" % cnetw(net))
        k = case.get("k")
        return "run_anap %s %s %s" % ("None" if k is None else "(Some %s)" % cnat(k), net0, clist(ops))
    if t == "hist":
        sp = sorted(set(case["species"]))
        rank = {s: i for i, s in enumerate(sp)}
        eids = [eid for eid, _, _ in case["edges"]]
        ed = clist([cpair(clist([cpair(cN(rank[s]), cZ(c)) for s, c in tail]),
                          clist([cpair(cN(rank[s]), cZ(c)) for s, c in head])) for _, tail, head in case["edges"]])

        def cflow(fl):
            d = {e: f for e, f in fl}
            return clist([cZ(d.get(eid, 0)) for eid in eids])
        ops = []
        for op in case["ops"]:
            k = op[0]
            if k == "R":
                dms, dmd = _hist_defaults(case)
                ops.append("OpReal %s %s" % (cN(dms if op[1] is None else op[1]), cN(dmd if op[2] is None else op[2])))
            elif k == "S":
                ops.append("OpScaled %s" % cnat(op[1]))
            elif k == "C":
                ops.append("OpCert")
            elif k in ("B", "X"):
                ops.append("OpBuild")
            elif k == "L":
                ops.append("OpLoad %s" % cflow(op[1]))
            elif k == "FB":
                ops.append("OpLoad %s" % cflow(op[1]))
                ops.append("OpBuild")
            elif k == "W":
                ops.append("OpBorrow %s" % cnat(op[1]))
        return "run_hist (Cfg %s %s) %s %s %s %s" % (cN(_hist_defaults(case)[0]), cN(_hist_defaults(case)[1]),
                                                     clist([cN(rank[s]) for s in case["vertices"]]), ed, cflow(case["flow"]), clist(ops))
    raise AssertionError(t)


# ------------------------------------------------------------------ property oracle (independent reference)

def _oracle_net(case):
    """Siphon / trap definitions by brute force on the reaction list, against find_siphons / find_traps and
    the index predicates (public entry points; the species order is the lexicographic label order)."""
    import synkit.CRN.Petri.structure as ST
    from synkit.CRN.Props.utils import _split_species_reactions, _species_order
    from synkit.CRN.Hypergraph.conversion import _as_bipartite
    if case.get("mode") == "und" and _has_catalyst(case):
        return []                    # an undirected graph cannot carry both roles of a catalyst: no defined network
    H = _build_H(case)
    sp = sorted(H.species)
    if not sp or not H.edges:
        return []
    rx = [({s for s, c in e.reactants.to_dict().items() if c > 0}, {s for s, c in e.products.to_dict().items() if c > 0})
          for e in H.edge_list()]

    def is_siphon(X):
        return bool(X) and all((not (p & X)) or bool(r & X) for r, p in rx)

    def is_trap(X):
        return bool(X) and all((not (r & X)) or bool(p & X) for r, p in rx)

    def minimal(pred, k):
        sets = [frozenset(c) for q in range(1, k + 1) for c in itertools.combinations(sp, q) if pred(set(c))]
        return {x for x in sets if not any(y < x for y in sets)}
    fails = []
    crn = _crn_input(case, H)
    name = "; ".join("%s>>%s" % ("+".join("%d%s" % (c, s) for s, c in l), "+".join("%d%s" % (c, s) for s, c in r))
                     for l, r in case["rxns"])
    key_base = "net[%s|iso=%s|%s]" % (name, ",".join(case.get("iso", [])), case.get("mode", "hg"))
    for fname, fn, pred in (("siphons", ST.find_siphons, is_siphon), ("traps", ST.find_traps, is_trap)):
        for k in (None, case.get("k")):
            if k is None:
                got = fn(crn)
                want = minimal(pred, len(sp))
            else:
                got = fn(crn, max_size=k)
                want = minimal(pred, min(k, len(sp)))
            gs = {frozenset(x) for x in got}
            if gs != want or len(gs) != len(got):
                fails.append(dict(clause="minimal-" + fname, key=key_base + ":minimal-" + fname,
                                  detail="%s: find_%s(max_size=%r) = %r, definition gives %r" % (
                                      name, fname, k, sorted(map(sorted, got)), sorted(map(sorted, want)))))
                break
    G = _as_bipartite(crn)
    sns, labels, _ = _species_order(G)
    _, rnodes = _split_species_reactions(G)
    if labels == sp and len(sp) <= 6:
        for c in _combos(len(sp)):
            X = {sp[i] for i in c}
            a, b = ST._is_siphon_indices(G, sns, rnodes, set(c)), ST._is_trap_indices(G, sns, rnodes, set(c))
            if a != is_siphon(X):
                fails.append(dict(clause="siphon-predicate", key=key_base + ":siphon-predicate",
                                  detail="%s: _is_siphon_indices(%r) = %r, definition %r" % (name, sorted(X), a, is_siphon(X))))
                break
            if b != is_trap(X):
                fails.append(dict(clause="trap-predicate", key=key_base + ":trap-predicate",
                                  detail="%s: _is_trap_indices(%r) = %r, definition %r" % (name, sorted(X), b, is_trap(X))))
                break
    elif labels != sp and case.get("mode", "hg") == "hg":
        fails.append(dict(clause="species-order", detail="species labels %r, expected %r" % (labels, sp)))
    # PetriAnalyzer reused on one network object that is edited between two compute calls (oracle only)
    if case.get("mode", "hg") == "hg" and len(case["rxns"]) >= 2 and not case.get("iso") and case.get("kind") != "net-exh2":
        fails += _oracle_analyzer_history(case, is_siphon, is_trap, key_base)
    # _minimal_sets on the explicit candidate list
    cands = [frozenset(c) for c in case.get("cands", [])]
    if cands:
        got = ST._minimal_sets([set(c) for c in cands])
        want = {x for x in cands if not any(y < x for y in cands)}
        if {frozenset(x) for x in got} != want or len(got) != len(want):
            fails.append(dict(clause="minimal-sets", detail="_minimal_sets(%r) = %r" % (case["cands"], got)))
    return fails


def _oracle_analyzer_history(case, is_siphon_full, is_trap_full, key_base):
    """PetriAnalyzer on a CRNHyperGraph: compute, then add the remaining reactions to the SAME hypergraph, compute
    again: the second report must be the siphons / traps of the edited network (no stale first report)."""
    from synkit.CRN.Petri.analyzer import PetriAnalyzer
    from synkit.CRN.Hypergraph.hypergraph import CRNHyperGraph
    cut = max(1, len(case["rxns"]) // 2)
    H = CRNHyperGraph()
    for l, r in case["rxns"][:cut]:
        H.add_rxn({s: c for s, c in l}, {s: c for s, c in r})
    if not H.species:
        return []
    an = PetriAnalyzer(H)
    try:
        an.compute_siphons_traps()
    except ValueError:
        return []
    first = ({frozenset(x) for x in an.siphons}, {frozenset(x) for x in an.traps})
    for l, r in case["rxns"][cut:]:
        H.add_rxn({s: c for s, c in l}, {s: c for s, c in r})
    an.compute_siphons_traps()
    sp = sorted(H.species)
    out = []
    for nm, got, pred in (("siphons", an.siphons, is_siphon_full), ("traps", an.traps, is_trap_full)):
        sets = [frozenset(c) for q in range(1, len(sp) + 1) for c in itertools.combinations(sp, q) if pred(set(c))]
        want = {x for x in sets if not any(y < x for y in sets)}
        if {frozenset(x) for x in got} != want:
            out.append(dict(clause="analyzer-history-" + nm, key=key_base + ":analyzer-history-" + nm,
                            detail="PetriAnalyzer.compute_siphons_traps() after adding reactions %r to the analysed network "
                                   "reports %s %r, definition gives %r (first report %r)" % (
                                       case["rxns"][cut:], nm, sorted(map(sorted, got)), sorted(map(sorted, want)),
                                       sorted(map(sorted, first[0 if nm == "siphons" else 1])))))
    return out


def _oracle_petri(case):
    if case.get("rounds"):
        from synkit.CRN.Petri.net import PetriNet
        net = PetriNet()
        for p in case["places"]:
            net.add_place("p%d" % p)
        fails, cum = [], []
        for k, (trans, queries) in enumerate(case["rounds"]):
            for tid, pre, post in trans:
                net.add_transition("t%d" % tid, {"p%d" % p: w for p, w in pre}, {"p%d" % p: w for p, w in post})
            cum = cum + [list(x) for x in trans]
            for f in _oracle_petri_queries(net, cum, queries):
                fails.append(dict(f, detail="round %d on the same net object: %s" % (k, f["detail"])))
        return fails
    return _oracle_petri_queries(_mk_net(case), case["trans"], case["queries"])


def _oracle_petri_queries(net, trans, queries):
    tr = {tid: (pre, post) for tid, pre, post in trans}    # later definitions overwrite
    fails = []
    for marking, tid in queries:
        m = {p: c for p, c in marking}
        pre, post = tr[tid]
        want_en = all(m.get(p, 0) >= w for p, w in pre)
        want = dict(m)
        for p, w in pre:
            want[p] = want.get(p, 0) - w
        for p, w in post:
            want[p] = want.get(p, 0) + w
        ms = {"p%d" % p: c for p, c in m.items()}
        en = net.enabled(ms, "t%d" % tid)
        got = net.fire(ms, "t%d" % tid)
        gotn = {_pn(p): c for p, c in got.items()}
        if bool(en) != want_en:
            fails.append(dict(clause="enabled", detail="marking %r pre %r: enabled=%r" % (m, pre, en)))
        allp = set(want) | set(gotn)
        if any(want.get(p, 0) != gotn.get(p, 0) for p in allp):
            fails.append(dict(clause="fire", detail="marking %r t=%r: fire=%r expected %r" % (m, (pre, post), gotn, want)))
        order = sorted(net._place_index, key=lambda p: net._place_index[p])
        if list(net.marking_to_tuple(got)) != [got.get(p, 0) for p in order]:
            fails.append(dict(clause="tuple", detail="marking_to_tuple disagrees with the place index"))
    return fails


def _flow_net(case):
    """reference view of a flow case: edges as (pre, post) dicts with positive weights, flow list."""
    fl = {e: f for e, f in case["flow"]}
    ed = []
    for eid, tail, head in case["edges"]:
        ed.append(({s: c for s, c in tail if c > 0}, {s: c for s, c in head if c > 0}, fl.get(eid, 0)))
    return ed


def reach(case, limit=200000):
    """Exhaustive reachability of the pathway: states = (remaining firings per edge, species marking).
    Returns (realizable, number of reachable states incl. the start, limit hit)."""
    ed = _flow_net(case)
    sp = sorted({s for pre, post, _ in ed for s in list(pre) + list(post)})
    ix = {s: i for i, s in enumerate(sp)}
    start = (tuple(f for _, _, f in ed), tuple(0 for _ in sp))
    goal = (tuple(0 for _ in ed), tuple(0 for _ in sp))
    seen = {start}
    todo = [start]
    found = start == goal
    while todo:
        rem, mk = todo.pop()
        for j, (pre, post, _) in enumerate(ed):
            if rem[j] <= 0:
                continue
            if any(mk[ix[s]] < c for s, c in pre.items()):
                continue
            m = list(mk)
            for s, c in pre.items():
                m[ix[s]] -= c
            for s, c in post.items():
                m[ix[s]] += c
            st = (rem[:j] + (rem[j] - 1,) + rem[j + 1:], tuple(m))
            if st not in seen:
                seen.add(st)
                todo.append(st)
                if st == goal:
                    found = True
                if len(seen) > limit:
                    return found, len(seen), True
    if any(f < 0 for _, _, f in ed):
        found = False
    return found, len(seen), False


def _facade_check(case):
    """run_realizability_from_rxn_strings (parse reaction strings -> hypergraph -> inputs -> build -> König + BFS) must report what
    the direct API reports for the same pathway."""
    import io
    import contextlib
    import re
    from synkit.CRN.Path.realizability import run_realizability_from_rxn_strings
    if not all(re.fullmatch(r"[A-Za-z][A-Za-z0-9]*", s_) for s_ in case["species"]):
        return []
    if any(c <= 0 for _, a, b in case["edges"] for _, c in a + b) or any(not a and not b for _, a, b in case["edges"]):
        return []

    def side(x):
        return " + ".join(("%d %s" % (c, s_)) if c != 1 else s_ for s_, c in x)
    lines = ["%s>>%s" % (side(a), side(b)) for _, a, b in case["edges"]]
    fl = {e_: f_ for e_, f_ in case["flow"]}
    flow = {"r_%d" % (k + 1): fl.get(eid, 0) for k, (eid, _, _) in enumerate(case["edges"])}
    with contextlib.redirect_stdout(io.StringIO()):
        pr1, info1 = run_realizability_from_rxn_strings(lines, flow)                    # positional flow, verbose default
        pr2, info2 = run_realizability_from_rxn_strings(lines, flow=flow, verbose=False)
    direct = _flow_setup(dict(case, via="direct", vertices=sorted(set(case["species"]))))
    ok, cert = direct.is_realizable()
    idx = {eid: "r_%d" % (k + 1) for k, (eid, _, _) in enumerate(case["edges"])}
    want = (bool(ok), None if cert is None else [idx[t] for t in cert])
    out = []
    for nm, info, pr_ in (("positional", info1, pr1), ("keyword", info2, pr2)):
        got = (bool(info["bfs"]), info["certificate"])
        if got != want or pr_.certificate != info["certificate"]:
            out.append(dict(clause="facade-rxn-strings", detail="run_realizability_from_rxn_strings(%r, %r) [%s] reports %r, the direct API %r"
                            % (lines, flow, nm, got, want)))
    return out[:1]


def _oracle_flow(case):
    if case.get("via") == "hg" and case.get("max_states") is None and case.get("max_depth") is None:
        fc = _facade_check(case)
        if fc:
            return fc
    pr = _flow_setup(case)
    ms, md = case.get("max_states"), case.get("max_depth")
    ok, cert = pr.is_realizable(max_states=ms, max_depth=md)
    ms = DEFAULT_MAX_STATES if ms is None else ms
    md = DEFAULT_MAX_DEPTH if md is None else md
    ed = {eid: (pre, post, f) for (eid, _, _), (pre, post, f) in zip(case["edges"], _flow_net(case))}
    fails = []
    if ok:
        if cert is None:
            return [dict(clause="certificate", detail="verdict True without a firing sequence")]
        m = {}
        cnt = {}
        for t in cert:
            if t not in ed:
                return [dict(clause="certificate", detail="unknown reaction %r in the sequence" % (t,))]
            pre, post, _ = ed[t]
            cnt[t] = cnt.get(t, 0) + 1
            for s, c in pre.items():
                m[s] = m.get(s, 0) - c
                if m[s] < 0:
                    fails.append(dict(clause="certificate-nonnegative", detail="sequence %r drives %s negative" % (cert, s)))
            for s, c in post.items():
                m[s] = m.get(s, 0) + c
        for eid, (_, _, f) in ed.items():
            if cnt.get(eid, 0) != f:
                fails.append(dict(clause="certificate-counts", detail="sequence %r fires %s %d times, flow %d" % (cert, eid, cnt.get(eid, 0), f)))
        if any(v != 0 for v in m.values()):
            fails.append(dict(clause="certificate-zero", detail="sequence %r ends at %r" % (cert, m)))
        return fails[:2]
    truth, nreach, hit = reach(case)
    total = sum(f for _, _, f in ed.values())
    if truth and not hit and nreach <= ms and total <= md:
        fails.append(dict(clause="complete", detail="an ordering exists, %d reachable markings <= max_states=%d, length %d <= max_depth=%d, "
                          "but is_realizable returned False" % (nreach, ms, total, md)))
    return fails


def _check_cert(case, flow, cert):
    """definition check of a firing sequence against (edges, flow): [] or a list of failure dicts"""
    ed = {eid: (pre, post, f) for (eid, _, _), (pre, post, f) in zip(case["edges"], _flow_net(dict(case, flow=flow)))}
    fails = []
    m, cnt = {}, {}
    for t in cert:
        if t not in ed:
            return [dict(clause="certificate", detail="unknown reaction %r in the sequence" % (t,))]
        pre, post, _ = ed[t]
        cnt[t] = cnt.get(t, 0) + 1
        for s, c in pre.items():
            m[s] = m.get(s, 0) - c
            if m[s] < 0:
                fails.append(dict(clause="certificate-nonnegative", detail="sequence %r drives %s negative" % (cert, s)))
        for s, c in post.items():
            m[s] = m.get(s, 0) + c
    for eid, (_, _, f) in ed.items():
        if cnt.get(eid, 0) != f:
            fails.append(dict(clause="certificate-counts",
                              detail="sequence %r fires %s %d times, flow %d" % (cert, eid, cnt.get(eid, 0), f)))
    if any(v != 0 for v in m.values()):
        fails.append(dict(clause="certificate-zero", detail="sequence %r ends at %r" % (cert, m)))
    return fails[:2]


def _oracle_hist(case):
    """A call history on ONE object.  Every answer is judged against the flow that is loaded at that moment
    (the ORIGINAL flow until a reload): a certificate returned anywhere in the history must be a valid ordering
    of exactly that flow; a negative verdict must not contradict exhaustive reachability within the bounds; and
    every answer must equal the answer of a FRESH object (loaded with that flow, built) to the same call."""
    pr, v, e = _hist_object(case)
    eids = [eid for eid, _, _ in case["edges"]]
    eidx = {eid: j for j, eid in enumerate(eids)}
    cur = [list(x) for x in case["flow"]]
    built = False
    borrowed = False
    fails = []
    memo = {}

    def truth(flow):
        key = tuple(map(tuple, flow))
        if key not in memo:
            memo[key] = reach(dict(case, flow=flow), limit=60000)
        return memo[key]

    def where(i):
        return "call %d %r of history %r" % (i, case["ops"][i], case["ops"])
    for i, op in enumerate(case["ops"]):
        k = op[0]
        ans, raw = _hist_call(pr, v, e, op, eidx)
        want_flow = {e_: f_ for e_, f_ in (op[1] if k in ("L", "FB") else cur)}
        if [pr.flow.get(eid, 0) for eid in eids] != [want_flow.get(eid, 0) for eid in eids]:
            fails.append(dict(clause="history-flow", detail="%s: the object's flow is %r, loaded %r" % (where(i), dict(pr.flow), want_flow)))
        if k in ("R", "S", "W"):
            fresh, fv, fe = _hist_object(case, cur)
            if built:
                fresh.build_petri_net_from_flow()
            fans, _ = _hist_call(fresh, fv, fe, op, eidx)
            if fans != ans:
                fails.append(dict(clause="history-independence",
                                  detail="%s answered %r, a fresh object with flow %r answers %r" % (where(i), ans, cur, fans)))
        if k == "R" and raw != "ERR":
            ok, cert = raw
            ms = _hist_defaults(case)[0] if op[1] is None else op[1]
            md = _hist_defaults(case)[1] if op[2] is None else op[2]
            if ok:
                if cert is None:
                    fails.append(dict(clause="certificate", detail="%s: verdict True without a firing sequence" % where(i)))
                else:
                    for f in _check_cert(case, cur, cert):
                        fails.append(dict(f, detail=where(i) + ": " + f["detail"] + " (flow %r)" % (cur,)))
            else:
                tr, nreach, hit = truth(cur)
                total = sum(f for _, f in cur)
                if tr and not hit and nreach <= ms and total <= md:
                    fails.append(dict(clause="complete", detail="%s: an ordering of %r exists within the bounds, verdict False" % (where(i), cur)))
            borrowed = False
        elif k == "S" and raw != "ERR":
            ok, kk = raw
            if ok:
                tr, _, hit = truth([[e_, kk * f_] for e_, f_ in cur])
                if not hit and not tr:
                    fails.append(dict(clause="scaled-sound", detail="%s: %d x %r has no ordering" % (where(i), kk, cur)))
            else:
                for q in range(1, op[1] + 1):
                    tr, nreach, hit = truth([[e_, q * f_] for e_, f_ in cur])
                    if tr and not hit and nreach <= _hist_defaults(case)[0] and q * sum(f for _, f in cur) <= _hist_defaults(case)[1]:
                        fails.append(dict(clause="scaled-complete", detail="%s: %d x %r has an ordering, answer False" % (where(i), q, cur)))
                        break
            built, borrowed = True, False
        elif k == "C":
            if raw is not None and not borrowed:
                for f in _check_cert(case, cur, raw):
                    fails.append(dict(f, detail=where(i) + ": stored certificate: " + f["detail"] + " (flow %r)" % (cur,)))
        elif k in ("B", "X"):
            built, borrowed = True, False
        elif k == "L":
            cur = [list(x) for x in op[1]]
            built, borrowed = False, False
        elif k == "FB":
            cur = [list(x) for x in op[1]]
            built, borrowed = True, False
        elif k == "W":
            built, borrowed = True, True
        if len(fails) >= 3:
            break
    return fails[:3]


def _oracle_ana(case):
    """After every successful compute the stored siphons / traps are, by definition, the inclusion-minimal ones (within
    max_siphon_size) of the network AS IT IS AT THAT MOMENT — whatever was analysed before and however the network object was
    edited in place since; a read returns the results of the last successful compute.  The network 'as it is' is read off the
    hypergraph's own primary data (species set, reactions) and must be the one the case predicted."""
    fails = []
    k = case.get("k")

    def want(net):
        sp = _ana_species(net)
        rx = [({s for s, c in l if c > 0}, {s for s, c in r if c > 0}) for l, r in net["rxns"]]

        def is_siphon(X):
            return bool(X) and all((not (p & X)) or bool(r & X) for r, p in rx)

        def is_trap(X):
            return bool(X) and all((not (r & X)) or bool(p & X) for r, p in rx)
        res = []
        for pred in (is_siphon, is_trap):
            sets = [frozenset(c) for q in range(1, len(sp) + 1) for c in itertools.combinations(sp, q) if pred(set(c))]
            mins = {x for x in sets if not any(y < x for y in sets)}
            res.append({x for x in mins if k is None or len(x) <= k})
        return res
    fresh_persist = None          # verdict of a FRESH evaluation on a copy of the object, taken at the last successful check
    for i, (op, kind, an, net, computed, H) in enumerate(_ana_replay(case)):
        if kind == "done" and (op == "P" or (op == "C" and case.get("use_all") and net["rxns"])):
            import copy as _copy
            from synkit.CRN.Petri.persistence import siphon_persistence_condition as _spc
            fresh_persist = [bool(_spc(_copy.deepcopy(H), max_siphon_size=k))]
        if op == "R" and (([] if an.persistence_ok is None else [bool(an.persistence_ok)]) != (fresh_persist or [])):
            fails.append(dict(clause="analyzer-history-persistence",
                              detail="call %d of %r, edit stages %r: persistence_ok reads %r; a fresh evaluation on the network as it was at the last "
                                     "check_persistence / compute_all gave %r" % (i, case["ops"], case["stages"][1:], an.persistence_ok, fresh_persist)))
        if case.get("gmode") == "bip":
            have, have_sp = _graph_network(H)
            have = [(list(a), list(b)) for a, b in have]
        else:
            have = sorted((sorted(e.reactants.to_dict().items()), sorted(e.products.to_dict().items())) for e in H.edges.values())
            have_sp = sorted(H.species)
        pred = sorted((sorted((s, c) for s, c in l if c > 0), sorted((s, c) for s, c in r if c > 0)) for l, r in net["rxns"])
        if [(list(map(tuple, a)), list(map(tuple, b))) for a, b in have] != [(list(a), list(b)) for a, b in pred] or have_sp != _ana_species(net):
            return [dict(clause="history-generator", detail="call %d: the analysed object holds %r / species %r, the case predicted %r / %r"
                         % (i, have, have_sp, pred, _ana_species(net)))]
        if kind == "err":
            if net["rxns"] and _ana_species(net):
                fails.append(dict(clause="analyzer-history", detail="call %d: compute raised on a network with reactions %r" % (i, net["rxns"])))
            continue
        if op not in ("C", "R") or computed is None:
            if op == "R" and computed is None and (an.siphons is not None or an.traps is not None):
                fails.append(dict(clause="analyzer-history", detail="call %d: results %r / %r before any compute" % (i, an.siphons, an.traps)))
            continue
        # derived views of the analyzer must show the stored results
        d = an.as_dict()
        sm = an.summary
        if (d["siphons"] != (None if an.siphons is None else [sorted(x) for x in an.siphons])
                or d["traps"] != (None if an.traps is None else [sorted(x) for x in an.traps])
                or (sm is not None and (sm.siphons != an.siphons or sm.traps != an.traps))
                or (an.persistence_ok is not None and ("siphons=%d, traps=%d" % (len(an.siphons), len(an.traps))) not in an.explain())):
            fails.append(dict(clause="analyzer-facade", detail="call %d: as_dict / summary / explain disagree with the siphons / traps properties: %r vs %r / %r"
                              % (i, d, an.siphons, an.traps)))
        ws, wt = want(computed)
        gs = None if an.siphons is None else {frozenset(x) for x in an.siphons}
        gt = None if an.traps is None else {frozenset(x) for x in an.traps}
        if gs != ws or gt != wt:
            fails.append(dict(clause="analyzer-history",
                              detail="call %d (%s) of %r, edit stages %r: analyzer holds siphons %r traps %r; the network at the last compute %r has "
                                     "siphons %r traps %r" % (i, op, case["ops"], case["stages"][1:], sorted(map(sorted, gs or [])),
                                                              sorted(map(sorted, gt or [])), computed, sorted(map(sorted, ws)), sorted(map(sorted, wt)))))
            break
    return fails[:2]


def oracle(case):
    t = case["t"]
    if t == "ana":
        return _oracle_ana(case)
    if t == "hist":
        return _oracle_hist(case)
    if t == "net":
        return _oracle_net(case)[:3]
    if t == "petri":
        return _oracle_petri(case)[:3]
    if t == "flow":
        return _oracle_flow(case)
    return []


def nontrivial(case, obs):
    t = case["t"]
    if t == "ana":
        reads = [repr(a) for a in obs if a[0] == 1 and (a[1] or a[2] or (len(a) > 3 and a[3]))]
        return len(set(reads)) >= 2          # the reported sets / the persistence verdict changed after an edit + compute / check
    if t == "hist":
        # a scaled search that had to go beyond k = 1 (or failed) followed by a later is_realizable / certificate call,
        # or at least two answered searches with different answers
        ans = [a for a, _ in obs]
        for i, a in enumerate(ans):
            if a[0] == 2 and (a[2] >= 2 or not a[1]) and any(b[0] in (1, 3) for b in ans[i + 1:]):
                return True
        return len({repr(a) for a in ans if a[0] in (1, 2)}) >= 2
    if t == "net":
        if obs[0] != 1:
            return False
        return (any(obs[3]) and not all(obs[3])) or (any(obs[4]) and not all(obs[4]))
    if t == "petri":
        blocks = obs if case.get("rounds") else [obs]
        ens = [q[0] for b in blocks for q in b[4]]
        return any(ens) and not all(ens)
    if t == "flow":
        ok, cert = obs[5], obs[6]
        if ok:
            return bool(cert) and len(cert[0]) >= 2
        return case.get("nreach", 0) >= 3
    return False


def distribution(cases, obss):
    d = dict(types={}, net_species={}, net_reactions={}, net_modes={}, net_errors=0, net_with_siphon=0, net_with_trap=0,
             petri_queries=0, petri_enabled=0, flow_realizable_verdicts=0, flow_truth_realizable=0, flow_total=0,
             flow_reachable_hist={}, flow_cert_len={}, flow_bound_states_explicit=0, flow_bound_depth_explicit=0,
             flow_false_although_realizable=0, flow_via_hg=0, flow_kinds={})
    for c, o in zip(cases, obss):
        t = c["t"]
        d["types"][t] = d["types"].get(t, 0) + 1
        if not isinstance(o, list) or (o and o[0] == "EXC"):
            continue
        if t == "ana":
            h = d.setdefault("ana", dict(cases=0, computes=0, compute_errors=0, edits=0, reads=0, results_changed=0))
            h["cases"] += 1
            h["computes"] += sum(1 for op in c["ops"] if op == "C")
            h["edits"] += sum(1 for op in c["ops"] if op == "E")
            for st in c["stages"][1:]:
                for e_ in st:
                    kk = e_[0] if isinstance(e_[0], str) else "add"
                    h.setdefault("edit_kinds", {})[kk] = h.setdefault("edit_kinds", {}).get(kk, 0) + 1
            h["reads"] += sum(1 for op in c["ops"] if op == "R")
            h["compute_errors"] += sum(1 for a in o if a[0] == 9)
            h["results_changed"] += len({repr(a) for a in o if a[0] == 1 and (a[1] or a[2])}) >= 2
            continue
        if t == "hist":
            h = d.setdefault("hist", dict(kinds={}, ops={}, length={}, scaled_k={}, real_true=0, real_false=0, errors=0,
                                          scaled_k_ge2_then_real=0, with_borrow=0))
            h["kinds"][c.get("kind", "?")] = h["kinds"].get(c.get("kind", "?"), 0) + 1
            L = str(len(c["ops"]))
            h["length"][L] = h["length"].get(L, 0) + 1
            h["with_borrow"] += any(op[0] == "W" for op in c["ops"])
            ans = [a for a, _ in o]
            for op in c["ops"]:
                h["ops"][op[0]] = h["ops"].get(op[0], 0) + 1
            for i, a in enumerate(ans):
                if a[0] == 1:
                    h["real_true" if a[1] else "real_false"] += 1
                elif a[0] == 2:
                    kk = str(a[2]) if a[1] else "none"
                    h["scaled_k"][kk] = h["scaled_k"].get(kk, 0) + 1
                    if a[1] and a[2] >= 2 and any(b[0] == 1 for b in ans[i + 1:]):
                        h["scaled_k_ge2_then_real"] += 1
                elif a[0] == 9:
                    h["errors"] += 1
            continue
        if t == "net":
            if o[0] != 1:
                d["net_errors"] += 1
                continue
            n = str(len(o[1]))
            d["net_species"][n] = d["net_species"].get(n, 0) + 1
            r = str(len(c["rxns"]))
            d["net_reactions"][r] = d["net_reactions"].get(r, 0) + 1
            m = c.get("mode", "hg")
            d["net_modes"][m] = d["net_modes"].get(m, 0) + 1
            d["net_with_siphon"] += bool(o[5])
            d["net_with_trap"] += bool(o[6])
        elif t == "petri":
            for b in (o if c.get("rounds") else [o]):
                d["petri_queries"] += len(b[4])
                d["petri_enabled"] += sum(1 for q in b[4] if q[0])
            d["petri_growing_nets"] = d.get("petri_growing_nets", 0) + bool(c.get("rounds"))
        elif t == "flow":
            d["flow_total"] += 1
            d["flow_realizable_verdicts"] += bool(o[5])
            tr = c.get("truth")
            d["flow_truth_realizable"] += bool(tr)
            if tr and not o[5]:
                d["flow_false_although_realizable"] += 1
            nr = c.get("nreach", 0)
            b = "<=10" if nr <= 10 else "<=100" if nr <= 100 else "<=1000" if nr <= 1000 else "<=10000" if nr <= 10000 else ">10000"
            d["flow_reachable_hist"][b] = d["flow_reachable_hist"].get(b, 0) + 1
            if o[6]:
                L = str(len(o[6][0]))
                d["flow_cert_len"][L] = d["flow_cert_len"].get(L, 0) + 1
            d["flow_bound_states_explicit"] += c.get("max_states") is not None
            d["flow_bound_depth_explicit"] += c.get("max_depth") is not None
            d["flow_via_hg"] += c.get("via") == "hg"
            k = c.get("kind", "?")
            d["flow_kinds"][k] = d["flow_kinds"].get(k, 0) + 1
    return d


def shrink(case, fl):
    if case["t"] != "net":
        return case
    cur = case
    changed = True
    while changed and len(cur["rxns"]) > 1:
        changed = False
        for i in range(len(cur["rxns"])):
            cand = dict(cur, rxns=cur["rxns"][:i] + cur["rxns"][i + 1:], name=case.get("name", "") + "(shrunk)")
            cand.pop("k", None)
            try:
                if any(f["clause"] == fl["clause"] for f in oracle(cand)):
                    cur = cand
                    changed = True
                    break
            except Exception:
                pass
    return cur


def neighbours(case, rng):
    out = []
    if case["t"] == "net":
        for i in range(len(case["rxns"])):
            out.append(dict(case, rxns=case["rxns"][:i] + case["rxns"][i + 1:], name="nb-drop%d" % i))
    elif case["t"] == "flow":
        out.append(dict(case, max_states=None, max_depth=None, name="nb-unbounded"))
        for j, (e, f) in enumerate(case["flow"]):
            if f > 0:
                fl = [list(x) for x in case["flow"]]
                fl[j][1] = f - 1
                out.append(dict(case, flow=fl, name="nb-flow-%d" % j))
    elif case["t"] == "petri":
        for q in case["queries"]:
            out.append(dict(case, queries=[q], name="nb-query"))
    return out


# ------------------------------------------------------------------ generators

SP3 = ["A", "B", "C"]


def unit_reactions():
    subs = [list(c) for k in range(0, 4) for c in itertools.combinations(SP3, k)]
    return [([[s, 1] for s in l], [[s, 1] for s in r]) for l in subs for r in subs if l != r]


def _net_case(rxns, kind, **kw):
    occ = {s for l, r in rxns for s, c in l + r}
    c = dict(t="net", kind=kind, species=list(SP3), iso=[s for s in SP3 if s not in occ],
             rxns=[[l, r] for l, r in rxns], mode="hg")
    c.update(kw)
    return c


def gen_exhaustive(tier, rng):
    R = unit_reactions()
    assert len(R) == 56
    cases = []
    top = 2 if tier == "quick" else 3
    for k in range(1, top + 1):
        for combo in itertools.combinations(range(len(R)), k):
            c = _net_case([R[i] for i in combo], "net-exh%d" % k)
            c["k"] = (sum(combo) % 4)
            cases.append(c)
    # the same single reactions without padding to 3 species
    for l, r in R:
        cases.append(dict(t="net", kind="net-exh1-nopad", species=[], iso=[], rxns=[[l, r]], mode="hg", k=1))
    return cases


LABELSETS = [list("ABCDEF"), ["a", "B", "A1", "A", "b2", "Z"], ["X10", "X2", "X1", "Y", "x", "_z"],
             ["", "0", " ", "False", "A B", "S:A"]]          # falsy / odd labels (the empty string included)


def _rand_side(rng, sp, maxc):
    k = rng.choice([0, 1, 1, 2, 2, 3])
    return [[s, rng.randint(1, maxc)] for s in rng.sample(sp, min(k, len(sp)))]


def gen_random_nets(n, rng):
    cases = []
    for i in range(n):
        labels = rng.choice(LABELSETS)
        ns = rng.randint(1, 6)
        sp = rng.sample(labels, ns)
        nr = rng.randint(1, 6)
        rx = []
        while len(rx) < nr:
            l, r = _rand_side(rng, sp, 3), _rand_side(rng, sp, 3)
            if not l and not r:
                continue
            rx.append([l, r])
            if rng.random() < 0.1:
                rx.append([[list(x) for x in r], [list(x) for x in l]])      # reverse
            if rng.random() < 0.05:
                rx.append([[list(x) for x in l], [list(x) for x in r]])      # repeated reaction
        iso = [s for s in sp if rng.random() < 0.15]
        c = dict(t="net", kind="net-rand", species=[], iso=iso, rxns=rx, mode=rng.choice(["hg", "hg", "bip", "und"]))
        if c["mode"] != "hg" and rng.random() < 0.6:
            c["shuffle"] = rng.randrange(10 ** 6)
            c["int_ids"] = rng.random() < 0.5
        if c["mode"] != "hg" and rng.random() < 0.25:
            c["no_stoich"] = True
        if c["mode"] != "hg" and rng.random() < 0.2 and not any(x.startswith("R:") for x in _all_species(c)):
            c["bare"] = True
            c["int_ids"] = False
        if c["mode"] == "bip" and rng.random() < 0.4:
            c["junk"] = rng.randrange(1, 10 ** 6)
        if c["mode"] != "hg" and not c.get("no_stoich") and rng.random() < 0.25 and all(cc <= 3 for l_, r_ in rx for _, cc in l_ + r_):
            c["frac"] = rng.randrange(1, 10 ** 6)
        nsp = len(_all_species(c))
        c["k"] = rng.randint(0, nsp + 1)
        nc = rng.randint(0, 7)
        c["cands"] = [sorted(rng.sample(range(6), rng.randint(0, 4))) for _ in range(nc)]
        if nc and rng.random() < 0.3:
            c["cands"].append(list(c["cands"][0]))
        cases.append(c)
    # error cases: no reactions / nothing at all
    cases.append(dict(t="net", kind="net-error", species=[], iso=["A"], rxns=[], mode="hg", k=1))
    cases.append(dict(t="net", kind="net-error", species=[], iso=[], rxns=[], mode="hg", k=0))
    return cases


def gen_big_nets(n, rng):
    """10-12 species (two-digit node ids of the integer export, two-digit indices), sparse; size bound 2-3 keeps the subset
    enumeration small (the predicates are still evaluated on all subsets of up to 11 species: 2047)"""
    cases = []
    names = ["X%d" % i for i in range(1, 13)]                 # X1, X10, X11, X12, X2, ...: label order != numeric order
    for i in range(n):
        ns = rng.choice([10, 10, 11])
        sp = rng.sample(names, ns)
        rx = []
        used = set()
        while len(rx) < rng.randint(8, 12) or len(used) < ns:
            l, r = _rand_side(rng, sp, 2), _rand_side(rng, sp, 2)
            if not l and not r:
                continue
            free = [x for x in sp if x not in used]
            if free and rng.random() < 0.7:
                (l if rng.random() < 0.5 else r).append([free[0], 1]) if free[0] not in {y for y, _ in l + r} else None
            used |= {y for y, _ in l + r}
            rx.append([l, r])
        mode = ["hg", "bip", "und"][i % 3]
        c = dict(t="net", kind="net-big", species=[], iso=[], rxns=rx, mode=mode, k=rng.choice([2, 3]))
        if mode != "hg":
            c["shuffle"] = rng.randrange(10 ** 6)
            c["int_ids"] = True
        cases.append(c)
    return cases


def gen_petri(n, rng):
    cases = []
    for i in range(n):
        npl = rng.randint(1, 6)
        places = rng.sample(range(8), npl)
        known = set(places)
        trans = []
        for t in range(rng.randint(1, 5)):
            def side():
                pool = sorted(known)
                return [[p, rng.choice([0, 1, 1, 1, 2, 3])] for p in rng.sample(pool, min(len(pool), rng.choice([0, 1, 1, 2, 3])))]
            pre, post = side(), side()
            if rng.random() < 0.25:
                fresh = [p for p in range(9) if p not in known]
                if fresh:
                    p = rng.choice(fresh)
                    (pre if rng.random() < 0.5 else post).append([p, rng.randint(1, 2)])
                    known.add(p)
            tid = t if rng.random() < 0.9 or t == 0 else rng.randrange(t)     # occasionally overwrite a transition
            trans.append([tid, pre, post])
        tids = sorted({t[0] for t in trans})
        queries = []
        for q in range(rng.randint(2, 8)):
            tid = rng.choice(tids)
            pre = [tr for tr in trans if tr[0] == tid][-1][1]
            m = {}
            for p in sorted(known):
                if rng.random() < 0.7:
                    m[p] = rng.randint(0, 3)
            for p, w in pre:                         # make "exactly covered" and "one short" frequent
                z = rng.random()
                if z < 0.4:
                    m[p] = w
                elif z < 0.6:
                    m[p] = w - 1
            if rng.random() < 0.15:
                m[9 + q] = rng.randint(1, 3)         # a place the net does not know
            items = list(m.items())
            rng.shuffle(items)
            queries.append([[list(x) for x in items], tid])
        cases.append(dict(t="petri", kind="petri", places=places, trans=trans, queries=queries))
        if len(trans) >= 2 and rng.random() < 0.4:
            # the same construction spread over rounds on ONE net object: queries after every round
            cut = rng.randint(1, len(trans) - 1)
            rounds = []
            for part in (trans[:cut], trans[cut:]):
                sofar = sorted({t_[0] for r_ in rounds for t_ in r_[0]} | {t_[0] for t_ in part})
                qs = [q for q in queries if q[1] in sofar][:4] or [[[], sofar[0]]]
                rounds.append([part, qs])
            if rng.random() < 0.5:            # a third round that overwrites the first transition
                t0 = rounds[0][0][0]
                rounds.append([[[t0[0], [list(x) for x in t0[2]], [list(x) for x in t0[1]]]], [q for q in queries if q[1] == t0[0]][:3] or [[[], t0[0]]]])
            cases.append(dict(t="petri", kind="petri-growing", places=places, trans=trans, queries=queries, rounds=rounds))
    return cases


def _fire_walk(rng, sp, ed, steps):
    """random valid firing sequence from the zero marking; returns (sequence of edge indices, final marking)."""
    m = {s: 0 for s in sp}
    seq = []
    for _ in range(steps):
        en = [j for j, (pre, post) in enumerate(ed) if all(m[s] >= c for s, c in pre)]
        if not en:
            break
        # prefer moves that do not blow the token count up
        tot = sum(m.values())
        w = []
        for j in en:
            pre, post = ed[j]
            delta = sum(c for _, c in post) - sum(c for _, c in pre)
            w.append(3.0 if (delta < 0 and tot > 2) else 1.0 if delta <= 0 else (1.5 if tot < 3 else 0.4))
        j = rng.choices(en, w)[0]
        pre, post = ed[j]
        for s, c in pre:
            m[s] -= c
        for s, c in post:
            m[s] += c
        seq.append(j)
    return seq, m


def _flow_case_from_walk(rng, max_reach):
    labels = rng.choice(LABELSETS)
    ns = rng.randint(1, 5)
    sp = sorted(rng.sample(labels, ns))
    ne = rng.randint(1, 4)
    ed = []
    while len(ed) < ne:
        pre = _rand_side(rng, sp, 2)
        post = _rand_side(rng, sp, 2)
        if not pre and not post:
            continue
        ed.append((pre, post))
    if not any(not pre for pre, _ in ed):
        s = rng.choice(sp)
        ed.append(([], [[s, rng.randint(1, 2)]]))                         # a source so that something can start
    seq, m = _fire_walk(rng, sp, ed, rng.randint(1, 9))
    # drain what is left: either one sink complex or per-species sinks
    left = {s: c for s, c in m.items() if c > 0}
    flow = [0] * len(ed)
    for j in seq:
        flow[j] += 1
    if left:
        if rng.random() < 0.5:
            ed.append(([[s, c] for s, c in sorted(left.items())], []))
            flow.append(1)
        else:
            for s, c in sorted(left.items()):
                ed.append(([[s, 1]], []))
                flow.append(c)
    order = list(range(len(ed)))
    rng.shuffle(order)
    edges = [["e%d" % k, [list(x) for x in ed[j][0]], [list(x) for x in ed[j][1]]] for k, j in enumerate(order)]
    fl = [["e%d" % k, flow[j]] for k, j in enumerate(order)]
    return dict(t="flow", kind="flow-walk", species=sp, vertices=list(sp), edges=edges, flow=fl, via="direct",
                max_states=None, max_depth=None)


def _measure(c, max_reach):
    truth, nreach, hit = reach(c, limit=max_reach)
    if hit:
        return None
    c["truth"], c["nreach"] = bool(truth), nreach
    c["total"] = sum(f for _, f in c["flow"])
    return c


def _perturb(rng, base):
    c = dict(base)
    c["flow"] = [list(x) for x in base["flow"]]
    c["edges"] = [[e, [list(x) for x in a], [list(x) for x in b]] for e, a, b in base["edges"]]
    z = rng.random()
    j = rng.randrange(len(c["flow"]))
    if z < 0.3:
        c["flow"][j][1] += 1
        c["kind"] = "flow-perturb+1"
    elif z < 0.55:
        c["flow"][j][1] = max(0, c["flow"][j][1] - 1)
        c["kind"] = "flow-perturb-1"
    elif z < 0.65:
        c["flow"][j][1] = -1
        c["kind"] = "flow-negative"
    elif z < 0.8:
        c["flow"] = [[e, 2 * f] for e, f in c["flow"]]
        c["kind"] = "flow-scaled"
    elif z < 0.9:
        # change a coefficient
        e = c["edges"][j]
        side = e[1] if (e[1] and rng.random() < 0.5) else e[2]
        if side:
            side[rng.randrange(len(side))][1] += 1
        c["kind"] = "flow-coef"
    else:
        c["flow"] = [[e, 0] for e, f in c["flow"]]
        c["kind"] = "flow-zero"
    return c


def _with_bounds(rng, base):
    """variants of a measured case with bounds at / around the exact requirements"""
    out = []
    nr, tot = base["nreach"], base["total"]
    for ms, md in ((nr, None), (max(nr - 1, 0), None), (max(nr - 2, 0), None), (None, tot), (None, max(tot - 1, 0)),
                   (None, max(tot - 2, 0)), (rng.randint(0, max(nr, 1)), None), (None, rng.randint(0, max(tot, 1))),
                   (nr, tot), (1, None), (0, None), (None, 0)):
        c = dict(base, max_states=ms, max_depth=md, kind=base["kind"] + "-bounds")
        out.append(c)
    return out


def gen_flows(n, rng, max_reach, n_big, big_reach):
    cases = []
    tries = 0
    while len(cases) < n and tries < 50 * n:
        tries += 1
        base = _measure(_flow_case_from_walk(rng, max_reach), max_reach)
        if base is None:
            continue
        group = [base]
        for _ in range(2):
            p = _measure(_perturb(rng, base), max_reach)
            if p is not None:
                group.append(p)
        if rng.random() < 0.3:
            hgc = dict(base, via="hg", kind="flow-hg")
            if all(a or b for _, a, b in hgc["edges"]):
                group.append(hgc)
                ones = [e_ for e_, f_ in hgc["flow"] if f_ == 1]
                if ones:                              # flows of 1 left to the default of hypergraph_to_pr_inputs
                    group.append(dict(hgc, kind="flow-hg-default", omit=rng.sample(ones, rng.randint(1, len(ones)))))
                allone = _measure(dict(hgc, kind="flow-hg-default", flow=[[e_, 1] for e_, _ in hgc["flow"]], flow_none=True), max_reach)
                if allone is not None:
                    group.append(allone)
        if rng.random() < 0.15:
            v = dict(base, kind="flow-vertices")
            vs = [s for s in base["vertices"] if rng.random() < 0.6] + (["Q"] if rng.random() < 0.5 else [])
            v["vertices"] = vs
            v["species"] = sorted(set(base["species"]) | set(vs))
            group.append(v)
        if rng.random() < 0.1:
            z = dict(base, kind="flow-zero-weight")
            z["edges"] = [[e, [list(x) for x in a] + ([[base["species"][0], 0]] if not any(s == base["species"][0] for s, _ in a) else []),
                           [list(x) for x in b]] for e, a, b in base["edges"]]
            group.append(z)
        if rng.random() < 0.1 and len(base["flow"]) > 1:
            mf = dict(base, kind="flow-missing-key")
            mf["flow"] = [list(x) for x in base["flow"][:-1]]
            mf = _measure(mf, max_reach)
            if mf is not None:
                group.append(mf)
        extra = []
        for g in group:
            if rng.random() < 0.5:
                extra += rng.sample(_with_bounds(rng, g), 3)
        cases += group + extra
    # a few large state spaces (model BFS cost is quadratic in the number of markings)
    big = 0
    tries = 0
    while big < n_big and tries < 4000:
        tries += 1
        base = _flow_case_from_walk(rng, big_reach)
        base["flow"] = [[e, f * rng.choice([1, 2, 3])] for e, f in base["flow"]]
        base = _measure(base, big_reach)
        if base is None or base["nreach"] < big_reach // 8:
            continue
        base["kind"] = "flow-big"
        cases.append(base)
        cases.append(dict(base, max_states=base["nreach"] - 1, kind="flow-big-bounds"))
        big += 1
    return cases


TEXTBOOK_FLOWS = [
    # (edges, flow) — small classics: linear chain, autocatalysis needing a borrowed token, a cycle with entry/exit
    ([["e0", [], [["A", 1]]], ["e1", [["A", 1]], [["B", 1]]], ["e2", [["B", 1]], []]], [1, 1, 1]),
    ([["e0", [["A", 1], ["X", 1]], [["X", 2]]], ["e1", [], [["A", 1]]], ["e2", [["X", 1]], []]], [1, 1, 1]),
    ([["e0", [], [["A", 1]]], ["e1", [["A", 1], ["C", 1]], [["B", 1]]], ["e2", [["B", 1]], [["C", 1], ["D", 1]]], ["e3", [["D", 1]], []]],
     [1, 1, 1, 1]),
    ([["e0", [], [["A", 2]]], ["e1", [["A", 1]], [["B", 1]]], ["e2", [["B", 2]], []]], [1, 2, 1]),
    ([["e0", [], [["A", 1]]], ["e1", [["A", 1]], []]], [3, 3]),
    ([["e0", [], [["A", 1]]], ["e1", [["A", 1]], []]], [12, 12]),                 # two-digit flows and token counts
    ([["e0", [], [["", 10]]], ["e1", [["", 5]], [["0", 1]]], ["e2", [["0", 1]], []]], [1, 2, 2]),   # falsy labels, coefficient 10
    # pathways of total length 1 (only possible with an edge without effective reactants and products)
    ([["e0", [], []]], [1]),
    ([["e0", [], []]], [2]),
    ([["e0", [["A", 0]], []], ["e1", [], [["A", 1]]], ["e2", [["A", 1]], []]], [1, 0, 0]),
    ([["e0", [["A", 0]], [["A", 0]]], ["e1", [], [["A", 1]]], ["e2", [["A", 1]], []]], [1, 1, 1]),
]


def gen_textbook():
    out = []
    for ed, fl in TEXTBOOK_FLOWS:
        sp = sorted({s for _, a, b in ed for s, _ in a + b})
        c = dict(t="flow", kind="flow-textbook", species=sp, vertices=sp, edges=ed, flow=[[e[0], f] for e, f in zip(ed, fl)],
                 via="direct", max_states=None, max_depth=None)
        out.append(_measure(c, 20000))
    return out


TEXTBOOK_NETS = [
    [[[["A", 1]], [["B", 1]]], [[["B", 1]], [["A", 1]]], [[["B", 1]], [["C", 1]]]],                       # design witness
    [[[["E", 1], ["S", 1]], [["ES", 1]]], [[["ES", 1]], [["E", 1], ["S", 1]]], [[["ES", 1]], [["E", 1], ["P", 1]]]],   # Michaelis-Menten
    [[[["A", 1], ["B", 1]], [["A", 2]]], [[["A", 1]], [["B", 1]]]],
    [[[["A", 2]], [["B", 1]]], [[["B", 1], ["C", 1]], [["D", 1]]], [[["D", 1]], [["A", 2], ["C", 1]]]],
]


# ---- call histories on one object ------------------------------------------------------------

HIST_REACH = 500        # bound on the reachable markings of every (scaled) flow a history can make the object search


def _catalyst_base(rng):
    """a pathway that needs c copies of a catalyst at once while the flow makes only a per round:
    realizable exactly from the scaling factor ceil(c / a) on."""
    a = rng.choice([1, 1, 1, 2])
    c = rng.choice([x for x in (2, 3, 4) if x > a])
    X, P = rng.choice([("X", "P"), ("A", "B"), ("P", "X"), ("b2", "A1")])
    fc = rng.choice([1, 1, 2])
    edges = [["make", [], [[X, 1]]], ["cat", [[X, c]], [[X, c], [P, 1]]], ["drain", [[P, 1]], []], ["drop", [[X, 1]], []]]
    flow = {"make": a, "cat": fc, "drain": fc, "drop": a}
    if rng.random() < 0.4:                       # an uninvolved side branch
        edges += [["s_in", [], [["Q", 1]]], ["s_out", [["Q", 1]], []]]
        flow.update(s_in=1, s_out=1)
    if rng.random() < 0.3:                       # an edge the flow does not use
        edges.append(["idle", [[P, 1]], [[X, 1]]])
        flow["idle"] = 0
    rng.shuffle(edges)
    sp = sorted({s for _, t, h in edges for s, _ in t + h})
    return dict(t="hist", kind="hist-catalyst", species=sp, vertices=list(sp), edges=edges,
                flow=[[e[0], flow[e[0]]] for e in edges], need=-(-c // a))


def _autocat_base(rng):
    """autocatalysis A + X -> 2 X fed and drained: not realizable at any scale, realizable with one borrowed X"""
    A, X = rng.choice([("A", "X"), ("X", "A"), ("S", "E")])
    f = rng.choice([1, 1, 2])
    edges = [["auto", [[A, 1], [X, 1]], [[X, 2]]], ["feed", [], [[A, 1]]], ["out", [[X, 1]], []]]
    rng.shuffle(edges)
    sp = sorted([A, X])
    return dict(t="hist", kind="hist-autocat", species=sp, vertices=list(sp), edges=edges, flow=[[e[0], f] for e in edges], need=2)


def _gcd_base(rng):
    """random walk flow divided by its gcd (g >= 2): sometimes realizable only when scaled back"""
    from math import gcd
    for _ in range(200):
        b = _flow_case_from_walk(rng, HIST_REACH)
        b["flow"] = [[e, f * rng.choice([1, 2, 2, 3])] for e, f in b["flow"]] if rng.random() < 0.5 else b["flow"]
        g = 0
        for _, f in b["flow"]:
            g = gcd(g, f)
        if g >= 2:
            b["flow"] = [[e, f // g] for e, f in b["flow"]]
            b.update(t="hist", kind="hist-gcd")
            return b
    return None


def _rand_ops(rng, base, n):
    ops = []
    fl = base["flow"]
    for _ in range(n):
        z = rng.random()
        if z < 0.36:
            b = rng.random()
            ops.append(["R", None, None] if b < 0.7 else ["R", rng.randint(0, 12), None] if b < 0.85 else ["R", None, rng.randint(0, 6)]
                       if b < 0.93 else ["R", rng.randint(0, 40), rng.randint(0, 8)])
        elif z < 0.62:
            ops.append(["S", rng.choice([0, 1, 2, 2, 3, 3, 4])])
        elif z < 0.78:
            ops.append(["C"])
        elif z < 0.88:
            ops.append(["B"] if rng.random() < 0.7 else ["X"])
        elif z < 0.96:
            q = rng.random()
            if q < 0.4:
                nf = [[e, 2 * f] for e, f in fl]
            elif q < 0.6:
                nf = [list(x) for x in base["flow"]]
            else:
                nf = [[e, max(0, f + rng.choice([-1, 0, 0, 1]))] for e, f in fl]
            fl = nf
            ops.append(["L", nf] if rng.random() < 0.6 else ["FB", nf])
        else:
            ops.append(["W", 1])
    return ops


HIST_INPLACE = [["B", "R", "F2", "R", "C"], ["B", "S", "F2", "R", "C"], ["S", "R", "F2", "C", "R"]]
HIST_RETRY = [["B", "Rt", "R", "C"], ["B", "Rd", "R", "C", "Rt", "C"], ["B", "R", "Rt", "C", "R"], ["S", "Rd", "Rt", "R"], ["B", "Rt", "Rd", "C", "R", "C"]]
HIST_PATTERNS = [
    ["B", "S", "R", "C"], ["S", "R"], ["B", "R", "S", "C", "R"], ["B", "S", "C", "S", "R"], ["S", "C", "R", "C"],
    ["B", "R", "C", "S", "R", "C"], ["S", "B", "R"], ["B", "S", "L2", "R", "B", "R", "C"], ["B", "R", "L2", "R", "C", "S", "R"],
    ["R", "B", "R", "Rb", "C", "R", "C"],
    ["B", "R", "C", "X", "C", "R"], ["X", "R", "S", "X", "R", "C"],          # export_pnml rebuilds (certificate cleared) and writes the net
    ["B", "W", "R", "C"], ["B", "S", "W", "R"],                              # (the last two: borrow patterns, see gen_histories)
]


def _hist_ok(case):
    """every flow the history can make the object search has a small, exhaustively known state space"""
    cur = case["flow"]
    flows = []
    for op in case["ops"]:
        if op[0] in ("L", "FB"):
            cur = op[1]
        elif op[0] in ("R", "W"):
            flows.append((cur, 1))
        elif op[0] == "S":
            flows += [(cur, q) for q in range(1, op[1] + 1)]
    seen = set()
    for fl, q in flows:
        key = (tuple(map(tuple, fl)), q)
        if key in seen:
            continue
        seen.add(key)
        _, n, hit = reach(dict(case, flow=[[e, q * f] for e, f in fl]), limit=HIST_REACH)
        if hit:
            return False
    if any(op[0] == "W" for op in case["ops"]) and len(case["vertices"]) > 4:
        return False
    return True


def gen_histories(n, rng):
    cases = []
    tries = 0
    while len(cases) < n and tries < 40 * n:
        tries += 1
        z = rng.random()
        if z < 0.4:
            base = _catalyst_base(rng)
        elif z < 0.5:
            base = _autocat_base(rng)
        elif z < 0.7:
            base = _gcd_base(rng)
        else:
            base = _flow_case_from_walk(rng, HIST_REACH)
            if rng.random() < 0.4:
                base = _perturb(rng, base)
            base.update(t="hist", kind="hist-walk")
        if base is None:
            continue
        for k in ("max_states", "max_depth", "via"):
            base.pop(k, None)
        pat = None
        if base["kind"] == "hist-catalyst" and base.get("need") == 2 and rng.random() < 0.25:
            pat = rng.choice(HIST_INPLACE)        # flow doubled IN PLACE then rebuilt: realizable from then on
        elif base["kind"] == "hist-walk" and rng.random() < 0.5:
            pat = rng.choice(HIST_RETRY)          # the documented retry workflow: tight bounds first, then ample ones
        elif rng.random() < 0.55:
            pat = rng.choice(HIST_PATTERNS[-2:] + [["W", "R", "C"]] if base["kind"] == "hist-autocat" and rng.random() < 0.7
                             else HIST_PATTERNS)
        if pat is not None:
            need = base.get("need", 2)
            ops = []
            fl = base["flow"]
            for o in pat:
                if o == "S":
                    ops.append(["S", rng.choice([need, need, need + 1, max(need - 1, 1), 3])])
                elif o == "R":
                    ops.append(["R", None, None])
                elif o == "Rb":
                    ops.append(["R", rng.randint(1, 6), None])
                elif o == "Rt":
                    ops.append(["R", rng.choice([0, 1, 2]), None])
                elif o == "Rd":
                    ops.append(["R", None, rng.choice([0, 1])])
                elif o == "L2":
                    fl = [[e, 2 * f] for e, f in fl]
                    ops.append(["L", fl])
                elif o == "F2":
                    fl = [[e, 2 * f] for e, f in fl]
                    ops.append(["FB", fl])
                elif o == "W":
                    ops.append(["W", 1])
                else:
                    ops.append([o])
        else:
            ops = _rand_ops(rng, base, rng.randint(3, 8))
        c = dict(base, ops=ops)
        if rng.random() < 0.12:                   # a non-default RealizabilityConfig: tiny, or just enough, or ample
            c["config"] = [rng.choice([1, 2, 3, 8, 50, 2000]), rng.choice([1, 2, 6, 40, 500])]
        if not _hist_ok(c):
            continue
        cases.append(c)
    return cases


ANA_PATTERNS = [["R", "C", "R", "E", "R", "C", "R"], ["C", "E", "C", "R"], ["C", "R", "E", "E", "R", "C", "R"], ["C", "E", "R", "C", "R", "C", "R"],
                ["C", "R", "E", "C", "R", "E", "C", "R"],
                # with check_persistence ("P"): the stored verdict must be the one of the network at the last check
                ["P", "R", "E", "R", "P", "R"], ["C", "P", "R", "E", "P", "R", "C", "R"], ["R", "P", "E", "C", "R", "P", "R"],
                ["P", "E", "P", "R", "E", "R"]]


def _ana_edit_stage(rng, net, more, keep_orphans=False):
    """one edit stage on the snapshot `net` (mutated to the predicted result): mostly edits that keep the reaction ids and the
    number of species; `more` = reactions still to be added"""
    import copy
    stage = []
    for _ in range(rng.choice([1, 1, 2])):
        z = rng.random()
        rx = net["rxns"]
        sp = _ana_species(net) or ["A"]
        if z < 0.2 and more:
            l, r = more.pop(0)
            stage.append(["add", l, r])
        elif z < 0.65 and rx:
            i = rng.randrange(len(rx))
            if rng.random() < 0.6 and len(sp) >= 2:
                # count-preserving: the same number of reactant and product incidences, over species that already exist
                nl, nr = len(rx[i][0]), len(rx[i][1])
                if rng.random() < 0.5:
                    nl, nr = nr, nl                       # reactants and products change places
                nl, nr = min(nl, len(sp)), min(nr, len(sp))
                l = [[x, rng.randint(1, 2)] for x in rng.sample(sp, nl)]
                r = [[x, rng.randint(1, 2)] for x in rng.sample(sp, nr)]
                if sorted(map(tuple, l)) == sorted(map(tuple, rx[i][0])) and sorted(map(tuple, r)) == sorted(map(tuple, rx[i][1])):
                    continue
            else:
                pool = sp + [x for x in ("A", "B", "Q") if x not in sp][:1]
                l, r = _rand_side(rng, pool, 2), _rand_side(rng, pool, 2)
            if not l and not r:
                continue
            stage.append(["rep", i, l, r])
        elif z < 0.75 and rx:
            i = rng.randrange(len(rx))
            sd = "l" if (rx[i][0] and rng.random() < 0.5) or not rx[i][1] else "r"
            lst = rx[i][0] if sd == "l" else rx[i][1]
            if not lst:
                continue
            x = rng.choice(lst)
            stage.append(["coef", i, sd, x[0], rng.choice([c for c in (1, 2, 3) if c != x[1]])])
        elif rx:
            occ = sorted({s for l, r in rx for s, c in l + r})
            cand = [x for x in occ if all(any(y != x for y, _ in l + r) for l, r in rx if any(y == x for y, _ in l + r))]
            if not cand:
                continue
            stage.append(["rmsp", rng.choice(cand)])
        else:
            continue
        _ana_apply_snapshot(net, [copy.deepcopy(stage[-1])], keep_orphans=keep_orphans)
    return stage


def gen_analyzer_histories(n, rng):
    import copy
    cases = []
    for base in gen_random_nets(4 * n, rng):
        rx = [r for r in base["rxns"]]
        if len(rx) < 2 or len(cases) >= n:
            continue
        pat = list(rng.choice(ANA_PATTERNS))
        ne = pat.count("E")
        first = rx[:max(1, len(rx) // 2)]
        more = [copy.deepcopy(r) for r in rx[len(first):]]
        stages = [first]
        net = dict(rxns=[[[list(x) for x in l], [list(x) for x in r]] for l, r in first], iso=[])
        gmode = "bip" if (rng.random() < 0.5 and len(first) < 9) else None
        ok = True
        for _ in range(ne):
            st = _ana_edit_stage(rng, net, more, keep_orphans=gmode == "bip")
            if not st:
                ok = False
                break
            stages.append(st)
        if not ok:
            continue
        if gmode is None and rng.random() < 0.1:      # nothing to analyse at first: compute raises, nothing may be stored
            stages = [[]] + [[["add", l, r] for l, r in first]] + stages[1:]
            pat = ["C", "R", "E"] + pat
        c = dict(t="ana", kind="ana", stages=stages, k=rng.choice([None, None, 1, 2, 3]), ops=pat)
        if rng.random() < 0.25:
            c["use_all"] = True
        if gmode:
            c.update(gmode=gmode, gseed=rng.randrange(10 ** 6))
        cases.append(c)
    return cases


def gen_cases(tier, rng):
    cases = []
    cases += gen_analyzer_histories(100 if tier == "quick" else 500, rng)
    cases += gen_histories(200 if tier == "quick" else 1500, rng)
    cases += gen_exhaustive(tier, rng)
    for j, rx in enumerate(TEXTBOOK_NETS):
        for mode in ("hg", "bip", "und"):
            cases.append(dict(t="net", kind="net-textbook", species=[], iso=[], rxns=rx, mode=mode, k=2))
            if mode != "hg":                # the same graph with its species nodes inserted in another order / integer ids
                cases.append(dict(t="net", kind="net-textbook", species=[], iso=[], rxns=rx, mode=mode, k=2, shuffle=7 + j, int_ids=bool(j % 2)))
                cases.append(dict(t="net", kind="net-textbook", species=[], iso=[], rxns=rx, mode=mode, k=2, no_stoich=True))
    # A -> B -> C with the nodes inserted A, C, B (and every other insertion order of three species)
    for sh in range(6):
        cases.append(dict(t="net", kind="net-textbook", species=[], iso=[], rxns=[[[["A", 1]], [["B", 1]]], [[["B", 1]], [["C", 1]]]],
                          mode="bip" if sh % 2 else "und", k=3, shuffle=sh, int_ids=sh >= 3))
    cases += gen_big_nets(6 if tier == "quick" else 24, rng)
    cases += [c for c in gen_textbook() if c is not None]
    if tier == "quick":
        cases += gen_random_nets(400, rng)
        cases += gen_petri(300, rng)
        cases += gen_flows(260, rng, 1200, 2, 2500)
    else:
        cases += gen_random_nets(3000, rng)
        cases += gen_petri(2000, rng)
        cases += gen_flows(2500, rng, 3000, 4, 10000)
    return cases


LEVEL_TEXT = ("Machine-checked proof (Coq, 24 theorems, all closed under the global context) over an executable, structure-following model of "
              "structure.py / net.py / realizability.py: (1) the siphon and trap index predicates equal the Petri-net definitions for every network "
              "and every species subset; (2) _minimal_sets returns exactly the inclusion-minimal candidates for every candidate list; (3) find_siphons / "
              "find_traps report exactly the minimal non-empty siphons / traps (for every max_size); (4) enabled <=> marking covers the reactants, "
              "fire = products - reactants at every place; (5) for every network, flow and bounds a sequence returned by is_realizable fires each "
              "reaction exactly flow times, is covered at every step (hence never negative) and returns every species to zero; (6) the search fuel "
              "is never exhausted; (7) call histories on one PathwayRealizability object (is_realizable / is_scaled_realizable / certificate / build / "
              "reload in any order): after every history the object holds the flow loaded last, its net and markings are those built from that "
              "flow, a stored certificate of a plain search is a correct firing sequence of that flow, and every answer equals the answer of a fresh object "
              "(history independence); a PetriAnalyzer kept while its network is edited always holds exactly the siphons / traps of the network "
              "as it was at the last successful compute (never an earlier result), and its persistence_ok field exactly the verdict for the network as it was at the last "
              "successful check_persistence / compute_all; (8) completeness within the bounds, on the pathway itself (C20_realizable_complete): if some ordering fires each edge flow times, "
              "covered at every step, back to zero, the (fired counts, species marking) states reachable by covered firings within the flow fit into "
              "max_states and the sum of the positive flows is at most max_depth, then is_realizable returns a sequence — via the converse simulation "
              "(an ordering of the pathway is a firing sequence of the extended net the code builds), one supply token per firing, and the search-level "
              "completeness with the premises on the extended net (kept as C20_realizable_complete_partial).  The model is tied to the Python code by "
              "comparing, on every run, predicate values per subset, minimal sets, the built net, verdict, certificate and the number of "
              "enabled()/fire() calls of the search.")
LEVEL_NOTE = ("Trusted: Coq kernel + vm_compute; the hand-written model and the harness encoders; CPython dict/set/deque/itertools semantics. "
              "Modelled, not verified: networkx graph storage; hypergraph_to_bipartite only as far as C20 reads it; caller-supplied nx graphs "
              "(directed / undirected) are covered by the correspondence only; siphon_persistence_condition is modelled with the supports of the "
              "floating-point semiflow basis as oracle inputs (theorem: the verdict is the set condition over the minimal siphons).")
