"""C16 — network views (bipartite graph, reaction strings, species graph) round-trip exactly.

case = {"kind": ..., "net": NET, "views": [VIEW, ...]}
NET  = {"kept": [label, ...],                      isolated species kept with remove_species(prune_orphans=False)
        "rxns": [[id|None, rule, lhs, rhs], ...],  lhs/rhs = [[label, count], ...] (iterable-of-pairs form)
        "mol":  [[label, mol], ...]}
VIEW = ["bip", FLAGS, do_import, import_mol_attr]          FLAGS = dict sp rp bv st ro iso int eid mol
       ["str", include_rule_suffix, include_edge_id, sort, default_rule, parse_rule_from_suffix, prefer_suffix]
       ["sg", include_mol, import_mol_attr]
       ["side", text]                                       RXNSide.from_str on arbitrary text
       ["line", text, rule|None, parse_rule_from_suffix]    CRNHyperGraph().add_rxn_from_str
       ["parse", [text, ...], default_rule, parse_rule_from_suffix, prefer_suffix]   rxns_to_hypergraph

Observable per view: the INTERMEDIATE view (graph nodes/arcs with every attribute, or the printed lines) and the
reconstructed network (species, id -> (rule, lhs, rhs), insertion order, both indices, molecule labels) or the error.
"""
import itertools
import re

from ..coqrun import cZ, cbool, clist, cpair, copt
from ..tok import S

PID = "C16"
COQ_HEADER = ("From stdpp Require Import gmap strings.\n"
              "From SK Require Import lib.Tok model.C15_Model model.C16_Model.\n"
              "Local Open Scope string_scope.\n")
SHARD = 120
IMPL_TIMEOUT = 1500
COQ_TIMEOUT = 1500
RULE = ("a case = one reaction network (list of reactions with ids, rules, coefficient maps; molecule labels; kept isolated "
        "species) + a list of views to round-trip (bipartite export flags / string printer+parser flags / species graph), or a "
        "batch of fuzzed texts for RXNSide.from_str / add_rxn_from_str / parse_rxns; non-trivial = at least one reaction and at "
        "least one round trip whose reconstruction succeeded, or a fuzz batch with at least one successfully parsed non-empty side; "
        "distinct = distinct (network, views) JSON")
EXHAUSTIVE = {"quick": True, "thorough": True}
EXPLANATION = ("Exhaustive sub-spaces: every set of <=2 (quick) / <=3 (thorough) reactions out of the 90 reactions between the 10 "
               "complexes of molecularity <=2 over 3 species (coefficients scaled by PRNG factors from {1,2,3,12}, 2 rule names, PRNG "
               "label triple and flag combination per network; the largest sets of a tier - pairs in quick, triples in thorough - go "
               "through one of the three views each, in rotation, smaller sets through all three); every text of length <=4 (quick) / <=5 (thorough) over the alphabet "
               "{A,2,0,space,+,*,_} through RXNSide.from_str; every bipartite export flag combination on a fixed set of networks. "
               "Everything else (random networks <=8 species / 10 reactions, fuzzed reaction lines, adversarial labels) is seeded random. "
               "Theorems: see coq/props/C16.v (round trips proved for all networks satisfying the stated decidable preconditions).")
TRUSTED_BASE = [
    "Coq 8.16.1 kernel + vm_compute (no native_compute)",
    "std++ 1.8.0 gmap/gset/pretty (axiom-free)",
    "hand-written model coq/model/C16_Model.v (+ the store model C15_Model.v it builds on) tied to "
    "synkit/CRN/Hypergraph/{conversion,rxn,hypergraph}.py by the per-run correspondence",
    "harness encoders harness/props/C16.py (network / flags -> Gallina literal; nx graphs, strings, networks -> tok)",
    "networkx DiGraph add_node/add_edge attribute-merge semantics, in_edges/out_edges; CPython str.strip/split/replace, "
    "re (\\d, \\s, [^\\s]) and int() on ASCII text",
]
ASSUMPTIONS = [
    "labels, ids, rules, molecule labels are ASCII strings (Python str methods and re classes treat further Unicode code points "
    "as digits/whitespace; the only non-ASCII text is the printer's own empty-side sign U+2205, modelled as its UTF-8 bytes)",
    "bipartite_to_hypergraph / species_graph_to_hypergraph are modelled on graphs that carry the edge-id attribute / via sets "
    "(otherwise the code synthesises ids from hash(); such imports are not generated)",
    "species_graph_to_hypergraph picks next(iter(rules)) from a Python set: modelled as an arbitrary choice function, "
    "observed only when the merged rule set is a singleton (membership checked otherwise)",
]
TESTED_NOT_PROVED = [
    "behaviour of the flag combinations that do not export ids or coefficients, of RXNSide.from_str / add_rxn_from_str / parse_rxns on "
    "arbitrary (non-printed) text, and of all converters outside the theorem preconditions: model = implementation on every generated case",
    "rule names after a species-graph round trip (membership in the merged rule set is compared, not proved)",
]

ERR = {"KeyError": 1, "ValueError": 2, "IndexError": 4}
KEY_LABEL_DOMAIN = "C16:strings-label-domain"        # known_findings.d/C16.json
KEY_NAME_CLASH = "C16:bipartite-name-clash"
VALID_LABEL = re.compile(r"[A-Za-z][!-),-=?-{}~]*\Z")   # = valid_label of coq/proof/C16_Defs.v
VALID_RULE = re.compile(r"[!-~]+\Z")          # non-empty, printable ASCII without blank


# ------------------------------------------------------------------ implementation adapter

def build(net):
    from synkit.CRN.Hypergraph.hypergraph import CRNHyperGraph
    H = CRNHyperGraph()
    for x in net.get("kept", []):
        try:
            H.add_rxn([(x, 1)], [], rule="k", edge_id="__k")
            H.remove_species(x, prune_orphans=False)
        except (KeyError, ValueError):
            pass
    for eid, rule, l, r in net.get("rxns", []):
        try:
            H.add_rxn([tuple(p) for p in l], [tuple(p) for p in r], rule=(rule or None), edge_id=eid)
        except (KeyError, ValueError):
            pass
    for s, m in net.get("mol", []):
        try:
            H.assign_mol(s, m)
        except KeyError:
            pass
    return H


def _edges_of(H):
    return {k: (e.rule, dict(e.reactants.to_dict()), dict(e.products.to_dict())) for k, e in H.edges.items()}


def _net_obs(H, rule_of=None, sort_order=False):
    rule_of = rule_of or (lambda k, e: e.rule)
    return [
        S(sorted(H.species)),
        S([[k, rule_of(k, e), dict(e.reactants.to_dict()), dict(e.products.to_dict())] for k, e in H.edges.items()]),
        sorted(H.edges.keys()) if sort_order else list(H.edges.keys()),
        S([[k, S(sorted(v))] for k, v in H.species_to_in_edges.items()]),
        S([[k, S(sorted(v))] for k, v in H.species_to_out_edges.items()]),
        S([[k, v] for k, v in H.species_to_mol.items()]),
    ]


def _guard(f):
    try:
        return [0, f()]
    except KeyError:
        return [1]
    except ValueError:
        return [2]
    except IndexError:
        return [4]


def _opt(d, k):
    return [d[k]] if k in d else []


def _nid(n):
    return [0, n] if isinstance(n, int) else [1, n]


def _bip_obs(G):
    nodes = [[_nid(n), _opt(d, "bipartite"), _opt(d, "label"), _opt(d, "kind"), _opt(d, "mol"), _opt(d, "edge_id")]
             for n, d in G.nodes(data=True)]
    arcs = [[_nid(u), _nid(v), _opt(d, "stoich"), _opt(d, "role")] for u, v, d in G.edges(data=True)]
    return [S(nodes), S(arcs)]


def _sg_obs(G):
    nodes = [[n, _opt(d, "label"), _opt(d, "kind"), _opt(d, "mol")] for n, d in G.nodes(data=True)]
    arcs = [[u, v, S(sorted(d["via"])), S(sorted(d["rules"])), int(d["stoich_r"]), int(d["stoich_p"]),
             {k: int(c) for k, c in d["stoich_r_map"].items()}, {k: int(c) for k, c in d["stoich_p_map"].items()}]
            for u, v, d in G.edges(data=True)]
    return [S(nodes), S(arcs)]


def _export_bip(H, fl):
    from synkit.CRN.Hypergraph.conversion import hypergraph_to_bipartite
    return hypergraph_to_bipartite(H, species_prefix=fl["sp"], reaction_prefix=fl["rp"], bipartite_values=tuple(fl["bv"]),
                                   include_stoich=fl["st"], include_role=fl["ro"], include_isolated_species=fl["iso"],
                                   integer_ids=fl["int"], include_edge_id_attr=fl["eid"], include_mol=fl["mol"])


def _run_view(H, v):
    from synkit.CRN.Hypergraph import conversion as cv
    from synkit.CRN.Hypergraph.hypergraph import CRNHyperGraph
    from synkit.CRN.Hypergraph.rxn import RXNSide
    k = v[0]
    if k == "bip":
        _, fl, do_imp, mol_attr = v
        G = _export_bip(H, fl)
        out = [_bip_obs(G)]
        if do_imp:
            out.append(_guard(lambda: _net_obs(cv.bipartite_to_hypergraph(G, mol_attr=("mol" if mol_attr else None)))))
        return out
    if k == "sg":
        _, inc_mol, mol_attr = v
        G = cv.hypergraph_to_species_graph(H, include_mol=inc_mol)
        merged = {}
        for _, _, d in G.edges(data=True):
            for e in d["via"]:
                merged.setdefault(e, set()).update(d["rules"])

        def rule_of(eid, e):          # next(iter(set)) is observable only when the merged set is a singleton
            u = merged.get(eid, set())
            return [e.rule if len(u) == 1 else "", e.rule in u]
        return [_sg_obs(G),
                # the order of add_rxn calls follows set iteration over via: insertion order is not observable here
                _guard(lambda: _net_obs(cv.species_graph_to_hypergraph(G, mol_attr=("mol" if mol_attr else None)), rule_of, True))]
    if k == "str":
        _, inc_rule, inc_id, srt, dr, ps, pf = v
        lines = cv.hypergraph_to_rxn_strings(H, include_rule_suffix=inc_rule, include_edge_id=inc_id, sort=srt)
        return [list(lines), _guard(lambda: _net_obs(cv.rxns_to_hypergraph(lines, default_rule=dr, parse_rule_from_suffix=ps,
                                                                            prefer_suffix=pf)))]
    if k == "side":
        return _guard(lambda: dict(RXNSide.from_str(v[1]).to_dict()))
    if k == "line":
        def go():
            H2 = CRNHyperGraph()
            H2.add_rxn_from_str(v[1], v[2], parse_rule_from_suffix=v[3])
            return _net_obs(H2)
        return _guard(go)
    if k == "parse":
        return _guard(lambda: _net_obs(cv.rxns_to_hypergraph(v[1], default_rule=v[2], parse_rule_from_suffix=v[3], prefer_suffix=v[4])))
    raise AssertionError(k)


def impl(case):
    H = build(case.get("net", {}))
    before = _net_obs(H)
    views = [_run_view(H, v) for v in case["views"]]
    return [before] + views + [_net_obs(H)]          # all views run on ONE object; it must come out unchanged


# ------------------------------------------------------------------ model encoder

def cs(s):
    b = s.encode("utf-8")
    if all(32 <= c < 127 for c in b):
        return '"%s"' % s.replace('"', '""')
    return "(sb [%s])" % "; ".join("%d%%N" % c for c in b)


def _side(l):
    return clist([cpair(cs(s), cZ(c)) for s, c in l])


def _net(net):
    kept = clist([cs(x) for x in net.get("kept", [])])
    rx = clist([cpair(copt(None if e is None else cs(e)), cs(rule or ""), _side(l), _side(r)) for e, rule, l, r in net.get("rxns", [])])
    ml = clist([cpair(cs(a), cs(b)) for a, b in net.get("mol", [])])
    return "(mk_net %s %s %s)" % (kept, rx, ml)


def _view(v):
    k = v[0]
    if k == "bip":
        _, fl, do_imp, mol_attr = v
        if do_imp and not fl["eid"]:
            return None                      # ids synthesised from hash(): outside the model's domain
        f = "(BFlags %s %s %s %s %s %s %s %s %s %s)" % (
            copt(None if fl["sp"] is None else cs(fl["sp"])), copt(None if fl["rp"] is None else cs(fl["rp"])),
            cZ(fl["bv"][0]), cZ(fl["bv"][1]), cbool(fl["st"]), cbool(fl["ro"]), cbool(fl["iso"]), cbool(fl["int"]),
            cbool(fl["eid"]), cbool(fl["mol"]))
        return "VBip %s %s %s" % (f, cbool(do_imp), cbool(mol_attr))
    if k == "sg":
        return "VSg %s %s" % (cbool(v[1]), cbool(v[2]))
    if k == "str":
        return "VStr %s %s %s %s %s %s" % (cbool(v[1]), cbool(v[2]), cbool(v[3]), cs(v[4]), cbool(v[5]), cbool(v[6]))
    if k == "side":
        return "VSide %s" % cs(v[1])
    if k == "line":
        return "VLine %s %s %s" % (cs(v[1]), copt(None if v[2] is None else cs(v[2])), cbool(v[3]))
    if k == "parse":
        return "VParse %s %s %s %s" % (clist([cs(x) for x in v[1]]), cs(v[2]), cbool(v[3]), cbool(v[4]))
    raise AssertionError(k)


def coq_case(case):
    vs = [_view(v) for v in case["views"]]
    if any(v is None for v in vs):
        return None
    return "run_case %s %s" % (_net(case.get("net", {})), clist(vs))


# ------------------------------------------------------------------ property oracle (independent of the model)

def _valid_strings_domain(edges):
    for rule, l, r in edges.values():
        if not VALID_RULE.match(rule):
            return False
        for s in list(l) + list(r):
            if not VALID_LABEL.match(s):
                return False
    return True


def _occurring(edges):
    occ = set()
    for _, l, r in edges.values():
        occ |= set(l) | set(r)
    return occ


def _names_ok(fl, H, edges):
    """Un-prefixed / custom-prefixed string node ids: a species node and a reaction node must not get the same id."""
    if fl["int"]:
        return True
    spn = {(fl["sp"] if fl["sp"] is not None else "") + s for s in H.species}
    rxn = {(fl["rp"] if fl["rp"] is not None else "") + e for e in edges}
    return not (spn & rxn)


def oracle(case):
    from collections import Counter
    from synkit.CRN.Hypergraph import conversion as cv
    fails = []
    if "net" not in case:
        return fails
    for vi, v in enumerate(case["views"]):
        H = build(case["net"])
        edges = _edges_of(H)
        mol = dict(H.species_to_mol)
        occ = _occurring(edges)
        k = v[0]
        if k == "bip":
            _, fl, do_imp, mol_attr = v
            # the flag combinations that claim invertibility: ids and coefficients are exported
            if not (do_imp and fl["eid"] and fl["st"]):
                continue
            clash = not _names_ok(fl, H, edges)     # un-prefixed string ids: a species label equals a reaction id (known finding)
            try:
                H2 = cv.bipartite_to_hypergraph(_export_bip(H, fl), mol_attr=("mol" if mol_attr else None))
                e2 = _edges_of(H2)
                got = dict(H2.species_to_mol)
            except (KeyError, ValueError) as ex:
                e2, got = "raised %r" % (ex,), {}
            bad = []
            if e2 != edges:
                bad.append(dict(clause="bipartite-roundtrip", detail="view %d %r: reactions %r came back as %r" % (vi, fl, edges, e2)))
            elif fl["mol"] and mol_attr:
                # every label of a species that occurs in a reaction comes back, and nothing is invented
                # (a label on a kept, reaction-less species may or may not survive: the property is about reactions)
                want = {s: m for s, m in mol.items() if s in occ}
                if any(got.get(s, None) != m or s not in got for s, m in want.items()) or any(s not in mol or mol[s] != m for s, m in got.items()):
                    bad.append(dict(clause="bipartite-mol", detail="view %d %r: molecule labels %r came back as %r"
                                    % (vi, fl, want, got)))
            for b in bad:
                if clash:
                    b["key"] = KEY_NAME_CLASH
                fails.append(b)
        elif k == "str":
            _, inc_rule, inc_id, srt, dr, ps, pf = v
            if not (inc_rule and ps):
                continue
            in_domain = _valid_strings_domain(edges)   # outside it the text format is ambiguous (known finding)
            lines = cv.hypergraph_to_rxn_strings(H, include_rule_suffix=inc_rule, include_edge_id=inc_id, sort=srt)
            a = Counter(repr((r, sorted(l.items()), sorted(p.items()))) for r, l, p in edges.values())
            try:
                H2 = cv.rxns_to_hypergraph(lines, default_rule=dr, parse_rule_from_suffix=ps, prefer_suffix=pf)
                back = _edges_of(H2)
                b = Counter(repr((r, sorted(l.items()), sorted(p.items()))) for r, l, p in back.values())
            except (KeyError, ValueError, IndexError) as ex:
                back, b = "raised %r" % (ex,), None
            if a != b:
                f = dict(clause="strings-roundtrip", detail="view %d: %r printed as %r parsed as %r" % (vi, edges, lines, back))
                if not in_domain:
                    f["key"] = KEY_LABEL_DOMAIN
                fails.append(f)
        elif k == "sg":
            if not all(l and r for _, l, r in edges.values()):
                continue
            H2 = cv.species_graph_to_hypergraph(cv.hypergraph_to_species_graph(H, include_mol=v[1]), mol_attr=("mol" if v[2] else None))
            a = {e: (l, r) for e, (_, l, r) in edges.items()}
            b = {e: (l, r) for e, (_, l, r) in _edges_of(H2).items()}
            if a != b:
                fails.append(dict(clause="species-graph-roundtrip", detail="view %d: %r came back as %r" % (vi, a, b)))
    return fails[:6]


def shrink(case, fl):
    """Drop reactions / views while the oracle still fails."""
    cur = case
    changed = True
    while changed:
        changed = False
        net = cur["net"]
        cands = []
        for i in range(len(net["rxns"])):
            cands.append(dict(cur, net=dict(net, rxns=net["rxns"][:i] + net["rxns"][i + 1:])))
        for i in range(len(cur["views"])):
            if len(cur["views"]) > 1:
                cands.append(dict(cur, views=cur["views"][:i] + cur["views"][i + 1:]))
        if net.get("mol"):
            cands.append(dict(cur, net=dict(net, mol=[])))
        if net.get("kept"):
            cands.append(dict(cur, net=dict(net, kept=[])))
        for c in cands:
            try:
                if oracle(c):
                    cur = c
                    changed = True
                    break
            except Exception:
                pass
    return dict(cur, name=case.get("name", "") + "(shrunk)")


def neighbours(case, rng):
    if "net" not in case:
        return []
    out = []
    net = case["net"]
    for v in case["views"]:
        out.append(dict(case, views=[v], name="one-view"))
    for i in range(len(net.get("rxns", []))):
        out.append(dict(case, net=dict(net, rxns=[net["rxns"][i]]), name="one-rxn"))
    return out


def nontrivial(case, obs):
    if case.get("net", {}).get("rxns"):
        return any(isinstance(o, list) and len(o) == 2 and isinstance(o[1], list) and o[1] and o[1][0] == 0 for o in obs[1:-1])
    return any(isinstance(o, list) and len(o) == 2 and o[0] == 0 and o[1] for o in obs[1:-1])


def distribution(cases, obss):
    d = dict(views={}, n_rxns={}, n_species={}, bip_flag_combos=set(), invertible_bip_views=0, import_results={"ok": 0, "error": 0},
             nets_with_catalyst=0, nets_with_repeated_reaction=0, nets_with_source_or_sink=0, nets_with_multidigit_coeff=0,
             nets_with_kept_species=0, nets_with_mol=0, nets_outside_label_domain=0, nets_with_name_collision=0,
             fuzz_texts=0, fuzz_errors=0, max_coeff=0)
    for c, obs in zip(cases, obss):
        net = c.get("net", {})
        rx = net.get("rxns", [])
        if rx:
            d["n_rxns"][len(rx)] = d["n_rxns"].get(len(rx), 0) + 1
            sp = set()
            seen = set()
            cat = rep = ss = md = bad = False
            ids = set()
            for e, rule, l, r in rx:
                ls = {s for s, k in l if k > 0}
                rs = {s for s, k in r if k > 0}
                sp |= ls | rs
                cat |= bool(ls & rs)
                ss |= (not ls) or (not rs)
                key = repr((sorted(map(tuple, l)), sorted(map(tuple, r))))
                rep |= key in seen
                seen.add(key)
                for s, k in l + r:
                    md |= k >= 10
                    d["max_coeff"] = max(d["max_coeff"], k)
                    bad |= not VALID_LABEL.match(s)
                bad |= not VALID_RULE.match(rule or "r")
                if e is not None:
                    ids.add(e)
            d["n_species"][len(sp)] = d["n_species"].get(len(sp), 0) + 1
            d["nets_with_catalyst"] += cat
            d["nets_with_repeated_reaction"] += rep
            d["nets_with_source_or_sink"] += ss
            d["nets_with_multidigit_coeff"] += md
            d["nets_outside_label_domain"] += bad
            d["nets_with_name_collision"] += bool(ids & sp)
        d["nets_with_kept_species"] += bool(net.get("kept"))
        d["nets_with_mol"] += bool(net.get("mol"))
        for v, o in zip(c["views"], obs[1:] if isinstance(obs, list) else []):
            d["views"][v[0]] = d["views"].get(v[0], 0) + 1
            if v[0] == "bip":
                fl = v[1]
                d["bip_flag_combos"].add(repr(sorted(fl.items())))
                if fl["eid"] and fl["st"] and v[2]:
                    d["invertible_bip_views"] += 1
            if v[0] in ("side", "line", "parse"):
                d["fuzz_texts"] += 1
                d["fuzz_errors"] += (isinstance(o, list) and o and o[0] != 0)
            elif isinstance(o, list) and len(o) == 2 and isinstance(o[1], list) and o[1]:
                d["import_results"]["ok" if o[1][0] == 0 else "error"] += 1
    d["bip_flag_combos"] = len(d["bip_flag_combos"])
    d["n_rxns"] = {str(k): v for k, v in sorted(d["n_rxns"].items())}
    d["n_species"] = {str(k): v for k, v in sorted(d["n_species"].items())}
    return d


# ------------------------------------------------------------------ generators

LABEL_TRIPLES = [("A", "B", "C"), ("F2", "G_1", "Cl2"), ("a", "Bb", "c9"), ("H2O", "OH", "H"), ("X_", "Y__2", "e5"),
                 ("r", "R", "S"), ("Na", "N", "a"), ("A1", "A", "A11"),
                 # SMILES / formula labels (non-word characters) inside the label domain of the strings theorem
                 ("CC(=O)O", "C#C", "Fe(OH)3"), ("c1ccccc1", "C=O", "C[C@H](N)C(=O)O"), ("N.N", "C-C", "O=C=O"),
                 ("CC(=O)O", "CC(=O)OC", "C")]
RULES2 = [("r", "R2"), ("R1", "R2"), ("k_f", "k_r"), ("r", "r_1")]
PREFIXES = [("S:", "R:"), (None, None), ("", "R:"), ("sp/", "rx/"), ("S:", None)]


def bflags(sp="S:", rp="R:", bv=(0, 1), st=True, ro=True, iso=True, int_=False, eid=True, mol=True):
    return dict(sp=sp, rp=rp, bv=list(bv), st=st, ro=ro, iso=iso, int=int_, eid=eid, mol=mol)


def _invertible_flags(rng):
    sp, rp = rng.choice(PREFIXES)
    return bflags(sp=sp, rp=rp, bv=rng.choice([(0, 1), (0, 1), (5, 7)]), st=True, ro=rng.random() < 0.5, iso=rng.random() < 0.5,
                  int_=rng.random() < 0.5, eid=True, mol=rng.random() < 0.7)


def _std_views(rng):
    return [["bip", _invertible_flags(rng), True, rng.random() < 0.85],
            ["str", True, rng.random() < 0.3, rng.random() < 0.7, rng.choice(["r", "dflt"]), True, rng.random() < 0.3],
            ["sg", rng.random() < 0.7, rng.random() < 0.85]]


def complexes():
    c = [[], [[0, 1]], [[1, 1]], [[2, 1]], [[0, 2]], [[1, 2]], [[2, 2]], [[0, 1], [1, 1]], [[0, 1], [2, 1]], [[1, 1], [2, 1]]]
    return c


def small_reactions():
    cs_ = complexes()
    return [(a, b) for a in cs_ for b in cs_ if a != b]          # 90 ordered pairs of distinct complexes


def _small_net(rng, rxs):
    labs = rng.choice(LABEL_TRIPLES)
    rules = rng.choice(RULES2)
    out = []
    for (l, r) in rxs:
        out.append([None, rng.choice(rules), [[labs[i], k * rng.choice([1, 2, 3, 12])] for i, k in l],
                    [[labs[i], k * rng.choice([1, 2, 3, 12])] for i, k in r]])
    mol = [[labs[i], "m%d" % i] for i in range(3) if rng.random() < 0.4]
    return dict(kept=[], rxns=out, mol=mol)


SPECIES_POOL = ["A", "B", "C", "D", "E", "F2", "G_1", "Cl2", "H2O", "e5", "Na", "x", "Y_", "r", "R1",
                "CC(=O)O", "C#C", "Fe(OH)3", "c1ccccc1", "C=O", "C[C@@H](O)C", "N.N", "C-C", "O=C=O", "CC(C)(C)O"]
ADV_LABELS = ["[OH-]", "[Na+]", "Na+", "(C)", "=O", "#N", "@x", ".A", "-B", "[C@H]", "_x", "2A", "A B", "A+B", "r_1", "r_2", "R2_1", "S:A", "R:r_1", "x|y", "a>>b", "3", "A*", "-", "rule=z", "1_0", " A"]
RULE_POOL = ["r", "R1", "R2", "k_f", "q_1", "", "r_1"]
ADV_RULES = ["a b", "x|y", "rule=q", "id=3", "7"]
COEFFS = [1, 1, 1, 1, 1, 2, 2, 2, 3, 3, 12, 36, 100, 1000, 7, 4096, 1234567]


def _rand_net(rng, nsp=None, nrx=None, adversarial=False):
    nsp = nsp or rng.randint(1, 8)
    nrx = nrx if nrx is not None else rng.randint(1, 10)
    pool = rng.sample(SPECIES_POOL, min(nsp, len(SPECIES_POOL)))
    if adversarial:
        for _ in range(rng.randint(1, 2)):
            pool[rng.randrange(len(pool))] = rng.choice(ADV_LABELS)
    rules = rng.sample(RULE_POOL, rng.randint(1, 3)) + ([rng.choice(ADV_RULES)] if adversarial and rng.random() < 0.3 else [])
    rxns = []
    used = set()
    for _ in range(nrx):
        z = rng.random()
        if rxns and z < 0.12:                         # repeated reaction (same sides, new id)
            _, _, l, r = rng.choice(rxns)
            l, r = [list(p) for p in l], [list(p) for p in r]
        else:
            nl = rng.choice([0, 1, 1, 2, 2, 3])
            nr_ = rng.choice([0, 1, 1, 2, 2, 3])
            if nl == 0 and nr_ == 0:
                nr_ = 1
            l = [[s, rng.choice(COEFFS)] for s in rng.sample(pool, min(nl, len(pool)))]
            r = [[s, rng.choice(COEFFS)] for s in rng.sample(pool, min(nr_, len(pool)))]
            if l and rng.random() < 0.25:             # catalyst: a reactant species also on the product side
                s = rng.choice(l)[0]
                if all(p[0] != s for p in r):
                    r.append([s, rng.choice(COEFFS)])
            if rng.random() < 0.06 and l:             # duplicated / zero / negative entries are normalised by RXNSide
                l.append([l[0][0], rng.choice([1, 0, -2])])
        rule = rng.choice(rules)
        z = rng.random()
        if z < 0.6:
            eid = None
        else:
            eid = rng.choice(["x", "e%d" % len(rxns), "%s_%d" % (rule or "r", rng.randint(1, 3)), "r_10", "R:r_1", "S:A"]
                             + ([rng.choice(pool)] if adversarial else []))
            if eid in used:
                eid = None
        if eid is not None:
            used.add(eid)
        rxns.append([eid, rule, l, r])
    kept = [rng.choice(["K", "K2", "Zz"])] if rng.random() < 0.15 else []
    cand = pool + kept
    mol = [[s, rng.choice(["CCO", "m1", "O=C=O", "mol 2", "[H+]"])] for s in cand if rng.random() < 0.3]
    return dict(kept=kept, rxns=rxns, mol=mol)


def _all_bip_views(sp, rp, int_, bv):
    vs = []
    for st, ro, iso, eid, mol in itertools.product([True, False], repeat=5):
        fl = bflags(sp=sp, rp=rp, bv=bv, st=st, ro=ro, iso=iso, int_=int_, eid=eid, mol=mol)
        vs.append(["bip", fl, bool(eid), True])
    return vs


SIDE_ALPHA = "A20 +*_"
FUZZ_ALPHA = ["A", "b", "Cl2", "2", "10", "0", "1", " ", " ", "+", " + ", "*", "_", "-", "∅", "\t", "\x1c", "3 ", "x_1", "|", ">", "="]
LINE_PIECES = ["A", "2A", "2 B", "3*C", "Cl2", "12Cl2", "∅", "", " ", "+", " + ", ">>", " >> ", ">", "|", " | ", "rule=", "rule =", "rule",
               "R1", "r", "id=", "id=r_1", "x y", "0B", "_x", "2_x", "1_0 D", "-1 E", "*", "\t"]


def _fuzz_text(rng, alpha, maxlen):
    return "".join(rng.choice(alpha) for _ in range(rng.randint(0, maxlen)))


def _fuzz_line(rng):
    z = rng.random()
    if z < 0.5:
        # near-valid line with perturbations
        def side():
            n = rng.choice([0, 1, 1, 2, 3])
            if n == 0:
                return rng.choice(["∅", "", " "])
            parts = []
            for _ in range(n):
                c = rng.choice(["", "", "2", "12", "2 ", "3*", "0", "1_0 ", "-2 ", "007"])
                parts.append(c + rng.choice(["A", "B", "Cl2", "G_1", "_x", "e5", "x y", "3"]))
            return rng.choice([" + ", "+", " +", "+ +"]).join(parts)
        line = side() + rng.choice([" >> ", ">>", " >>", ">> ", ">", " >>> "]) + side()
        if rng.random() < 0.7:
            line += rng.choice([" | ", "|", " |", "| ", " || "]) + rng.choice(["rule=", "rule =", "rule= ", "rule", "rules=", "id=z rule=", ""]) \
                + rng.choice(["R1", "r", "a b", "", "x|y", "R1 id=r_3", "rule=q"])
        return line
    return "".join(rng.choice(LINE_PIECES) for _ in range(rng.randint(1, 9)))


def gen_cases(tier, rng):
    cases = []
    quick = tier == "quick"
    R = small_reactions()
    # ---- exhaustive small scope: every set of <= 2 (quick) / <= 3 (thorough) of the 90 reactions
    for k in range(0, 3 if quick else 4):
        for idx in itertools.combinations(range(len(R)), k):
            net = _small_net(rng, [R[i] for i in idx])
            vs = _std_views(rng)
            if (quick and k == 2) or k == 3:
                # the largest sets of a tier (pairs in quick, triples in thorough) are all generated but go through ONE of the
                # three views each (rotating); smaller sets go through all three
                vs = [vs[len(cases) % 3]]
            cases.append(dict(kind="exh-small-%d" % k, net=net, views=vs))
    # ---- pure catalysts: a species with the same coefficient on both sides that is the ONLY species on one side
    #      (its self-arc is the only carrier of that side in the species graph), plus ordinary catalysis for contrast
    cat_labels = [("S", "E", "P"), ("CC(=O)O", "Fe(OH)3", "C#C")]
    for (S_, E_, P_) in cat_labels:
        for c in (1, 2, 12):
            for rx in ([[S_, 1], [E_, c]], [[E_, c]]), ([[E_, c]], [[E_, c], [P_, 2]]), ([[S_, 3], [E_, c]], [[E_, c]]), \
                      ([[E_, c]], [[E_, c]]), ([[S_, 1], [E_, c]], [[P_, 1], [E_, c]]), ([[E_, c]], [[E_, c + 1]]):
                net = dict(kept=[], rxns=[[None, "r", rx[0], rx[1]], [None, "q", [[S_, 2]], [[P_, c]]]], mol=[[E_, "enz"]])
                cases.append(dict(kind="pure-catalyst", net=net, views=_std_views(rng)))
    # ---- many reactions under one rule: generated ids r_10.. (sorted as strings before r_2), two-digit integer node ids
    for t in range(12 if quick else 60):
        net = _rand_net(rng, nsp=rng.randint(6, 10), nrx=rng.randint(11, 15))
        for q in net["rxns"]:
            q[1] = "r"
        cases.append(dict(kind="many-ids", net=net, views=_std_views(rng)))
    # ---- every bipartite flag combination on a few networks (string and integer ids, each prefix pair)
    nsweep = 4 if quick else 16
    for t in range(nsweep):
        net = _rand_net(rng, nsp=rng.randint(2, 5), nrx=rng.randint(1, 4))
        for (sp, rp) in PREFIXES:
            for int_ in (False, True):
                if int_ and (sp, rp) != ("S:", "R:"):
                    continue
                cases.append(dict(kind="flag-sweep", net=net, views=_all_bip_views(sp, rp, int_, (0, 1) if t % 2 == 0 else (5, 7))))
        svs = []
        for inc_rule, inc_id, srt, ps, pf in itertools.product([True, False], repeat=5):
            svs.append(["str", inc_rule, inc_id, srt, "dflt", ps, pf])
        svs += [["sg", a, b] for a in (True, False) for b in (True, False)]
        cases.append(dict(kind="flag-sweep", net=net, views=svs))
    # ---- seeded random networks
    for t in range(500 if quick else 6000):
        cases.append(dict(kind="random", net=_rand_net(rng), views=_std_views(rng)))
    # ---- adversarial labels / ids / rules (outside the string domain, colliding node names): correspondence only
    for t in range(200 if quick else 2500):
        net = _rand_net(rng, nsp=rng.randint(1, 5), nrx=rng.randint(1, 4), adversarial=True)
        vs = _std_views(rng)
        vs[0][1]["sp"], vs[0][1]["rp"] = rng.choice([(None, None), (None, None), ("S:", None), ("", "")])
        vs[0][1]["int"] = False
        cases.append(dict(kind="adversarial", net=net, views=vs))
    # ---- RXNSide.from_str: every short text over a small alphabet + random longer ones
    texts = [""]
    for n in range(1, 5 if quick else 6):
        texts += ["".join(t) for t in itertools.product(SIDE_ALPHA, repeat=n)]
    B = 40
    for i in range(0, len(texts), B):
        cases.append(dict(kind="exh-side", views=[["side", t] for t in texts[i:i + B]]))
    for t in range(60 if quick else 600):
        cases.append(dict(kind="fuzz-side", views=[["side", _fuzz_text(rng, FUZZ_ALPHA, 9)] for _ in range(B)]))
    # ---- add_rxn_from_str / parse_rxns on fuzzed lines
    for t in range(60 if quick else 600):
        vs = []
        for _ in range(20):
            vs.append(["line", _fuzz_line(rng), rng.choice([None, None, "Rx"]), rng.random() < 0.8])
        for _ in range(4):
            vs.append(["parse", [_fuzz_line(rng) for _ in range(rng.randint(0, 4))], rng.choice(["r", "dflt"]), rng.random() < 0.7,
                       rng.random() < 0.5])
        cases.append(dict(kind="fuzz-line", views=vs))
    return cases


LEVEL_TEXT = ("Machine-checked proof (Coq, axiom-free) over an executable model of the three view converters, for ALL networks "
              "satisfying a decidable well-formedness predicate wf16 that the store invariant of C15 implies (C16_inv_wf): "
              "(1) C16_bipartite_roundtrip: bipartite export with edge ids and coefficients (string node ids with any prefix pair that "
              "causes no species/reaction name clash - in particular the defaults, C16_default_prefixes_ok - or integer node ids; all "
              "other flags free) followed by import with any import flags raises no error and returns the same id -> (rule, "
              "reactants, products) map, the occurring species, and exactly their molecule labels; "
              "(2) C16_strings_roundtrip (+ C16_side_roundtrip: RXNSide.from_str inverts the side printer, decimal coefficients of any "
              "size): printing with the rule suffix and parsing back returns the same multiset of (rule, reactants, products) for "
              "labels [A-Za-z][^\\s+*|>]* (a letter, then anything but white space and the separators + * | >: identifiers, formulae, "
              "SMILES-like labels such as CC(=O)O, C#C, Fe(OH)3) and blank-free rules; C16_label_domain_refuted shows a restriction is necessary "
              "(known finding); (3) C16_species_graph_roundtrip: for every network whose reactions all have reactants and products, "
              "collapse + reconstruction returns the same ids with the same reactant and product coefficient maps, including when "
              "several reactions share a species pair. The model is tied to the Python code by comparing, on every run, the "
              "intermediate view (all nodes, arcs and attributes, or the printed lines) and the reconstructed network for thousands of "
              "generated networks and flag combinations (exhaustive small scope + random + adversarial + fuzzed parser input).")
LEVEL_NOTE = ("Trusted: Coq kernel + vm_compute, std++; the hand-written model (C16_Model.v on C15_Model.v) and the harness encoders; "
              "networkx DiGraph attribute-merge semantics; CPython str/re/int on ASCII text. Not claimed: rules after a species-graph "
              "round trip (merged rule sets, arbitrary pick), insertion order and labels of reaction-less kept species after the graph "
              "round trips, imports of graphs without id attributes (ids synthesised from hash(): outside the model). Two known "
              "findings outside the stated preconditions are reported by key (label domain of the text format; un-prefixed node-name clash).")
TECHNIQUE = "Coq proof over a Gallina model (std++ gmap/gset) + per-run correspondence (vm_compute digest vs implementation) + Python oracle"
DESIGN_REF = "DESIGN.md section 5 C16, Appendix A.3; notes/C16.md"
