"""C16 — network views (bipartite graph, reaction strings, species graph) round-trip exactly.

case = {"kind": ..., "net": NET, "views": [VIEW, ...]}
NET  = {"kept": [label, ...],                      isolated species kept with remove_species(prune_orphans=False)
        "rxns": [[id|None, rule, lhs, rhs], ...],  lhs/rhs = [[label, count], ...] (iterable-of-pairs form)
        "mol":  [[label, mol], ...]}
VIEW = ["bip", FLAGS, do_import, import_mol_attr]          FLAGS = dict sp rp bv st ro iso int eid mol
       ["str", include_rule_suffix, include_edge_id, sort, default_rule, parse_rule_from_suffix, prefer_suffix]
       ["sg", include_mol, import_mol_attr]
       ["side", text]                                       RXNSide.from_str on arbitrary text
       ["line", text, rule|None, parse_rule_from_suffix]    CRNHyperGraph().add_rxn_from_str
       ["parse", [text, ...], default_rule, parse_rule_from_suffix, prefer_suffix]   rxns_to_hypergraph

case = {"kind": "undirected", "views": [], "ugraphs": [[{"multi": bool, "nodes": [[id, attrs], ...], "edges": [[u, v, attrs], ...]}, import_mol_attr, IMPORT_OPTS], ...]}
       conversion._as_bipartite on an undirected networkx Graph / MultiGraph built from the lists in the order given (round 5)
case = {"kind": "parse-into", "net": NET, "views": [], "batches": [[form, [[line, rule|None], ...], default_rule, parse_suffix, prefer_suffix], ...]}
       parse_rxns on a network that already holds reactions, batch after batch on the same object (round 5)
case = {"kind": "sg-edit", "net": NET, "views": [], "sviews": [[include_mol, SDROPS, import_mol_attr, default_rule], ...]}   (round 5)
       the same for the species graph (SDROPS = dict label kind mol rules rmap pmap legr legp)
case = {"kind": "bip-edit", "net": NET, "views": [], "dviews": [[FLAGS, DROPS, import_mol_attr, IMPORT_OPTS], ...]}   (round 5)
       export, then the caller DELETES attributes from the exported graph (DROPS = dict ksp krx lsp lrx st ro mol mk: kind / label on
       species / reaction nodes, stoich / role on arcs, mol / bipartite marker on nodes), then import with IMPORT_OPTS = dict isp irp dr

Observable per view: the INTERMEDIATE view (graph nodes/arcs with every attribute, or the printed lines) and the
reconstructed network (species, id -> (rule, lhs, rhs), insertion order, both indices, molecule labels) or the error.
"""
import itertools
import re

from ..coqrun import cZ, cbool, clist, cpair, copt
from ..tok import S

PID = "C16"
COQ_HEADER = ("From stdpp Require Import gmap strings.\n"
              "From SK Require Import lib.Tok model.C15_Model model.C16_Model model.C16_Edit model.C16_Undirected.\n"
              "Local Open Scope string_scope.\n")
SHARD = 120                    # re-computed by gen_cases: see _set_shard
IMPL_TIMEOUT = 1500
COQ_TIMEOUT = 3000
RULE = ("a case = one reaction network (list of reactions with ids, rules, coefficient maps; molecule labels; kept isolated "
        "species) + a list of views to round-trip (bipartite export flags / string printer+parser flags / species graph), or a "
        "batch of fuzzed texts for RXNSide.from_str / add_rxn_from_str / parse_rxns, or (kinds bip-edit / sg-edit) a list of "
        "export -> delete attributes from the exported graph -> import steps; non-trivial = at least one reaction and at "
        "least one round trip whose reconstruction succeeded, or a fuzz batch with at least one successfully parsed non-empty side; "
        "distinct = distinct (network, views) JSON")
EXHAUSTIVE = {"quick": True, "thorough": True}
EXPLANATION = ("Exhaustive sub-spaces: every set of <=2 reactions out of the 90 reactions between the 10 "
               "complexes of molecularity <=2 over 3 species, in the thorough tier also every set of 3 of the 30 reactions over 2 species "
               "(plus a seeded sample of 12 000 triples of the 90) (coefficients scaled by PRNG factors from {1,2,3,12}, 2 rule names, PRNG "
               "label triple and flag combination per network; in the quick tier a pair goes through one of the three "
               "views, in rotation, everything else through all three); every text of length <=4 (quick) / <=5 (thorough) over the alphabet "
               "{A,2,0,space,+,*,_} through RXNSide.from_str; every bipartite export flag combination on a fixed set of networks. "
               "Round 5: imports of exported graphs after the caller deleted attributes (kind / label per node class, stoich, role, mol, marker; "
               "for the species graph label / kind / mol / rules / per-reaction maps / legacy values): the importers' fall-backs on real exports. "
               "Everything else (random networks <=8 species / 10 reactions, fuzzed reaction lines, adversarial labels) is seeded random. "
               "Theorems: see coq/props/C16.v (round trips proved for all networks satisfying the stated decidable preconditions).")
TRUSTED_BASE = [
    "Coq 8.16.1 kernel + vm_compute (no native_compute)",
    "std++ 1.8.0 gmap/gset/pretty (axiom-free)",
    "hand-written model coq/model/C16_Model.v + coq/model/C16_Edit.v + coq/model/C16_Undirected.v (+ the store model C15_Model.v they build on) tied to "
    "synkit/CRN/Hypergraph/{conversion,rxn,hypergraph}.py by the per-run correspondence",
    "harness encoders harness/props/C16.py (network / flags -> Gallina literal; nx graphs, strings, networks -> tok)",
    "networkx DiGraph add_node/add_edge attribute-merge semantics, in_edges/out_edges; CPython str.strip/split/replace, "
    "re (\\d, \\s, [^\\s]) and int() on ASCII text",
]
ASSUMPTIONS = [
    "labels, ids, rules, molecule labels are ASCII strings (Python str methods and re classes treat further Unicode code points "
    "as digits/whitespace; the only non-ASCII text is the printer's own empty-side sign U+2205, modelled as its UTF-8 bytes)",
    "bipartite_to_hypergraph / species_graph_to_hypergraph are modelled on graphs that carry the edge-id attribute / via sets: where "
    "the code has to synthesise an id from hash() for a reaction it stores, or (species graph without per-reaction maps) keeps the first "
    "of several different coefficients in arc-iteration order, the model reports EUnmodelled and the adapter reports the same code 9 "
    "(it detects the synthesised id / the order dependence on the graph it passes in)",
    "species_graph_to_hypergraph picks next(iter(rules)) from a Python set: modelled as an arbitrary choice function, "
    "observed only when the merged rule set is a singleton (membership checked otherwise)",
]
TESTED_NOT_PROVED = [
    "behaviour of the flag combinations that do not export ids, of edited graphs outside the premises of the two *_edited theorems "
    "(deleted coefficients / roles, prefixes that do not separate the node classes, integer ids without kind), of RXNSide.from_str / add_rxn_from_str / parse_rxns on "
    "arbitrary (non-printed) text, and of all converters outside the theorem preconditions: model = implementation on every generated case",
    "rule names after a species-graph round trip (membership in the merged rule set is compared, not proved)",
]

ERR = {"KeyError": 1, "ValueError": 2, "IndexError": 4}
KEY_LABEL_DOMAIN = "C16:strings-label-domain"        # known_findings.d/C16.json
KEY_NAME_CLASH = "C16:bipartite-name-clash"
VALID_LABEL = re.compile(r"[A-Za-z][!-),-=?-{}~]*\Z")   # PRINTABLE ASCII instance of valid_label of coq/proof/C16_Defs.v (which also admits control characters / DEL: narrower here, the harmless direction)
VALID_RULE = re.compile(r"[!-~]+\Z")          # non-empty, printable ASCII without blank


# ------------------------------------------------------------------ implementation adapter

def _molval(m):
    """molecule label spec -> Python value: a plain str, or a tagged non-string value (labels are 'Any' in the API)."""
    if isinstance(m, str):
        return m
    t = m[0]
    if t == "i":
        return int(m[1])
    if t == "f":
        return float(m[1])
    if t == "b":
        return bool(m[1])
    if t == "t":
        return tuple(m[1])
    if t == "n":
        return None
    raise AssertionError(m)


def _molenc(v):
    """injective text form of a molecule label (the model carries labels as opaque strings)"""
    if isinstance(v, str):
        return "s:" + v
    if isinstance(v, bool):
        return "b:%r" % v
    if isinstance(v, int):
        return "i:%d" % v
    if isinstance(v, float):
        return "f:%r" % v
    if isinstance(v, tuple):
        return "t:%r" % (v,)
    if v is None:
        return "n:"
    return "?:%r" % (v,)


def _apply_edit(H, ed):
    try:
        k = ed[0]
        if k == "add":
            H.add_rxn([tuple(p) for p in ed[3]], [tuple(p) for p in ed[4]], rule=(ed[2] or None), edge_id=ed[1])
        elif k == "rm_rxn":
            H.remove_rxn(ed[1])
        elif k == "rm_sp":
            H.remove_species(ed[1], prune_orphans=ed[2])
        elif k == "mol":
            H.assign_mol(ed[1], _molval(ed[2]))
        elif k == "molmap":
            H.set_mol_map({a: _molval(b) for a, b in ed[1]}, strict=ed[2], clear_existing=ed[3])
        elif k == "merge":
            H.merge(build(ed[1]), prefix_edges=ed[2])
        else:
            raise AssertionError(ed)
    except (KeyError, ValueError):
        pass


def build(net, edits=()):
    from synkit.CRN.Hypergraph.hypergraph import CRNHyperGraph
    H = CRNHyperGraph()
    for x in net.get("kept", []):
        try:
            H.add_rxn([(x, 1)], [], rule="k", edge_id="__k")
            H.remove_species(x, prune_orphans=False)
        except (KeyError, ValueError):
            pass
    for eid, rule, l, r in net.get("rxns", []):
        try:
            H.add_rxn([tuple(p) for p in l], [tuple(p) for p in r], rule=(rule or None), edge_id=eid)
        except (KeyError, ValueError):
            pass
    for s, m in net.get("mol", []):
        try:
            H.assign_mol(s, _molval(m))
        except KeyError:
            pass
    for ed in edits:
        _apply_edit(H, ed)
    return H


def _scramble(objs):
    """The caller edits what earlier calls returned (networks, sides, graphs, line lists) in place.  Nothing returned by a
    converter may share state with the source network, with a cache, or with a later result."""
    import networkx as nx
    from synkit.CRN.Hypergraph.hypergraph import CRNHyperGraph
    from synkit.CRN.Hypergraph.rxn import RXNSide
    for o in objs:
        try:
            if isinstance(o, CRNHyperGraph):
                for e in list(o.edges.values()):
                    for side in (e.reactants, e.products):
                        ks = sorted(side.keys())
                        if ks:
                            side[ks[0]] = side[ks[0]] + 5
                        side["__z"] = 3
                sp = sorted(o.species)
                if sp:
                    o.remove_species(sp[0])
                o.species_to_mol.clear()
                for x in sorted(o.species)[:1]:
                    o.species_to_mol[x] = "__m"
                if o.edges:
                    o.remove_rxn(sorted(o.edges)[0])
            elif isinstance(o, RXNSide):
                ks = sorted(o.keys())
                if ks:
                    o[ks[0]] = o[ks[0]] + 5
                o["__z"] = 3
            elif isinstance(o, nx.Graph):
                for n, d in o.nodes(data=True):
                    for k in list(d):
                        if isinstance(d[k], str):
                            d[k] = d[k] + "~"
                    d["mol"] = "__m"
                for u, v, d in o.edges(data=True):
                    for k, val in list(d.items()):
                        if isinstance(val, set):
                            val.add("__z")
                        elif isinstance(val, dict):
                            val["__z"] = 9
                            for kk in list(val)[:1]:
                                val[kk] = 77
                        elif isinstance(val, int):
                            d[k] = val + 7
                ns = list(o.nodes)
                if ns:
                    o.remove_node(ns[0])
            elif isinstance(o, list):
                del o[:]
        except (KeyError, ValueError):
            pass


def _edges_of(H):
    return {k: (e.rule, dict(e.reactants.to_dict()), dict(e.products.to_dict())) for k, e in H.edges.items()}


def _net_obs(H, rule_of=None, sort_order=False):
    rule_of = rule_of or (lambda k, e: e.rule)
    return [
        S(sorted(H.species)),
        S([[k, rule_of(k, e), dict(e.reactants.to_dict()), dict(e.products.to_dict())] for k, e in H.edges.items()]),
        sorted(H.edges.keys()) if sort_order else list(H.edges.keys()),
        S([[k, S(sorted(v))] for k, v in H.species_to_in_edges.items()]),
        S([[k, S(sorted(v))] for k, v in H.species_to_out_edges.items()]),
        S([[k, _molenc(v)] for k, v in H.species_to_mol.items()]),
    ]


def _guard(f):
    try:
        return [0, f()]
    except KeyError:
        return [1]
    except ValueError:
        return [2]
    except IndexError:
        return [4]


def _opt(d, k):
    return [d[k]] if k in d else []


def _bvenc(v):
    """The networkx `bipartite` marker is an opaque node attribute (any hashable).  Model: an integer code.  bool -> 0/1 (Python
    itself identifies True with 1: `True == 1`, same hash), int -> itself, str -> a code above 10^6 computed from its bytes."""
    if isinstance(v, bool):
        return int(v)
    if isinstance(v, int):
        return v
    if isinstance(v, str):
        return 10 ** 6 + int.from_bytes(v.encode("utf-8"), "big")
    raise AssertionError(v)


def _optbv(d):
    return [_bvenc(d["bipartite"])] if "bipartite" in d else []


def _optmol(d):
    return [_molenc(d["mol"])] if "mol" in d else []


def _nid(n):
    return [0, n] if isinstance(n, int) else [1, n]


def _bip_obs(G):
    nodes = [[_nid(n), _optbv(d), _opt(d, "label"), _opt(d, "kind"), _optmol(d), _opt(d, "edge_id")]
             for n, d in G.nodes(data=True)]
    arcs = [[_nid(u), _nid(v), _opt(d, "stoich"), _opt(d, "role")] for u, v, d in G.edges(data=True)]
    return [S(nodes), S(arcs)]


def _sg_obs(G):
    nodes = [[n, _opt(d, "label"), _opt(d, "kind"), _optmol(d)] for n, d in G.nodes(data=True)]
    arcs = [[u, v, S(sorted(d["via"])), S(sorted(d["rules"])), int(d["stoich_r"]), int(d["stoich_p"]),
             {k: int(c) for k, c in d["stoich_r_map"].items()}, {k: int(c) for k, c in d["stoich_p_map"].items()}]
            for u, v, d in G.edges(data=True)]
    return [S(nodes), S(arcs)]


def _import_kwargs(v):
    """keyword arguments of bipartite_to_hypergraph for a "bip" view: mol_attr, and (optional 5th element) non-default
    species_prefix / reaction_prefix / default_rule — irrelevant for exported graphs, whose nodes carry `kind`"""
    kw = {"mol_attr": ("mol" if v[3] else None)}
    if len(v) > 4:
        io = v[4]
        kw.update(species_prefix=io["isp"], reaction_prefix=io["irp"], default_rule=io["dr"])
        if io.get("rename"):
            # the caller renamed the attributes (see _rename_attrs) and tells the importer the new names
            kw.update(species_label_attr="name", reaction_label_attr="name", reaction_edge_id_attr="eid2", stoich_attr="sto2",
                      mol_attr=("mol2" if v[3] else None))
    return kw


_RENAMES = {"label": "name", "edge_id": "eid2", "stoich": "sto2", "mol": "mol2"}


def _rename_attrs(G, opts):
    """non-default attribute names on the import side: rename the attributes of a COPY of the exported graph accordingly"""
    if not (opts and opts.get("rename")):
        return G
    G = G.copy()
    for _, d in G.nodes(data=True):
        for a, b in _RENAMES.items():
            if a in d:
                d[b] = d.pop(a)
    for _, _, d in G.edges(data=True):
        for a, b in _RENAMES.items():
            if a in d:
                d[b] = d.pop(a)
    return G


def _sg_kwargs(v):
    kw = {"mol_attr": ("mol" if v[2] else None)}
    if len(v) > 3:
        kw["default_rule"] = v[3]["dr"]             # never used for exported graphs: their rule sets are non-empty
        if v[3].get("rename"):
            kw.update(species_label_attr="name", mol_attr=("mol2" if v[2] else None))
    return kw


def _export_bip(H, fl):
    from synkit.CRN.Hypergraph.conversion import hypergraph_to_bipartite
    return hypergraph_to_bipartite(H, species_prefix=fl["sp"], reaction_prefix=fl["rp"], bipartite_values=tuple(fl["bv"]),
                                   include_stoich=fl["st"], include_role=fl["ro"], include_isolated_species=fl["iso"],
                                   integer_ids=fl["int"], include_edge_id_attr=fl["eid"], include_mol=fl["mol"])


def _asbip_kwargs(kw):
    m = {"sp": "species_prefix", "rp": "reaction_prefix", "int": "integer_ids", "st": "include_stoich"}
    return {m[k]: v for k, v in kw.items()}


def _items_input(form, items):
    """the (line, rule) items in the input form asked for; returns (positional argument, extra kwargs, effective items)"""
    if form == "mapping":
        d = {}
        for line, r in items:
            d[line] = r
        return d, {}, [[k, v] for k, v in d.items()]
    if form == "rules":
        return [line for line, _ in items], {"rules": [r for _, r in items]}, items
    if form == "tuples3":
        return [(line, r, "extra") for line, r in items], {}, items
    return [(line, r) for line, r in items], {}, items


def _run_view(H, v, ret=None):
    """observable of one view; objects handed back to the caller are appended to [ret]"""
    from synkit.CRN.Hypergraph import conversion as cv
    from synkit.CRN.Hypergraph.hypergraph import CRNHyperGraph
    from synkit.CRN.Hypergraph.rxn import RXNSide
    ret = [] if ret is None else ret

    def keep(x):
        ret.append(x)
        return x
    k = v[0]
    if k == "bip":
        fl, do_imp = v[1], v[2]
        G = keep(_export_bip(H, fl))
        out = [_bip_obs(G)]
        if do_imp:
            out.append(_guard(lambda: _net_obs(keep(cv.bipartite_to_hypergraph(_rename_attrs(G, v[4] if len(v) > 4 else None),
                                                                                **_import_kwargs(v))))))
        return out
    if k == "sg":
        inc_mol, mol_attr = v[1], v[2]
        G = keep(cv.hypergraph_to_species_graph(H, include_mol=inc_mol))
        merged = {}
        for _, _, d in G.edges(data=True):
            for e in d["via"]:
                merged.setdefault(e, set()).update(d["rules"])

        def rule_of(eid, e):          # next(iter(set)) is observable only when the merged set is a singleton
            u = merged.get(eid, set())
            return [e.rule if len(u) == 1 else "", e.rule in u]
        return [_sg_obs(G),
                # the order of add_rxn calls follows set iteration over via: insertion order is not observable here
                _guard(lambda: _net_obs(keep(cv.species_graph_to_hypergraph(_rename_attrs(G, v[3] if len(v) > 3 else None), **_sg_kwargs(v))),
                                        rule_of, True))]
    if k == "str":
        _, inc_rule, inc_id, srt, dr, ps, pf = v
        lines = keep(cv.hypergraph_to_rxn_strings(H, include_rule_suffix=inc_rule, include_edge_id=inc_id, sort=srt))
        return [list(lines), _guard(lambda: _net_obs(keep(cv.rxns_to_hypergraph(list(lines), default_rule=dr, parse_rule_from_suffix=ps,
                                                                                 prefer_suffix=pf))))]
    if k == "side":
        return _guard(lambda: dict(keep(RXNSide.from_str(v[1])).to_dict()))
    if k == "line":
        def go():
            H2 = keep(CRNHyperGraph())
            H2.add_rxn_from_str(v[1], v[2], parse_rule_from_suffix=v[3])
            return _net_obs(H2)
        return _guard(go)
    if k == "parse":
        return _guard(lambda: _net_obs(keep(cv.rxns_to_hypergraph(v[1], default_rule=v[2], parse_rule_from_suffix=v[3], prefer_suffix=v[4]))))
    if k == "items":
        _, form, items, dr, ps, pf = v
        arg, extra, _ = _items_input(form, [tuple(x) for x in items])

        def go():
            H2 = keep(CRNHyperGraph())
            H2.parse_rxns(arg, default_rule=dr, parse_rule_from_suffix=ps, prefer_suffix=pf, **extra)
            return _net_obs(H2)
        return _guard(go)
    if k == "asbip":
        return [_bip_obs(keep(cv._as_bipartite(H, **_asbip_kwargs(v[1]))))]
    if k == "assg":
        return [_sg_obs(keep(cv._as_species_graph(H)))]
    if k == "backend":
        _, inc_rule, int_, st = v
        b = _backend(H, inc_rule, int_, st)
        G = b.G
        if b.graph_type != ("bipartite" if inc_rule else "species") or b.G is not G:
            return ["backend: wrong graph_type or the cached view is rebuilt"]
        if _HELD is None:
            keep(G)           # a held backend's graph IS the cached view (documented): the caller leaves it alone
        return [_bip_obs(G)] if inc_rule else [_sg_obs(G)]
    raise AssertionError(k)


# backend objects the caller HOLDS across steps of a history (case["held"]): created at first use, then asked again after the
# network was edited in place (round 5, seeded change C16-w4-1: a mutator that forgets to count the edit leaves the cached view stale)
_HELD = None


def _backend(H, inc_rule, int_, st):
    from synkit.CRN.Hypergraph.backend import _CRNGraphBackend
    if _HELD is None:
        return _CRNGraphBackend(H, include_rule=inc_rule, integer_ids=int_, include_stoich=st)
    key = (id(H), inc_rule, int_, st)
    if key not in _HELD:
        _HELD[key] = _CRNGraphBackend(H, include_rule=inc_rule, integer_ids=int_, include_stoich=st)
    return _HELD[key]

DROP_KEYS = ["ksp", "krx", "lsp", "lrx", "st", "ro", "mol", "mk"]


def drops(**kw):
    d = {k: False for k in DROP_KEYS}
    d.update(kw)
    return d


def _apply_drops(G, d):
    """the caller deletes attributes from the graph it was handed (in place; node class read off `kind` first)"""
    for _, nd in G.nodes(data=True):
        rx = nd.get("kind") == "reaction"
        if d["mk"]:
            nd.pop("bipartite", None)
        if d["lrx"] if rx else d["lsp"]:
            nd.pop("label", None)
        if d["krx"] if rx else d["ksp"]:
            nd.pop("kind", None)
        if d["mol"]:
            nd.pop("mol", None)
    for _, _, ed in G.edges(data=True):
        if d["st"]:
            ed.pop("stoich", None)
        if d["ro"]:
            ed.pop("role", None)
    return G


def _import_edited(G, mol_attr, io):
    """bipartite_to_hypergraph on an edited graph.  When the importer had to SYNTHESISE an id for a reaction it stored (a node it took
    for a reaction carries no edge_id: the id comes from hash()), the result is outside the model: reported as code 9 (= EUnmodelled)"""
    from synkit.CRN.Hypergraph import conversion as cv
    H2 = cv.bipartite_to_hypergraph(G, species_prefix=io["isp"], reaction_prefix=io["irp"], default_rule=io["dr"],
                                    mol_attr=("mol" if mol_attr else None))
    known = {str(nd["edge_id"]) for _, nd in G.nodes(data=True) if "edge_id" in nd}
    return H2, (not set(H2.edges) <= known)


def _run_dview(H, dv, ret):
    fl, d, mol_attr, io = dv
    G = _apply_drops(_export_bip(H, fl), d)
    ret.append(G)
    out = [_bip_obs(G)]
    try:
        H2, synth = _import_edited(G, mol_attr, io)
        ret.append(H2)
        out.append([9] if synth else [0, _net_obs(H2)])
    except KeyError:
        out.append([1])
    except ValueError:
        out.append([2])
    return out

SDROP_KEYS = ["label", "kind", "mol", "rules", "rmap", "pmap", "legr", "legp"]


def sdrops(**kw):
    d = {k: False for k in SDROP_KEYS}
    d.update(kw)
    return d


def _apply_sdrops(G, d):
    for _, nd in G.nodes(data=True):
        for k in ("label", "kind", "mol"):
            if d[k]:
                nd.pop(k, None)
    for _, _, ed in G.edges(data=True):
        if d["rules"]:
            ed.pop("rules", None)
        for k, a in (("rmap", "stoich_r_map"), ("pmap", "stoich_p_map"), ("legr", "stoich_r"), ("legp", "stoich_p")):
            if d[k]:
                ed.pop(a, None)
        # representation variants the importer accepts and the model identifies (a graph that went through a serialiser):
        # `via` as a sorted list / tuple instead of a set, a singleton `rules` set as the bare rule name
        if d.get("vl") and "via" in ed:
            ed["via"] = sorted(ed["via"]) if d["vl"] == 1 else tuple(sorted(ed["via"]))
        if d.get("rs") and len(ed.get("rules", ())) == 1:
            ed["rules"] = next(iter(ed["rules"]))
    return G


def _sg_obs_edited(G):
    """an absent rule set / map / legacy value is what the importer reads it as: empty set, empty map, 1 (see model/C16_Edit.v)"""
    nodes = [[n, _opt(d, "label"), _opt(d, "kind"), _optmol(d)] for n, d in G.nodes(data=True)]
    arcs = [[u, v, S(sorted(d["via"])), S(sorted([d["rules"]] if isinstance(d.get("rules"), str) else d.get("rules", ()))),
             int(d.get("stoich_r", 1)), int(d.get("stoich_p", 1)),
             {k: int(c) for k, c in d.get("stoich_r_map", {}).items()}, {k: int(c) for k, c in d.get("stoich_p_map", {}).items()}]
            for u, v, d in G.edges(data=True)]
    return [S(nodes), S(arcs)]


def _sg_order_dependent(G):
    """species_graph_to_hypergraph keeps the FIRST coefficient it meets for a (reaction, species) pair; when the arcs of one reaction
    carry different values for the same species (possible only without the per-reaction maps) the result depends on the iteration
    order of a set-built graph: outside the model (code 9)"""
    seen = {}
    for u, v, d in G.edges(data=True):
        for e in d["via"]:
            sr = d.get("stoich_r_map", {}).get(e, d.get("stoich_r", 1))
            sp = d.get("stoich_p_map", {}).get(e, d.get("stoich_p", 1))
            for key, val in (((e, "r", G.nodes[u].get("label", str(u))), sr), ((e, "p", G.nodes[v].get("label", str(v))), sp)):
                if seen.setdefault(key, val) != val:
                    return True
    return False


def _run_sview(H, sv, ret):
    from synkit.CRN.Hypergraph import conversion as cv
    inc_mol, d, mol_attr, dr = sv
    G = _apply_sdrops(cv.hypergraph_to_species_graph(H, include_mol=inc_mol), d)
    ret.append(G)
    out = [_sg_obs_edited(G)]
    if _sg_order_dependent(G):
        out.append([9])
        return out
    merged = {}
    for _, _, ed in G.edges(data=True):
        for e in ed["via"]:
            merged.setdefault(e, set()).update([ed["rules"]] if isinstance(ed.get("rules"), str) else ed.get("rules", ()))

    def rule_of(eid, e):
        u = merged.get(eid, set())
        return [e.rule if len(u) <= 1 else "", e.rule in u]

    def go():
        H2 = cv.species_graph_to_hypergraph(G, default_rule=dr, mol_attr=("mol" if mol_attr else None))
        ret.append(H2)
        return _net_obs(H2, rule_of, True)
    out.append(_guard(go))
    return out

def _ugraph(ug):
    """the undirected networkx graph of a case: nodes and edges inserted in the order given (Graph or MultiGraph)"""
    import networkx as nx
    U = nx.MultiGraph() if ug["multi"] else nx.Graph()
    for n, attrs in ug["nodes"]:
        U.add_node(n, **attrs)
    for u, v, attrs in ug["edges"]:
        U.add_edge(u, v, **attrs)
    return U


def _run_uview(ug, mol_attr, io):
    from synkit.CRN.Hypergraph import conversion as cv
    U = _ugraph(ug)
    D = cv._as_bipartite(U)
    out = [_bip_obs(D)]
    try:
        H2, synth = _import_edited(D, mol_attr, io)
        out.append([9] if synth else [0, _net_obs(H2)])
    except KeyError:
        out.append([1])
    except ValueError:
        out.append([2])
    return out


def _cnid(n):
    return "(inl %d%%N)" % n if isinstance(n, int) else "(inr %s)" % cs(n)


def _uview_term(ug, mol_attr, io):
    """the model gets the graph as networkx hands it to the code: the node table and the sequence of crn.edges(data=True)"""
    U = _ugraph(ug)

    def node(n, d):
        return cpair(_cnid(n), "(BNode %s %s %s %s %s)" % (
            copt(cZ(_bvenc(d["bipartite"])) if "bipartite" in d else None), copt(cs(d["label"]) if "label" in d else None),
            copt(cs(d["kind"]) if "kind" in d else None), copt(cs(_molenc(d["mol"])) if "mol" in d else None),
            copt(cs(d["edge_id"]) if "edge_id" in d else None)))

    def edge(u, v, d):
        return cpair(_cnid(u), _cnid(v), "(BArc %s %s)" % (copt(cZ(d["stoich"]) if "stoich" in d else None),
                                                          copt(cs(d["role"]) if "role" in d else None)))
    return "run_undirected %s %s (IFlags %s %s %s %s)" % (
        clist([node(n, d) for n, d in U.nodes(data=True)]), clist([edge(u, v, d) for u, v, d in U.edges(data=True)]),
        cs(io["isp"]), cs(io["irp"]), cs(io["dr"]), cbool(mol_attr))


def _run_views(H, views, hist):
    out = []
    for v in views:
        ret = []
        out.append(_run_view(H, v, ret))
        if hist:
            _scramble(ret)          # the caller edits everything it was handed before the next call
    return out


def impl(case):
    global _HELD
    _HELD = {} if case.get("held") else None
    net = case.get("net", {})
    hist = bool(case.get("hist"))
    if "ugraphs" in case:
        return [_run_uview(ug, mol_attr, io) for ug, mol_attr, io in case["ugraphs"]]
    H = build(net)
    before = _net_obs(H)
    if "batches" in case:
        # parse_rxns on the SAME, non-empty network, batch after batch; the network is observed after every batch (also after one that raised)
        outs = []
        for form, items, dr, ps, pf in case["batches"]:
            arg, extra, _ = _items_input(form, [tuple(x) for x in items])
            code = 0
            try:
                H.parse_rxns(arg, default_rule=dr, parse_rule_from_suffix=ps, prefer_suffix=pf, **extra)
            except KeyError:
                code = 1
            except ValueError:
                code = 2
            except IndexError:
                code = 4
            outs.append([code, _net_obs(H)])
        return [before] + outs
    if "dviews" in case:
        outs = []
        for dv in case["dviews"]:
            ret = []
            outs.append(_run_dview(H, dv, ret))
            if hist:
                _scramble(ret)
        return [before] + outs + [_net_obs(H)]
    if "sviews" in case:
        outs = []
        for sv in case["sviews"]:
            ret = []
            outs.append(_run_sview(H, sv, ret))
            if hist:
                _scramble(ret)
        return [before] + outs + [_net_obs(H)]
    views = _run_views(H, case["views"], hist)
    first = [before] + views + [_net_obs(H)]      # all views run on ONE object; it must come out unchanged
    if "edits" not in case:
        return first
    for ed in case["edits"]:                        # the SAME object is edited in place, then viewed again
        _apply_edit(H, ed)
    before2 = _net_obs(H)
    views2 = _run_views(H, case["views2"], hist)
    return [first, [before2] + views2 + [_net_obs(H)]]


# ------------------------------------------------------------------ model encoder

def cs(s):
    b = s.encode("utf-8")
    if all(32 <= c < 127 for c in b):
        return '"%s"' % s.replace('"', '""')
    return "(sb [%s])" % "; ".join("%d%%N" % c for c in b)


def _side(l):
    return clist([cpair(cs(s), cZ(c)) for s, c in l])


def _net(net):
    kept = clist([cs(x) for x in net.get("kept", [])])
    rx = clist([cpair(copt(None if e is None else cs(e)), cs(rule or ""), _side(l), _side(r)) for e, rule, l, r in net.get("rxns", [])])
    ml = clist([cpair(cs(a), cs(_molenc(_molval(b)))) for a, b in net.get("mol", [])])
    return "(mk_net %s %s %s)" % (kept, rx, ml)


def _bflags(fl):
    return "(BFlags %s %s %s %s %s %s %s %s %s %s)" % (
        copt(None if fl["sp"] is None else cs(fl["sp"])), copt(None if fl["rp"] is None else cs(fl["rp"])),
        cZ(_bvenc(fl["bv"][0])), cZ(_bvenc(fl["bv"][1])), cbool(fl["st"]), cbool(fl["ro"]), cbool(fl["iso"]), cbool(fl["int"]),
        cbool(fl["eid"]), cbool(fl["mol"]))


def _dview(dv):
    fl, d, mol_attr, io = dv
    return cpair(_bflags(fl), "(Drops %s)" % " ".join(cbool(d[k]) for k in DROP_KEYS),
                 "(IFlags %s %s %s %s)" % (cs(io["isp"]), cs(io["irp"]), cs(io["dr"]), cbool(mol_attr)))


def _view(v):
    k = v[0]
    if k == "bip":
        fl, do_imp, mol_attr = v[1], v[2], v[3]
        if do_imp and not fl["eid"]:
            return None                      # ids synthesised from hash(): outside the model's domain
        f = _bflags(fl)
        if len(v) > 4:
            io = v[4]
            return "VBipI %s (IFlags %s %s %s %s)" % (f, cs(io["isp"]), cs(io["irp"]), cs(io["dr"]), cbool(mol_attr))
        return "VBip %s %s %s" % (f, cbool(do_imp), cbool(mol_attr))
    if k == "sg":
        return "VSg %s %s" % (cbool(v[1]), cbool(v[2]))
    if k == "str":
        return "VStr %s %s %s %s %s %s" % (cbool(v[1]), cbool(v[2]), cbool(v[3]), cs(v[4]), cbool(v[5]), cbool(v[6]))
    if k == "side":
        return "VSide %s" % cs(v[1])
    if k == "line":
        return "VLine %s %s %s" % (cs(v[1]), copt(None if v[2] is None else cs(v[2])), cbool(v[3]))
    if k == "parse":
        return "VParse %s %s %s %s" % (clist([cs(x) for x in v[1]]), cs(v[2]), cbool(v[3]), cbool(v[4]))
    if k == "items":
        _, form, items, dr, ps, pf = v
        _, _, eff = _items_input(form, [tuple(x) for x in items])
        return "VItems %s %s %s %s" % (clist([cpair(cs(line), copt(None if r is None else cs(r))) for line, r in eff]),
                                       cs(dr), cbool(ps), cbool(pf))
    if k == "asbip":
        kw = v[1]
        return "VAsBip %s %s %s %s" % (copt(cs(kw["sp"]) if "sp" in kw else None), copt(cs(kw["rp"]) if "rp" in kw else None),
                                       copt(cbool(kw["int"]) if "int" in kw else None), copt(cbool(kw["st"]) if "st" in kw else None))
    if k == "assg":
        return "VSgX false"
    if k == "backend":
        return "VBackend %s %s %s" % (cbool(v[1]), cbool(v[2]), cbool(v[3]))
    raise AssertionError(k)


def _edit(ed):
    k = ed[0]
    if k == "add":
        return "EAdd %s %s %s %s" % (copt(None if ed[1] is None else cs(ed[1])), cs(ed[2] or ""), _side(ed[3]), _side(ed[4]))
    if k == "rm_rxn":
        return "ERmRxn %s" % cs(ed[1])
    if k == "rm_sp":
        return "ERmSp %s %s" % (cs(ed[1]), cbool(ed[2]))
    if k == "mol":
        return "EMol %s %s" % (cs(ed[1]), cs(_molenc(_molval(ed[2]))))
    if k == "molmap":
        d = {}
        for a, b in ed[1]:
            d[a] = b                      # a Python dict: the last entry of a repeated key wins, at the first position
        return "EMolMap %s %s %s" % (clist([cpair(cs(a), cs(_molenc(_molval(b)))) for a, b in d.items()]), cbool(ed[2]), cbool(ed[3]))
    if k == "merge":
        o = ed[1]
        return "EMerge %s %s %s %s" % (
            clist([cs(x) for x in o.get("kept", [])]),
            clist([cpair(copt(None if e is None else cs(e)), cs(rule or ""), _side(l), _side(r)) for e, rule, l, r in o.get("rxns", [])]),
            clist([cpair(cs(a), cs(_molenc(_molval(b)))) for a, b in o.get("mol", [])]), cbool(ed[2]))
    raise AssertionError(ed)


def coq_case(case):
    if "ugraphs" in case:
        return "L %s" % clist([_uview_term(ug, mol_attr, io) for ug, mol_attr, io in case["ugraphs"]])
    if "batches" in case:
        bs = []
        for form, items, dr, ps, pf in case["batches"]:
            _, _, eff = _items_input(form, [tuple(x) for x in items])
            bs.append(cpair(clist([cpair(cs(line), copt(None if r is None else cs(r))) for line, r in eff]), cs(dr), cbool(ps), cbool(pf)))
        return "run_parse_into %s %s" % (_net(case.get("net", {})), clist(bs))
    if "sviews" in case:
        return "run_sdrops %s %s" % (_net(case.get("net", {})), clist([
            cpair(cbool(sv[0]), "(SDrops %s)" % " ".join(cbool(sv[1][k]) for k in SDROP_KEYS), cbool(sv[2]), cs(sv[3])) for sv in case["sviews"]]))
    if "dviews" in case:
        return "run_drops %s %s" % (_net(case.get("net", {})), clist([_dview(dv) for dv in case["dviews"]]))
    vs = [_view(v) for v in case["views"]]
    if any(v is None for v in vs):
        return None
    if "edits" not in case:
        return "run_case %s %s" % (_net(case.get("net", {})), clist(vs))
    vs2 = [_view(v) for v in case["views2"]]
    if any(v is None for v in vs2):
        return None
    return "run_case2 %s %s %s %s" % (_net(case.get("net", {})), clist(vs), clist(["(%s)" % _edit(e) for e in case["edits"]]), clist(vs2))


# ------------------------------------------------------------------ property oracle (independent of the model)

def _valid_strings_domain(edges):
    for rule, l, r in edges.values():
        if not VALID_RULE.match(rule):
            return False
        for s in list(l) + list(r):
            if not VALID_LABEL.match(s):
                return False
    return True


def _occurring(edges):
    occ = set()
    for _, l, r in edges.values():
        occ |= set(l) | set(r)
    return occ


def _names_ok(fl, H, edges):
    """Un-prefixed / custom-prefixed string node ids: a species node and a reaction node must not get the same id."""
    if fl["int"]:
        return True
    spn = {(fl["sp"] if fl["sp"] is not None else "") + s for s in H.species}
    rxn = {(fl["rp"] if fl["rp"] is not None else "") + e for e in edges}
    return not (spn & rxn)


def _oracle_view(H, vi, v, edges, mol, occ, ret):
    """one round trip on H judged against the expected reactions / labels (computed from a FRESH build); objects handed to
    the caller go to [ret]"""
    from collections import Counter
    from synkit.CRN.Hypergraph import conversion as cv
    fails = []
    k = v[0]
    if k == "bip":
        fl, do_imp, mol_attr = v[1], v[2], v[3]
        # the flag combinations that claim invertibility: ids and coefficients are exported
        if not (do_imp and fl["eid"] and fl["st"]):
            return fails
        clash = not _names_ok(fl, H, edges)     # un-prefixed string ids: a species label equals a reaction id (known finding)
        try:
            G = _export_bip(H, fl)
            ret.append(G)
            H2 = cv.bipartite_to_hypergraph(_rename_attrs(G, v[4] if len(v) > 4 else None), **_import_kwargs(v))
            ret.append(H2)
            e2 = _edges_of(H2)
            got = {s_: _molenc(m) for s_, m in H2.species_to_mol.items()}
        except (KeyError, ValueError) as ex:
            e2, got = "raised %r" % (ex,), {}
        bad = []
        if e2 != edges:
            bad.append(dict(clause="bipartite-roundtrip", detail="view %d %r: reactions %r came back as %r" % (vi, fl, edges, e2)))
        elif fl["mol"] and mol_attr:
            # every label of a species that occurs in a reaction comes back, and nothing is invented
            # (a label on a kept, reaction-less species may or may not survive: the property is about reactions)
            want = {s_: m for s_, m in mol.items() if s_ in occ}
            if any(s_ not in got or got[s_] != m for s_, m in want.items()) or any(s_ not in mol or mol[s_] != m for s_, m in got.items()):
                bad.append(dict(clause="bipartite-mol", detail="view %d %r: molecule labels %r came back as %r"
                                % (vi, fl, want, got)))
        for b in bad:
            if clash:
                b["key"] = KEY_NAME_CLASH
            fails.append(b)
    elif k == "str":
        _, inc_rule, inc_id, srt, dr, ps, pf = v
        if not (inc_rule and ps):
            return fails
        in_domain = _valid_strings_domain(edges)   # outside it the text format is ambiguous (known finding)
        lines = cv.hypergraph_to_rxn_strings(H, include_rule_suffix=inc_rule, include_edge_id=inc_id, sort=srt)
        ret.append(lines)
        a = Counter(repr((r, sorted(l.items()), sorted(p_.items()))) for r, l, p_ in edges.values())
        try:
            H2 = cv.rxns_to_hypergraph(list(lines), default_rule=dr, parse_rule_from_suffix=ps, prefer_suffix=pf)
            ret.append(H2)
            back = _edges_of(H2)
            b = Counter(repr((r, sorted(l.items()), sorted(p_.items()))) for r, l, p_ in back.values())
        except (KeyError, ValueError, IndexError) as ex:
            back, b = "raised %r" % (ex,), None
        if a != b:
            f = dict(clause="strings-roundtrip", detail="view %d: %r printed as %r parsed as %r" % (vi, edges, list(lines), back))
            if not in_domain:
                f["key"] = KEY_LABEL_DOMAIN
            fails.append(f)
    elif k == "backend":
        # a view handed out by a (possibly held) backend is the export of the network AS IT IS NOW; and a species-graph view of a
        # two-sided network, imported back, gives the current ids and coefficients
        _, inc_rule, int_, st = v
        G = _backend(H, inc_rule, int_, st).G
        F = cv.hypergraph_to_bipartite(H, integer_ids=int_, include_stoich=st, species_prefix=None, reaction_prefix=None) if inc_rule \
            else cv.hypergraph_to_species_graph(H)
        same = (dict(G.nodes(data=True)) == dict(F.nodes(data=True))
                and {(a, b): d for a, b, d in G.edges(data=True)} == {(a, b): d for a, b, d in F.edges(data=True)})
        if not same:
            fails.append(dict(clause="view-current", detail="view %d: the graph a backend hands out (include_rule=%r, integer_ids=%r, include_stoich=%r) is not the "
                                                            "export of the network as it is now: arcs %r, expected %r"
                                                            % (vi, inc_rule, int_, st, sorted(map(str, G.edges())), sorted(map(str, F.edges())))))
        elif not inc_rule and all(l and r for _, l, r in edges.values()):
            import copy as _cp
            H2 = cv.species_graph_to_hypergraph(_cp.deepcopy(G))
            a = {e: (l, r) for e, (_, l, r) in edges.items()}
            b = {e: (l, r) for e, (_, l, r) in _edges_of(H2).items()}
            if a != b:
                fails.append(dict(clause="species-graph-roundtrip", detail="view %d (backend): %r came back as %r" % (vi, a, b)))
    elif k == "sg":
        if not all(l and r for _, l, r in edges.values()):
            return fails
        G = cv.hypergraph_to_species_graph(H, include_mol=v[1])
        ret.append(G)
        H2 = cv.species_graph_to_hypergraph(_rename_attrs(G, v[3] if len(v) > 3 else None), **_sg_kwargs(v))
        ret.append(H2)
        a = {e: (l, r) for e, (_, l, r) in edges.items()}
        b = {e: (l, r) for e, (_, l, r) in _edges_of(H2).items()}
        if a != b:
            fails.append(dict(clause="species-graph-roundtrip", detail="view %d: %r came back as %r" % (vi, a, b)))
    return fails


def _oracle_batch(net, edits, views, H, hist, tag):
    """every step of a history is judged: H is the shared (possibly edited in place) object, the expectation comes from a
    fresh build of the same network (+ the same edits) that no converter has ever seen"""
    fails = []
    for vi, v in enumerate(views):
        Hf = build(net, edits)
        edges = _edges_of(Hf)
        mol = {s_: _molenc(m) for s_, m in Hf.species_to_mol.items()}
        occ = _occurring(edges)
        Hv = H if H is not None else build(net, edits)
        ret = []
        for f in _oracle_view(Hv, vi, v, edges, mol, occ, ret):
            f["detail"] = tag + f["detail"]
            fails.append(f)
        if hist:
            _scramble(ret)
        if H is not None and _edges_of(H) != edges:
            fails.append(dict(clause="source-network-changed", detail="%sview %d %r changed the exported network: %r, expected %r"
                              % (tag, vi, v[0], _edges_of(H), edges)))
            break
    return fails


def oracle(case):
    global _HELD
    _HELD = {} if case.get("held") else None
    if "net" not in case:
        return []
    net = case["net"]
    hist = bool(case.get("hist"))
    shared = hist or "edits" in case
    H = build(net) if shared else None            # history cases: ONE object through all steps, as in impl()
    if "ugraphs" in case:
        return []               # _as_bipartite on undirected input is a facade of the analysis modules, no round trip of the property: correspondence only
    if "batches" in case:
        return []               # parsing arbitrary text INTO a network is no round trip: correspondence only (C16_built_networks_consistent)
    if "sviews" in case:
        H = build(net)
        edges = _edges_of(H)
        for sv in case["sviews"]:
            _run_sview(H, sv, [])
        fails = [] if _edges_of(H) == edges else [dict(clause="source-network-changed", detail="collapse / edited import changed the exported network")]
        plain = [["sg", sv[0], sv[2], dict(dr=sv[3], rename=False)] for sv in case["sviews"] if not any(sv[1].values())]   # vl/rs count as edits
        return (fails + _oracle_batch(net, (), plain, None, False, ""))[:6]
    if "dviews" in case:
        # edited graphs: the property speaks about the graph as exported, so only the entries WITHOUT deletions are judged as
        # round trips (the others: correspondence with the model); the exported network must come out unchanged in any case
        H = build(net)
        edges = _edges_of(H)
        for dv in case["dviews"]:
            _run_dview(H, dv, [])
        fails = [] if _edges_of(H) == edges else [dict(clause="source-network-changed", detail="export / edited import changed the exported network")]
        plain = [["bip", dv[0], True, dv[2], dict(dv[3])] for dv in case["dviews"] if not any(dv[1].values())]
        return (fails + _oracle_batch(net, (), plain, None, False, ""))[:6]
    fails = _oracle_batch(net, (), case["views"], H, hist, "")
    if "edits" in case:
        for ed in case["edits"]:
            _apply_edit(H, ed)
        fails += _oracle_batch(net, case["edits"], case["views2"], H, hist, "after in-place edits: ")
    return fails[:6]


def shrink(case, fl):
    """Drop reactions / views while the oracle still fails."""
    if case.get("hist") or "edits" in case:
        return case          # a history is self-contained as generated; shrinking inside a worker whose module-level state
                             # may already be poisoned by the defect could keep a case that does not fail in a fresh process
    cur = case
    changed = True
    while changed:
        changed = False
        net = cur["net"]
        cands = []
        for i in range(len(net["rxns"])):
            cands.append(dict(cur, net=dict(net, rxns=net["rxns"][:i] + net["rxns"][i + 1:])))
        for i in range(len(cur["views"])):
            if len(cur["views"]) > 1:
                cands.append(dict(cur, views=cur["views"][:i] + cur["views"][i + 1:]))
        if net.get("mol"):
            cands.append(dict(cur, net=dict(net, mol=[])))
        if net.get("kept"):
            cands.append(dict(cur, net=dict(net, kept=[])))
        for c in cands:
            try:
                if oracle(c):
                    cur = c
                    changed = True
                    break
            except Exception:
                pass
    return dict(cur, name=case.get("name", "") + "(shrunk)")


def neighbours(case, rng):
    if "net" not in case:
        return []
    out = []
    net = case["net"]
    for v in case["views"]:
        out.append(dict(case, views=[v], name="one-view"))
    for i in range(len(net.get("rxns", []))):
        out.append(dict(case, net=dict(net, rxns=[net["rxns"][i]]), name="one-rxn"))
    return out


def nontrivial(case, obs):
    if "edits" in case:
        return bool(case.get("net", {}).get("rxns"))
    if case.get("net", {}).get("rxns"):
        return any(isinstance(o, list) and len(o) == 2 and isinstance(o[1], list) and o[1] and o[1][0] == 0 for o in obs[1:-1])
    return any(isinstance(o, list) and len(o) == 2 and o[0] == 0 and o[1] for o in obs[1:-1])


def distribution(cases, obss):
    d = dict(views={}, n_rxns={}, n_species={}, bip_flag_combos=set(), invertible_bip_views=0, import_results={"ok": 0, "error": 0},
             nets_with_catalyst=0, nets_with_repeated_reaction=0, nets_with_source_or_sink=0, nets_with_multidigit_coeff=0,
             nets_with_kept_species=0, nets_with_mol=0, nets_outside_label_domain=0, nets_with_name_collision=0,
             fuzz_texts=0, fuzz_errors=0, max_coeff=0)
    d["history_cases"] = sum(1 for c in cases if c.get("hist"))
    d["edit_in_place_cases"] = sum(1 for c in cases if "edits" in c)
    d["nets_with_falsy_mol"] = sum(1 for c in cases if any(_molenc(_molval(m)) in ("i:0", "s:", "b:False", "f:0.0", "t:()", "n:")
                                                           for _, m in c.get("net", {}).get("mol", [])))
    for c, obs in zip(cases, obss):
        if "edits" in c:
            obs = obs[0] if isinstance(obs, list) and obs else obs
        net = c.get("net", {})
        rx = net.get("rxns", [])
        if rx:
            d["n_rxns"][len(rx)] = d["n_rxns"].get(len(rx), 0) + 1
            sp = set()
            seen = set()
            cat = rep = ss = md = bad = False
            ids = set()
            for e, rule, l, r in rx:
                ls = {s for s, k in l if k > 0}
                rs = {s for s, k in r if k > 0}
                sp |= ls | rs
                cat |= bool(ls & rs)
                ss |= (not ls) or (not rs)
                key = repr((sorted(map(tuple, l)), sorted(map(tuple, r))))
                rep |= key in seen
                seen.add(key)
                for s, k in l + r:
                    md |= k >= 10
                    d["max_coeff"] = max(d["max_coeff"], k)
                    bad |= not VALID_LABEL.match(s)
                bad |= not VALID_RULE.match(rule or "r")
                if e is not None:
                    ids.add(e)
            d["n_species"][len(sp)] = d["n_species"].get(len(sp), 0) + 1
            d["nets_with_catalyst"] += cat
            d["nets_with_repeated_reaction"] += rep
            d["nets_with_source_or_sink"] += ss
            d["nets_with_multidigit_coeff"] += md
            d["nets_outside_label_domain"] += bad
            d["nets_with_name_collision"] += bool(ids & sp)
        d["nets_with_kept_species"] += bool(net.get("kept"))
        d["nets_with_mol"] += bool(net.get("mol"))
        for sv, o in zip(c.get("sviews", []), obs[1:-1] if isinstance(obs, list) else []):
            d["views"]["sg-edited"] = d["views"].get("sg-edited", 0) + 1
            ei = d.setdefault("edited_species_graph_imports", {})
            r = o[1] if isinstance(o, list) and len(o) == 2 else None
            key = "network" if (isinstance(r, list) and r and r[0] == 0) else {9: "coefficient depends on arc order (outside the model)"}.get(r[0] if r else None, "error")
            ei[key] = ei.get(key, 0) + 1
        for dv, o in zip(c.get("dviews", []), obs[1:-1] if isinstance(obs, list) else []):
            d["views"]["bip-edited"] = d["views"].get("bip-edited", 0) + 1
            ei = d.setdefault("edited_imports", {"deletions": {}, "result": {}})
            nd = str(sum(1 for x in dv[1].values() if x))
            ei["deletions"][nd] = ei["deletions"].get(nd, 0) + 1
            r = o[1] if isinstance(o, list) and len(o) == 2 else None
            if isinstance(r, list) and r and r[0] == 0:
                back = r[1][1].get("__set__", []) if isinstance(r[1][1], dict) else []
                key = "network" if back else "empty network"
            else:
                key = {9: "id synthesised from hash (outside the model)", 1: "KeyError", 2: "ValueError"}.get(r[0] if r else None, "?")
            ei["result"][key] = ei["result"].get(key, 0) + 1
        for v, o in zip(c["views"], obs[1:] if isinstance(obs, list) else []):
            d["views"][v[0]] = d["views"].get(v[0], 0) + 1
            if v[0] == "bip":
                fl = v[1]
                d["bip_flag_combos"].add(repr(sorted(fl.items())))
                if fl["eid"] and fl["st"] and v[2]:
                    d["invertible_bip_views"] += 1
            if v[0] in ("side", "line", "parse"):
                d["fuzz_texts"] += 1
                d["fuzz_errors"] += (isinstance(o, list) and o and o[0] != 0)
            elif isinstance(o, list) and len(o) == 2 and isinstance(o[1], list) and o[1]:
                d["import_results"]["ok" if o[1][0] == 0 else "error"] += 1
    d["bip_flag_combos"] = len(d["bip_flag_combos"])
    d["n_rxns"] = {str(k): v for k, v in sorted(d["n_rxns"].items())}
    d["n_species"] = {str(k): v for k, v in sorted(d["n_species"].items())}
    return d


# ------------------------------------------------------------------ generators

LABEL_TRIPLES = [("A", "B", "C"), ("F2", "G_1", "Cl2"), ("a", "Bb", "c9"), ("H2O", "OH", "H"), ("X_", "Y__2", "e5"),
                 ("r", "R", "S"), ("Na", "N", "a"), ("A1", "A", "A11"),
                 # SMILES / formula labels (non-word characters) inside the label domain of the strings theorem
                 ("CC(=O)O", "C#C", "Fe(OH)3"), ("c1ccccc1", "C=O", "C[C@H](N)C(=O)O"), ("N.N", "C-C", "O=C=O"),
                 ("CC(=O)O", "CC(=O)OC", "C")]
RULES2 = [("r", "R2"), ("R1", "R2"), ("k_f", "k_r"), ("r", "r_1")]
PREFIXES = [("S:", "R:"), (None, None), ("", "R:"), ("sp/", "rx/"), ("S:", None)]


# values of the networkx `bipartite` marker (species, reaction): default, swapped, booleans, equal, negative, strings, mixed
MARKERS = [(0, 1), (1, 0), (True, False), (False, True), (0, 0), (1, 1), (5, 7), (7, 5), (-1, 0), (2, 0), (0, 2),
           ("species", "reaction"), ("r", "s"), ("x", "x"), (0, "r"), ("s", 0), ("0", "1")]
IMPORT_OPTS = [dict(isp="R:", irp="S:", dr="r"), dict(isp="", irp="", dr="zz"), dict(isp="S:", irp="R:", dr=""), dict(isp="A", irp="r", dr="q"),
               dict(isp="S:", irp="R:", dr="r", rename=True), dict(isp="x", irp="R:", dr="d2", rename=True)]


def bflags(sp="S:", rp="R:", bv=(0, 1), st=True, ro=True, iso=True, int_=False, eid=True, mol=True):
    return dict(sp=sp, rp=rp, bv=list(bv), st=st, ro=ro, iso=iso, int=int_, eid=eid, mol=mol)


def _invertible_flags(rng):
    sp, rp = rng.choice(PREFIXES)
    return bflags(sp=sp, rp=rp, bv=(0, 1) if rng.random() < 0.5 else rng.choice(MARKERS), st=True, ro=rng.random() < 0.5, iso=rng.random() < 0.5,
                  int_=rng.random() < 0.5, eid=True, mol=rng.random() < 0.7)


def _std_views(rng):
    return [["bip", _invertible_flags(rng), True, rng.random() < 0.85],
            ["str", True, rng.random() < 0.3, rng.random() < 0.7, rng.choice(["r", "dflt"]), True, rng.random() < 0.3],
            ["sg", rng.random() < 0.7, rng.random() < 0.85]]


def complexes():
    c = [[], [[0, 1]], [[1, 1]], [[2, 1]], [[0, 2]], [[1, 2]], [[2, 2]], [[0, 1], [1, 1]], [[0, 1], [2, 1]], [[1, 1], [2, 1]]]
    return c


def small_reactions():
    cs_ = complexes()
    return [(a, b) for a in cs_ for b in cs_ if a != b]          # 90 ordered pairs of distinct complexes


def _small_net(rng, rxs):
    labs = rng.choice(LABEL_TRIPLES)
    rules = rng.choice(RULES2)
    out = []
    for (l, r) in rxs:
        out.append([None, rng.choice(rules), [[labs[i], k * rng.choice([1, 2, 3, 12])] for i, k in l],
                    [[labs[i], k * rng.choice([1, 2, 3, 12])] for i, k in r]])
    mol = [[labs[i], rng.choice(["m%d" % i, "m%d" % i, ["i", i], rng.choice(DEGENERATE_MOLS)])] for i in range(3) if rng.random() < 0.4]
    return dict(kept=[], rxns=out, mol=mol)


# molecule labels are 'Any' in the API: falsy and non-string values (0-based integer ids, "", False, 0.0, (), None)
DEGENERATE_MOLS = [["i", 0], ["i", 0], "", ["b", False], ["b", True], ["f", 0.0], ["t", []], ["t", [1, 2]], ["n"], ["i", -1], ["i", 10 ** 12]]
SPECIES_POOL = ["A", "B", "C", "D", "E", "F2", "G_1", "Cl2", "H2O", "e5", "Na", "x", "Y_", "r", "R1",
                "CC(=O)O", "C#C", "Fe(OH)3", "c1ccccc1", "C=O", "C[C@@H](O)C", "N.N", "C-C", "O=C=O", "CC(C)(C)O"]
ADV_LABELS = ["", "0", "[OH-]", "[Na+]", "Na+", "(C)", "=O", "#N", "@x", ".A", "-B", "[C@H]", "_x", "2A", "A B", "A+B", "r_1", "r_2", "R2_1", "S:A", "R:r_1", "x|y", "a>>b", "3", "A*", "-", "rule=z", "1_0", " A"]
RULE_POOL = ["r", "R1", "R2", "k_f", "q_1", "", "r_1"]
ADV_RULES = ["a b", "x|y", "rule=q", "id=3", "7"]
COEFFS = [1, 1, 1, 1, 1, 2, 2, 2, 3, 3, 12, 36, 100, 1000, 7, 4096, 1234567]


def _rand_net(rng, nsp=None, nrx=None, adversarial=False):
    nsp = nsp or rng.randint(1, 8)
    nrx = nrx if nrx is not None else rng.randint(1, 10)
    pool = rng.sample(SPECIES_POOL, min(nsp, len(SPECIES_POOL)))
    if adversarial:
        for _ in range(rng.randint(1, 2)):
            pool[rng.randrange(len(pool))] = rng.choice(ADV_LABELS)
    rules = rng.sample(RULE_POOL, rng.randint(1, 3)) + ([rng.choice(ADV_RULES)] if adversarial and rng.random() < 0.3 else [])
    rxns = []
    used = set()
    for _ in range(nrx):
        z = rng.random()
        if rxns and z < 0.12:                         # repeated reaction (same sides, new id)
            _, _, l, r = rng.choice(rxns)
            l, r = [list(p) for p in l], [list(p) for p in r]
        else:
            nl = rng.choice([0, 1, 1, 2, 2, 3])
            nr_ = rng.choice([0, 1, 1, 2, 2, 3])
            if nl == 0 and nr_ == 0:
                nr_ = 1
            l = [[s, rng.choice(COEFFS)] for s in rng.sample(pool, min(nl, len(pool)))]
            r = [[s, rng.choice(COEFFS)] for s in rng.sample(pool, min(nr_, len(pool)))]
            if l and rng.random() < 0.25:             # catalyst: a reactant species also on the product side
                s = rng.choice(l)[0]
                if all(p[0] != s for p in r):
                    r.append([s, rng.choice(COEFFS)])
            if rng.random() < 0.06 and l:             # duplicated / zero / negative entries are normalised by RXNSide
                l.append([l[0][0], rng.choice([1, 0, -2])])
        rule = rng.choice(rules)
        z = rng.random()
        if z < 0.6:
            eid = None
        else:
            eid = rng.choice(["x", "e%d" % len(rxns), "", "0", "%s_%d" % (rule or "r", rng.randint(1, 3)), "r_10", "R:r_1", "S:A"]
                             + ([rng.choice(pool)] if adversarial else []))
            if eid in used:
                eid = None
        if eid is not None:
            used.add(eid)
        rxns.append([eid, rule, l, r])
    kept = [rng.choice(["K", "K2", "Zz"])] if rng.random() < 0.15 else []
    cand = pool + kept
    mol = [[s, rng.choice(["CCO", "m1", "O=C=O", "mol 2", "[H+]", ["i", rng.randint(0, 12)], rng.choice(DEGENERATE_MOLS)])]
           for s in cand if rng.random() < 0.3]
    return dict(kept=kept, rxns=rxns, mol=mol)


def _all_bip_views(sp, rp, int_, bv):
    vs = []
    for st, ro, iso, eid, mol in itertools.product([True, False], repeat=5):
        fl = bflags(sp=sp, rp=rp, bv=bv, st=st, ro=ro, iso=iso, int_=int_, eid=eid, mol=mol)
        vs.append(["bip", fl, bool(eid), True])
    return vs


SIDE_ALPHA = "A20 +*_"
FUZZ_ALPHA = ["A", "b", "Cl2", "2", "10", "0", "1", " ", " ", "+", " + ", "*", "_", "-", "∅", "\t", "\x1c", "3 ", "x_1", "|", ">", "="]
LINE_PIECES = ["A", "2A", "2 B", "3*C", "Cl2", "12Cl2", "∅", "", " ", "+", " + ", ">>", " >> ", ">", "|", " | ", "rule=", "rule =", "rule",
               "R1", "r", "id=", "id=r_1", "x y", "0B", "_x", "2_x", "1_0 D", "-1 E", "*", "\t"]


def _fuzz_text(rng, alpha, maxlen):
    return "".join(rng.choice(alpha) for _ in range(rng.randint(0, maxlen)))


def _fuzz_line(rng):
    z = rng.random()
    if z < 0.5:
        # near-valid line with perturbations
        def side():
            n = rng.choice([0, 1, 1, 2, 3])
            if n == 0:
                return rng.choice(["∅", "", " "])
            parts = []
            for _ in range(n):
                c = rng.choice(["", "", "2", "12", "2 ", "3*", "0", "1_0 ", "-2 ", "007"])
                parts.append(c + rng.choice(["A", "B", "Cl2", "G_1", "_x", "e5", "x y", "3"]))
            return rng.choice([" + ", "+", " +", "+ +"]).join(parts)
        line = side() + rng.choice([" >> ", ">>", " >>", ">> ", ">", " >>> "]) + side()
        if rng.random() < 0.7:
            line += rng.choice([" | ", "|", " |", "| ", " || "]) + rng.choice(["rule=", "rule =", "rule= ", "rule", "rules=", "id=z rule=", ""]) \
                + rng.choice(["R1", "r", "a b", "", "x|y", "R1 id=r_3", "rule=q"])
        return line
    return "".join(rng.choice(LINE_PIECES) for _ in range(rng.randint(1, 9)))


def _set_shard(n, tier):
    """Memory: every coqc that loads std++ gmap needs ~450 MB before it evaluates anything, and the framework runs up to 16
    of them at once (7.2 GB).  The cases are therefore cut into at most 16 (quick: one wave, ~7.5 GB) / 10 (thorough: ~5 GB) shards, so that at most
    that many coqc processes exist at a time (~5-6 GB); a shard stays well under the per-shard time-out."""
    global SHARD
    k = 16 if tier == "quick" else 10
    SHARD = max(60, -(-(n + 8) // k))


def gen_cases(tier, rng):
    cases = _gen_cases(tier, rng)
    _set_shard(len(cases), tier)
    return cases


def _gen_cases(tier, rng):
    cases = []
    quick = tier == "quick"
    R = small_reactions()
    # ---- exhaustive small scope: every set of <= 2 of the 90 reactions over 3 species (both tiers); thorough adds every
    #      set of 3 of the 30 reactions over 2 species (all views) and a seeded sample of 12 000 triples of the 90.
    #      (Round 2 generated all 117 480 triples: the framework materialises every case and observable, which cost > 8 GB.)
    for k in range(0, 3):
        for idx in itertools.combinations(range(len(R)), k):
            net = _small_net(rng, [R[i] for i in idx])
            vs = _std_views(rng)
            if quick and k == 2:
                # quick: every pair is generated but goes through ONE of the three views (rotating); singles through all three
                vs = [vs[len(cases) % 3]]
            cases.append(dict(kind="exh-small-%d" % k, net=net, views=vs))
    if not quick:
        R2 = [(a, b) for (a, b) in R if all(i != 2 for i, _ in a + b)]          # 6 complexes over 2 species: 30 reactions
        for idx in itertools.combinations(range(len(R2)), 3):
            cases.append(dict(kind="exh-2species-3", net=_small_net(rng, [R2[i] for i in idx]), views=_std_views(rng)))
        for t in range(12000):
            vs = _std_views(rng)
            cases.append(dict(kind="sample-small-3", net=_small_net(rng, [R[i] for i in rng.sample(range(len(R)), 3)]), views=[vs[t % 3]]))
    # ---- pure catalysts: a species with the same coefficient on both sides that is the ONLY species on one side
    #      (its self-arc is the only carrier of that side in the species graph), plus ordinary catalysis for contrast
    cat_labels = [("S", "E", "P"), ("CC(=O)O", "Fe(OH)3", "C#C")]
    for (S_, E_, P_) in cat_labels:
        for c in (1, 2, 12):
            for rx in ([[S_, 1], [E_, c]], [[E_, c]]), ([[E_, c]], [[E_, c], [P_, 2]]), ([[S_, 3], [E_, c]], [[E_, c]]), \
                      ([[E_, c]], [[E_, c]]), ([[S_, 1], [E_, c]], [[P_, 1], [E_, c]]), ([[E_, c]], [[E_, c + 1]]):
                net = dict(kept=[], rxns=[[None, "r", rx[0], rx[1]], [None, "q", [[S_, 2]], [[P_, c]]]], mol=[[E_, "enz"]])
                cases.append(dict(kind="pure-catalyst", net=net, views=_std_views(rng)))
    # ---- HISTORIES: all steps of a case run on ONE network object in ONE process; after every step the caller edits, in
    #      place, whatever it was handed (parsed networks incl. their sides, exported graphs, line lists: _scramble); every
    #      step must still equal the fresh (pure) evaluation.  Repeated identical views, networks that repeat side texts.
    def hist_views():
        a, b, c = _std_views(rng)
        b[1] = b[5] = True
        z = rng.random()
        if z < 0.3:
            return [b, b, b]
        if z < 0.5:
            return [a, a, c, c]
        return [b, a, c, b, a, c, b]
    nh = 50 if quick else 300
    for t in range(nh):
        net = _small_net(rng, [R[i] for i in rng.sample(range(len(R)), rng.randint(1, 3))])
        cases.append(dict(kind="hist-small", net=net, views=hist_views(), hist=True))
    for t in range(nh):
        net = _rand_net(rng, nsp=rng.randint(2, 6), nrx=rng.randint(2, 8))
        if net["rxns"]:                                   # several reactions print the same side text
            l0, r0 = net["rxns"][0][2], net["rxns"][0][3]
            net["rxns"].append([None, "h", [list(q) for q in l0], [["Zq", 2]]])
            net["rxns"].append([None, "h", [["Zq", 1]], [list(q) for q in r0] or [["Zq", 3]]])
        cases.append(dict(kind="hist-random", net=net, views=hist_views(), hist=True))
    for t in range(12 if quick else 60):                  # the parser alone: the same texts again after the caller edited the results
        texts = [_fuzz_text(rng, FUZZ_ALPHA, 7) for _ in range(8)] + ["2A + B", "A + W", "12Cl2+A", "A"]
        lines = [_fuzz_line(rng) for _ in range(4)] + ["A + W >> B | rule=h", "2B >> C + W", "A + W >> 12D | rule=s"]
        vs = [["side", x] for x in texts] + [["line", x, None, True] for x in lines] + [["parse", lines, "r", True, False]]
        cases.append(dict(kind="hist-parser", views=vs + vs, hist=True))
    # ---- the SAME network object edited in place between two batches of views (add / remove reaction / remove species /
    #      relabel): a view memoised per object, or derived data not refreshed, would show in the second batch
    for t in range(60 if quick else 400):
        net = _rand_net(rng, nsp=rng.randint(2, 6), nrx=rng.randint(1, 6))
        sp = sorted({q[0] for _, _, l, r in net["rxns"] for q in l + r}) or ["A"]
        eds = []
        for _ in range(rng.randint(1, 3)):
            z = rng.random()
            if z < 0.35:
                eds.append(["add", rng.choice([None, None, "new", "r_1"]), rng.choice(["r", "R9", ""]),
                            [[rng.choice(sp + ["Nw"]), rng.choice(COEFFS)]], [[rng.choice(sp + ["Nw2"]), rng.choice(COEFFS)]] if rng.random() < 0.8 else []])
            elif z < 0.55:
                eds.append(["rm_rxn", rng.choice(["r_1", "r_2", "x", "R1_1", "e0", "nope"])])
            elif z < 0.8:
                eds.append(["rm_sp", rng.choice(sp + ["nope"]), rng.random() < 0.7])
            else:
                eds.append(["mol", rng.choice(sp), rng.choice(["CC", ["i", 0], rng.choice(DEGENERATE_MOLS)])])
        if t % 2 == 0:
            # the caller HOLDS backend objects across the edits (cached graph views): asked before and after
            bk = [["backend", a, b, c] for a in (True, False) for b in (True, False) for c in (True, False) if rng.random() < 0.6] or [["backend", False, False, True]]
            cases.append(dict(kind="edit-held-view", net=net, views=bk + _std_views(rng)[:1], edits=eds, views2=bk + bk[:2], held=True))
        else:
            cases.append(dict(kind="edit-in-place", net=net, views=_std_views(rng), edits=eds, views2=_std_views(rng), hist=rng.random() < 0.5))
    # ---- a held backend and ONE in-place edit of each kind (every mutator must count itself: a view cached before it is stale after it);
    #      remove_species with prune_orphans=False on a species that shares its reactions (no reaction dies, nothing else is called)
    for t in range(18 if quick else 90):
        net = _rand_net(rng, nsp=rng.randint(2, 5), nrx=rng.randint(1, 5))
        shared = sorted({q[0] for _, _, l, r in net["rxns"] for q in l + r
                         if q[1] > 0 and len({z[0] for z in l + r if z[1] > 0}) > 1}) or ["A"]
        sp = sorted({q[0] for _, _, l, r in net["rxns"] for q in l + r}) or ["A"]
        one = [["rm_sp", rng.choice(shared), False], ["rm_sp", rng.choice(shared), False], ["rm_sp", rng.choice(sp), True],
               ["rm_rxn", rng.choice(["r_1", "R1_1", "e0", "x"])], ["add", None, "r", [[rng.choice(sp), 2]], [["Nw", 1]]],
               ["mol", rng.choice(sp), "CC"],
               ["merge", _rand_net(rng, nsp=2, nrx=rng.randint(0, 2)), rng.random() < 0.5],
               ["molmap", [[rng.choice(sp + ["nope"]), "m%d" % j] for j in range(rng.randint(0, 2))], False, rng.random() < 0.5],
               ["molmap", [[rng.choice(sp), ["i", 0]]], True, False]][t % 9]
        bk = [["backend", a, b, c] for a in (True, False) for b in (True, False) for c in (True, False)]
        rng.shuffle(bk)
        cases.append(dict(kind="edit-held-view", net=net, views=bk[:5], edits=[one], views2=bk[:5] + bk[:2], held=True))
    # ---- node markers and import options: every marker pair (default, swapped, booleans, equal, strings, mixed) x id mode in
    #      export -> import round trips (the importer classifies by `kind`; the marker is an opaque attribute it must ignore),
    #      and non-default species_prefix / reaction_prefix / default_rule on the import side (irrelevant when `kind` is present)
    for t in range(6 if quick else 30):
        net = _rand_net(rng, nsp=rng.randint(2, 6), nrx=rng.randint(1, 6))
        vs = []
        for bv in MARKERS:
            for int_ in (False, True):
                vs.append(["bip", bflags(bv=bv, int_=int_, ro=rng.random() < 0.5, iso=rng.random() < 0.5), True, True])
        for io in IMPORT_OPTS:
            vs.append(["bip", bflags(bv=rng.choice(MARKERS), int_=rng.random() < 0.5), True, rng.random() < 0.8, io])
            vs.append(["bip", bflags(sp=None, rp=None, int_=True), True, True, io])
        vs += [["sg", True, True, dict(dr="zz", rename=True)], ["sg", True, False, dict(dr="", rename=False)], ["sg", False, True, dict(dr="q", rename=True)]]
        rng.shuffle(vs)
        cases.append(dict(kind="markers", net=net, views=vs, hist=(t % 3 == 2)))
    # ---- (round 5) the caller DELETES attributes from the exported graph before importing it: the importer's fall-backs
    #      (kind -> id prefixes -> degrees; label -> str(node) / default_rule; stoich -> 1; mol absent) on real exports
    for t in range(24 if quick else 200):
        net = _rand_net(rng, nsp=rng.randint(1, 6), nrx=rng.randint(0, 6), adversarial=(t % 4 == 1)) if t % 6 else dict(kept=["K"], rxns=[], mol=[["K", "m"]])
        dvs = []
        for _ in range(14):
            sp, rp = rng.choice(PREFIXES)
            fl = bflags(sp=sp, rp=rp, bv=rng.choice(MARKERS[:6]), st=rng.random() < 0.85, ro=rng.random() < 0.7, iso=rng.random() < 0.6,
                        int_=rng.random() < 0.3, eid=rng.random() < 0.9, mol=rng.random() < 0.7)
            z = rng.random()
            if z < 0.1:
                d = drops()
            elif z < 0.55:                                   # one deletion
                d = drops(**{rng.choice(DROP_KEYS): True})
            elif z < 0.7:                                    # untagged graph
                d = drops(ksp=True, krx=True, mk=rng.random() < 0.5)
            else:
                d = {k: rng.random() < 0.35 for k in DROP_KEYS}
            # importer prefixes: the exporter's own (so that the prefix fall-back can work), the defaults, or something else
            z = rng.random()
            if z < 0.6:
                io = dict(isp=sp or "", irp=rp or "", dr=rng.choice(["r", "r", "zz", ""]))
            elif z < 0.8:
                io = dict(isp="S:", irp="R:", dr="r")
            else:
                io = rng.choice(IMPORT_OPTS[:4])
            dvs.append([fl, d, rng.random() < 0.8, dict(isp=io["isp"], irp=io["irp"], dr=io["dr"])])
        cases.append(dict(kind="bip-edit", net=net, views=[], dviews=dvs, hist=(t % 4 == 3)))
    # ---- (round 5) the same for the species graph: per-reaction maps deleted (legacy per-arc minima are used), legacy values too
    #      (coefficient 1), rule sets (default rule), labels (node id), mol
    for t in range(20 if quick else 150):
        net = _rand_net(rng, nsp=rng.randint(1, 5), nrx=rng.randint(0, 6), adversarial=(t % 5 == 1))
        if t % 3 == 0 and net["rxns"]:                      # arcs shared by several reactions, equal and different coefficients
            e0 = net["rxns"][0]
            net["rxns"].append([None, "h", [list(q) for q in e0[2]], [list(q) for q in e0[3]]])
            net["rxns"].append([None, e0[1], [[q[0], q[1] + 1] for q in e0[2]], [list(q) for q in e0[3]]])
        svs = []
        for _ in range(10):
            z = rng.random()
            if z < 0.1:
                d = sdrops()
            elif z < 0.6:
                d = sdrops(**{rng.choice(SDROP_KEYS): True})
            elif z < 0.75:                                   # the legacy format: no per-reaction maps
                d = sdrops(rmap=True, pmap=True, legr=rng.random() < 0.2, legp=rng.random() < 0.2, rules=rng.random() < 0.3)
            else:
                d = {k: rng.random() < 0.4 for k in SDROP_KEYS}
            d = dict(d, vl=rng.choice([0, 0, 1, 2]), rs=rng.random() < 0.3)
            svs.append([rng.random() < 0.7, d, rng.random() < 0.8, rng.choice(["r", "r", "zz", ""])])
        cases.append(dict(kind="sg-edit", net=net, views=[], sviews=svs, hist=(t % 4 == 3)))
    # ---- (round 5) parse_rxns on a network that already holds reactions: ids continue the per-rule counters (r_1, r_2 taken; explicit
    #      ids that look generated), a raising line leaves the earlier lines, several batches on the same object
    for t in range(16 if quick else 120):
        net = _rand_net(rng, nsp=rng.randint(1, 5), nrx=rng.randint(1, 6))
        if t % 2 == 0:
            net["rxns"].append(["r_2", "r", [["A", 1]], [["B", 1]]])          # a caller-chosen id the generator will reach
        batches = []
        for _ in range(rng.randint(1, 3)):
            items = []
            for _ in range(rng.randint(1, 4)):
                line = rng.choice([_fuzz_line(rng), "A + 2B >> C | rule=r", "A>>B|rule = R1", "A >> B", "2 X >> Y | id=3", "C >> D | rule=r", "no arrow"])
                items.append([line, rng.choice([None, None, None, "r", "R1", ""])])
            batches.append([rng.choice(["tuples", "tuples", "mapping", "rules"]), items, rng.choice(["r", "dflt"]), rng.random() < 0.7, rng.random() < 0.4])
        cases.append(dict(kind="parse-into", net=net, views=[], batches=batches))
    # ---- (round 5) conversion._as_bipartite on UNDIRECTED bipartite graphs (Graph / MultiGraph): incidences in either endpoint order and any
    #      sequence, catalysts (two incidences between one pair of nodes: parallel edges of a multigraph, merged in a simple graph),
    #      duplicated incidences (coefficients add up), `kind` absent (marker fall-back), `role` / `stoich` absent
    for t in range(20 if quick else 150):
        ugs = []
        for _ in range(6):
            net = _rand_net(rng, nsp=rng.randint(1, 5), nrx=rng.randint(1, 5))
            int_ = rng.random() < 0.3
            nokind = rng.random() < 0.25
            nodes, edges, ids = [], [], {}
            sp = sorted({q[0] for _, _, l, r in net["rxns"] for q in l + r if q[1] > 0})
            for i, x in enumerate(sp):
                ids[("s", x)] = (i + 1) if int_ else "S:" + x
                a = dict(bipartite=0, label=x, kind="species")
                if nokind:
                    a.pop("kind")
                nodes.append([ids[("s", x)], a])
            for j, (e, rule, l, r) in enumerate(net["rxns"]):
                eid = e if e is not None else "e%d" % j
                rid = (len(sp) + j + 1) if int_ else "R:" + eid
                a = dict(bipartite=1, label=rule or "r", kind="reaction", edge_id=eid)
                if nokind:
                    a.pop("kind")
                nodes.append([rid, a])
                for side, role in ((l, "reactant"), (r, "product")):
                    for x, c in side:
                        if c <= 0:
                            continue
                        d = dict(stoich=c, role=role)
                        if rng.random() < 0.1:
                            d.pop("stoich")
                        if rng.random() < 0.08:
                            d.pop("role")
                        u, v = ids[("s", x)], rid
                        if rng.random() < 0.5:
                            u, v = v, u
                        edges.append([u, v, d])
                        if rng.random() < 0.1:
                            edges.append([v, u, dict(d)])          # a duplicated incidence
            rng.shuffle(nodes)
            rng.shuffle(edges)
            ugs.append([dict(multi=rng.random() < 0.6, nodes=nodes, edges=edges), rng.random() < 0.8, dict(isp="S:", irp="R:", dr="r")])
        cases.append(dict(kind="undirected", views=[], ugraphs=ugs))
    # ---- wrappers / facades of the converters: _as_bipartite (own defaults: integer ids), _as_species_graph, _CRNGraphBackend
    for t in range(10 if quick else 60):
        net = _rand_net(rng, nsp=rng.randint(1, 6), nrx=rng.randint(0, 6))
        vs = [["asbip", {}], ["asbip", {"int": False}], ["asbip", {"st": False}], ["asbip", {"sp": "X:", "rp": "Y:", "int": False, "st": False}],
              ["asbip", {"rp": "Q/", "int": True}], ["assg"]]
        vs += [["backend", a, b, c] for a in (True, False) for b in (True, False) for c in (True, False)]
        rng.shuffle(vs)
        cases.append(dict(kind="wrappers", net=net, views=vs, hist=(t % 2 == 1)))
    # ---- parse_rxns with explicit per-line rules: tuples, longer tuples, a mapping, lines zipped with rules=; prefer_suffix
    for t in range(30 if quick else 200):
        vs = []
        for _ in range(6):
            items = []
            for _ in range(rng.randint(0, 4)):
                line = rng.choice([_fuzz_line(rng), "A + 2B >> C | rule=S1", "A>>B|rule = S2", "A >> B", "2 X >> Y | id=3", "A >> B | rules=Q"])
                items.append([line, rng.choice([None, None, "Rx", "", "a b", "E_1"])])
            vs.append(["items", rng.choice(["tuples", "tuples", "tuples3", "mapping", "rules"]), items, rng.choice(["r", "dflt"]),
                       rng.random() < 0.7, rng.random() < 0.5])
        cases.append(dict(kind="parse-items", views=vs))
    # ---- sizes: >= 100 species / reactions (three-digit integer node ids, generated ids r_100..)
    for t in range(2 if quick else 6):
        n = rng.randint(100, 130)
        pool = ["M%d" % i for i in range(n)]
        rxns = []
        for i in range(rng.randint(100, 140)):
            l = [[x, rng.choice(COEFFS)] for x in rng.sample(pool, rng.choice([1, 1, 2, 3]))]
            r = [[x, rng.choice(COEFFS)] for x in rng.sample(pool, rng.choice([1, 1, 2, 3]))]
            rxns.append([None, rng.choice(["r", "r", "r", "big"]), l, r])
        mol = [[x, ["i", i]] for i, x in enumerate(pool) if i % 7 == 0]
        cases.append(dict(kind="big", net=dict(kept=[], rxns=rxns, mol=mol), views=_std_views(rng)))
    # ---- many reactions under one rule: generated ids r_10.. (sorted as strings before r_2), two-digit integer node ids
    for t in range(12 if quick else 60):
        net = _rand_net(rng, nsp=rng.randint(6, 10), nrx=rng.randint(11, 15))
        for q in net["rxns"]:
            q[1] = "r"
        cases.append(dict(kind="many-ids", net=net, views=_std_views(rng)))
    # ---- every bipartite flag combination on a few networks (string and integer ids, each prefix pair)
    nsweep = 4 if quick else 16
    for t in range(nsweep):
        net = _rand_net(rng, nsp=rng.randint(2, 5), nrx=rng.randint(1, 4))
        for (sp, rp) in PREFIXES:
            for int_ in (False, True):
                if int_ and (sp, rp) != ("S:", "R:"):
                    continue
                vs_ = _all_bip_views(sp, rp, int_, (0, 1) if t % 2 == 0 else MARKERS[(3 * t + len(cases)) % len(MARKERS)])
                if t % 2 == 1:
                    rng.shuffle(vs_)                      # non-default options first, defaults later (and the reverse)
                cases.append(dict(kind="flag-sweep", net=net, views=vs_, hist=(t % 4 >= 2)))
        svs = []
        for inc_rule, inc_id, srt, ps, pf in itertools.product([True, False], repeat=5):
            svs.append(["str", inc_rule, inc_id, srt, "dflt", ps, pf])
        svs += [["sg", a, b] for a in (True, False) for b in (True, False)]
        cases.append(dict(kind="flag-sweep", net=net, views=svs))
    # ---- seeded random networks
    for t in range(500 if quick else 6000):
        cases.append(dict(kind="random", net=_rand_net(rng), views=_std_views(rng)))
    # ---- adversarial labels / ids / rules (outside the string domain, colliding node names): correspondence only
    for t in range(200 if quick else 2500):
        net = _rand_net(rng, nsp=rng.randint(1, 5), nrx=rng.randint(1, 4), adversarial=True)
        vs = _std_views(rng)
        vs[0][1]["sp"], vs[0][1]["rp"] = rng.choice([(None, None), (None, None), ("S:", None), ("", "")])
        vs[0][1]["int"] = False
        cases.append(dict(kind="adversarial", net=net, views=vs))
    # ---- RXNSide.from_str: every short text over a small alphabet + random longer ones
    texts = [""]
    for n in range(1, 5 if quick else 6):
        texts += ["".join(t) for t in itertools.product(SIDE_ALPHA, repeat=n)]
    B = 40
    for i in range(0, len(texts), B):
        cases.append(dict(kind="exh-side", views=[["side", t] for t in texts[i:i + B]]))
    for t in range(60 if quick else 600):
        cases.append(dict(kind="fuzz-side", views=[["side", _fuzz_text(rng, FUZZ_ALPHA, 9)] for _ in range(B)]))
    # ---- add_rxn_from_str / parse_rxns on fuzzed lines
    for t in range(60 if quick else 600):
        vs = []
        for _ in range(20):
            vs.append(["line", _fuzz_line(rng), rng.choice([None, None, "Rx"]), rng.random() < 0.8])
        for _ in range(4):
            vs.append(["parse", [_fuzz_line(rng) for _ in range(rng.randint(0, 4))], rng.choice(["r", "dflt"]), rng.random() < 0.7,
                       rng.random() < 0.5])
        cases.append(dict(kind="fuzz-line", views=vs))
    return cases


LEVEL_TEXT = ("Machine-checked proof (Coq, axiom-free) over an executable model of the three view converters, for ALL networks "
              "satisfying a decidable well-formedness predicate wf16 that the store invariant of C15 implies (C16_inv_wf): "
              "(1) C16_bipartite_roundtrip: bipartite export with edge ids and coefficients (string node ids with any prefix pair that "
              "causes no species/reaction name clash - in particular the defaults, C16_default_prefixes_ok - or integer node ids; all "
              "other flags free) followed by import with any import flags raises no error and returns the same id -> (rule, "
              "reactants, products) map, the occurring species, and exactly their molecule labels; "
              "(2) C16_strings_roundtrip (+ C16_side_roundtrip: RXNSide.from_str inverts the side printer, decimal coefficients of any "
              "size): printing with the rule suffix and parsing back returns the same multiset of (rule, reactants, products) for "
              "labels [A-Za-z][^\\s+*|>]* (a letter, then anything but white space and the separators + * | >: identifiers, formulae, "
              "SMILES-like labels such as CC(=O)O, C#C, Fe(OH)3) and blank-free rules; C16_label_domain_refuted shows a restriction is necessary "
              "(known finding); (3) C16_species_graph_roundtrip: for every network whose reactions all have reactants and products, "
              "collapse + reconstruction returns the same ids with the same reactant and product coefficient maps, including when "
              "several reactions share a species pair (C16_species_graph_roundtrip_full: also the species and the molecule labels of the "
              "rebuilt network). Round 3: parse_rxns with explicit per-line rules is modelled (C16_parse_plain_is_items, "
              "C16_strings_roundtrip_explicit_rules, C16_strings_roundtrip_prefer_suffix), the string round trip keeps the reaction "
              "sequence (C16_strings_roundtrip_order), the premise survives in-place edits (C16_edited_wf), and the facades' defaults are "
              "Gallina definitions (C16_as_bipartite_defaults). Round 5: C16_bipartite_roundtrip_any_stoich (every flag combination that exports the ids: "
              "without coefficients exactly the supports come back), C16_bipartite_roundtrip_edited / C16_untagged_default_prefixes (the round trip "
              "survives the deletion of every attribute the importer can re-derive - kind from the id prefixes, label from the node id / default rule, "
              "mol, marker - with each premise shown necessary) and C16_species_graph_roundtrip_edited (ids and coefficients come back from via + "
              "per-reaction maps alone) / C16_species_graph_roundtrip_legacy (without the maps: from the legacy per-arc values when the reactions of "
              "every shared arc agree); C16_built_networks_consistent (every network an importer or the parser builds, from any graph / any text, satisfies the "
              "store invariant of C15, also when the call raises midway); C16_parse_default_rule (after a repo fix); C16_undirected_roundtrip (_as_bipartite orients any "
              "undirected presentation of an exported graph back to the exported DiGraph). The model is tied to the Python code by comparing, on every run, the "
              "intermediate view (all nodes, arcs and attributes, or the printed lines) and the reconstructed network for thousands of "
              "generated networks and flag combinations (exhaustive small scope + random + adversarial + fuzzed parser input), including "
              "HISTORIES: repeated round trips on one shared network object while the caller edits, in place, every result it was handed, "
              "and the same object edited in place between batches of views; every step is compared with the (pure) model and judged by "
              "the oracle against a fresh build.")
LEVEL_NOTE = ("Trusted: Coq kernel + vm_compute, std++; the hand-written model (C16_Model.v on C15_Model.v) and the harness encoders; "
              "networkx DiGraph attribute-merge semantics; CPython str/re/int on ASCII text. Not claimed: rules after a species-graph "
              "round trip (merged rule sets, arbitrary pick), insertion order and labels of reaction-less kept species after the graph "
              "round trips, imports of graphs without id attributes (ids synthesised from hash(): outside the model). Two known "
              "findings outside the stated preconditions are reported by key (label domain of the text format; un-prefixed node-name clash).")
TECHNIQUE = "Coq proof over a Gallina model (std++ gmap/gset) + per-run correspondence (vm_compute digest vs implementation) + Python oracle"
DESIGN_REF = "DESIGN.md section 5 C16, Appendix A.3; notes/C16.md"
