"""C01 — ITS encoding of a mapped reaction is lossless and invertible.

case kinds
  {"kind": "exh1"|"exh2"|"exh3"|"samp4"|"random"|"malformed"|"regress", "G": <json graph>, "H": <json graph>}
        synthetic reactant/product graphs (harness/gen/c01_enc.py format)
  {"kind": "corpus"|"rw-renum"|"rw-reroot"|"rw-frag"|"rw-rev"|"corpus-malformed", "rsmi": "...", "src": "uspto#3"}
        a reaction SMILES; (G, H) = rsmi_to_graph(rsmi)
Observable: the ITS (sorted nodes with top-level attributes + typesGH, sorted edges with order pair and
standard_order) and both graphs returned by its_decompose.
"""
import itertools

from ..gen import c01_enc as E
from ..gen import c01_rsmi as R
from ..gen import c01_str as T
from ..gen import c01_hist as HI
from ..gen import c01_misc as MI
from ..gen import c01_rs as RS

PID = "C01"
COQ_HEADER = ("From Coq Require Import List NArith ZArith.\nFrom SK Require Import lib.Tok lib.LGraph model.C01_Model model.C02_Model model.C01_Opts model.C01_String model.C01_Attrs model.C01_CleanWc model.C01_Rsmi model.C01_Nbrs model.C01_Conv model.C01_G2M model.C01_Rewrite model.C01_DecRaw model.C01_Prem model.C01_Builders proof.C01_UnmappedDefs.\nFrom Coq Require Import String.\n"
              "Import ListNotations.\nOpen Scope Z_scope.\n")
SHARD = 400
IMPL_TIMEOUT = 1500
COQ_TIMEOUT = 900
RULE = ("reactant/product graph pairs (synthetic on a shared node set, malformed ones violating the shared-node-set "
        "precondition, and (G,H)=rsmi_to_graph(r) for corpus reactions and their rewritings), each also under the options of "
        "ITSConstruction; reaction strings through the whole rsmi_to_its / its_to_rsmi pipeline; molecules through MolToGraph; molecule "
        "graphs with explicit hydrogens through implicit_hydrogen + GraphToMol; non-trivial = balanced pair (same node ids, positive "
        "orders) in which at least one bond differs between the sides (ih: non-empty preserve set); distinct = distinct case inputs")
EXHAUSTIVE = {"quick": True, "thorough": True}
EXPLANATION = ("Exhaustive sub-space (both tiers): ALL pairs (G,H) on a shared node set of 1 and 2 nodes over element in {C,H}, "
               "per side hcount {0,1} x charge {0,1}, per side order {absent,1,1.5,2} (32 + 16384 pairs); on 3 nodes all 4096 "
               "assignments of per-side orders {absent,1,1.5,2} to the three pairs with PRNG node labels; on 2 carbon atoms all 16 order "
               "pairs x every value of (ignore_aromaticity, balance_its, store, ITSGraph|construct) (256). Sampled: 4-node pairs, "
               "random pairs up to 9 nodes, malformed pairs (different node sets, order 0 edges, atom_map != id), random / malformed / "
               "aromatisation pairs under PRNG options incl. attributes_defaults, corpus reactions (graph.pkl.gz 100 + ecoli 274) and "
               "map-renumbering (also into 100..2000) / re-rooting / fragment-shuffle / reversal / explicit-hydrogen rewritings plus hand-made "
               "reactions (two reacting hydrogens on one atom, H2, spectator H2, %10 ring closures, explicit proton), each both as a graph "
               "pair and through the instrumented string pipeline (kinds str-*: the graphs of rsmi_to_graph, the ITS, the preserve list and "
               "the two graphs its_to_rsmi hands to GraphToMol, the two RWMol contents), and with rsmi_to_its(explicit_hydrogen=True) "
               "(kinds str-eh-*: the explicit-hydrogen ITS of h_to_explicit, then the same pipeline) and with rsmi_to_its(core=True) / "
               "its_to_rsmi(explicit_hydrogen=True) (kinds str-wopt-*); MolToGraph.transform under all four flag "
               "combinations on fragments with atoms unmapped / maps duplicated; implicit_hydrogen + GraphToMol on synthetic graphs with "
               "explicit hydrogens. Theorems: round trip, union + order pair + difference, equivariance, refutation without the "
               "shared-node-set precondition; the same for every option value and both store modes, the exact effect of "
               "ignore_aromaticity on standard_order; closed form of MolToGraph.transform, implicit_hydrogen (hydrogen total preserved, "
               "decrement once per preserved hydrogen, order independent), GraphToMol, the graphs its_to_rsmi writes, h_to_explicit on an ITS (as "
               "repaired by /repo 61e730e); renumbering of the atom maps commutes with molecule graphs, ITS, reaction centre and the graphs "
               "its_to_rsmi writes; string round trip relative to a contract on RDKit alone.  Round 3: HISTORY cases (kinds hist-str, hist-pair: "
               "3-9 calls in one process on the same strings / shared graph objects, attribute selections and modes in changing order, in-place "
               "edits, spoiled results, positional wrappers; the library's modules are re-executed before each history), degenerate values "
               "(empty sides, single atoms, id 0, huge ids, falsy labels), reactions of 110-170 atoms, every builder of MolToGraph, GraphToMol "
               "options, graph_to_rsmi without ITS, and option paths without a model of their own checked against the reference path (api-misc).  "
               "Round 4: caller-chosen node_attrs - rsmi_to_its(node_attrs=sorted / reversed / permuted / repeated / reduced list) through "
               "the whole pipeline (str-na-*), construct(node_attrs=L) with the positional its_decompose over untyped values (attrs), "
               "clean_wc / its_to_rsmi(clean_wildcards=True) at text level (cwc).  Round 5: the WHOLE-STRING level (kinds rs-split, rs-str: "
               "rsmi.split('>>') on adversarial strings, rsmi_to_graph / rsmi_to_its / its_to_rsmi under every option - drop_non_aam, sanitize, "
               "use_index_as_atom_map, core, explicit_hydrogen (before core), writer sanitize / explicit_hydrogen / clean_wildcards - with "
               "unparsable / unsanitisable sides, wrong numbers of '>>', sides the writer refuses: value, None and exception are told apart); "
               "the 'neighbors' lists are computed by the model from the bonds in every reaction-string case; one MolToGraph converter object "
               "through 4-9 transform / transform_store / .graph calls with recurring Mol objects (conv-hist); GraphToMol on graphs with attributes "
               "deleted at random (g2m-abs); its_decompose on ITS-shaped graphs with typesGH / product tuples / orders missing (dec-raw); RDKit "
               "readings of re-rooted / fragment-shuffled sides against the executable rewriting test (rw-premise); explicit-hydrogen rewritings with "
               "parentless hydrogen species as spectators (str-exph-lone).")
TRUSTED_BASE = [
    "Coq 8.16.1 kernel + vm_compute (no native_compute); stdlib only",
    "hand-written models coq/model/C01_Model.v, C01_Opts.v (ITSConstruction options), C01_String.v (MolToGraph.transform, implicit_hydrogen, "
    "GraphToMol, h_to_explicit on an ITS, rsmi_to_its / its_to_rsmi glue; uses get_rc of C02_Model.v), C01_Attrs.v, C01_CleanWc.v, C01_Rsmi.v (the six "
    "string functions on whole strings), C01_Nbrs.v (neighbors), C01_Conv.v (converter object), C01_G2M.v, C01_DecRaw.v (absent-attribute branches), "
    "C01_Builders.v (legacy builders), C01_Rewrite.v / C01_Prem.v (executable hypothesis tests) tied to synkit/Graph/ITS/{its_construction,its_decompose}.py, "
    "synkit/IO/{chem_converter,mol_to_graph,graph_to_mol}.py, synkit/Graph/Hyrogen/_misc.py, synkit/Chem/Molecule/atom_features.py (neighbors) by the per-run correspondence",
    "harness encoders harness/gen/c01_enc.py, c01_str.py (nx graph / RDKit Mol -> Gallina literal, half-unit bond orders, injective element "
    "interning; attributes -> tok; monkeypatched recording of the graphs its_to_rsmi passes to GraphToMol and of the preserve set)",
    "networkx Graph / copy.deepcopy / copy.copy semantics",
    "RDKit: MolFromSmiles, SanitizeMol, atom/bond getters, RWMol construction, MolToSmiles - parameters rd_read / rd_write of theorem "
    "C01_rsmi_pipeline with contract R1 (premise), monitored on every corpus case, not verified.  Since round 5 'neighbors' is computed by "
    "the model from the bond list (model/C01_Nbrs.v: other ends of the atom's bonds, insertion sort by the bytes decoded from the interned "
    "symbol code); trusted there: RDKit's GetNeighbors = the atoms joined by GetBonds, Python's str order on ASCII = byte order",
    "whole-string level (model/C01_Rsmi.v): RDKit enters as two finite tables recorded per case by harness/gen/c01_rs.py (reader: plain RDKit "
    "calls on the two parts; writer: digest of the RWMol content -> what MolToSmiles returned inside the implementation's own graph_to_smi)",
]
ASSUMPTIONS = [
    "node ids are natural numbers; atom_map, hcount, charge are integers; bond orders are multiples of 0.5",
    "balanced = reactant and product graph have the same node-id set (for strings: equal atom-map sets, every atom mapped, maps unique per side)",
    "its_decompose reads typesGH positionally (element, aromatic, hcount, charge = positions 0..3): the round trip is claimed for "
    "construct(node_attrs=L) only when L starts with these four names (theorem C01_attrs_legacy_prefix; refuted otherwise, C01_attrs_order_refuted); "
    "rsmi_to_its always passes the legacy list, whatever node_attrs the caller gives",
    "RDKit contract R1 (premise of C01_rsmi_pipeline): for a well-formed graph that is the MolToGraph reading of a molecule RDKit has read, "
    "reading back what RDKit writes for GraphToMol's RWMol gives the same mapped graph",
    "hydrogen balance (theorems C01_hydrogen_balance, C01_string_hydrogen_balance, C01_h_to_explicit_balance): no hydrogen atom is bonded to two "
    "non-hydrogen atoms (one_parent) and an atom that is a hydrogen on a side has hcount 0 there (h_safe) - both hold for every sanitised RDKit reading; "
    "isotope labels and stereo descriptors are not carried by the ITS and are ignored when the unmapped sides are compared",
    "atom-map-equivalence of strings is taken modulo spectator explicit hydrogens (a mapped H bonded to the same single heavy atom on both "
    "sides): its_to_rsmi writes those implicitly by design",
]
TESTED_NOT_PROVED = [
    "rsmi_to_graph agrees with an independent RDKit reading of the reaction (element, charge, total H, aromaticity per atom map, bond orders): oracle on every str-* case",
    "its_to_rsmi(rsmi_to_its(r)) is atom-map-equivalent to r (ITS isomorphism, independent reading, modulo spectator explicit hydrogens) and has the "
    "same unmapped sides: oracle on every balanced, fully mapped corpus case, rewriting and hand-made reaction (RDKit contract R1 + totality of the writer)",
    "reactions with explicit reacting hydrogens end to end: the graph-level statements are theorems C01_implicit_hydrogen and C01_its_to_graphs, the "
    "string-level conclusion (C01_rsmi_pipeline) is proved only for reactions without explicit hydrogen atoms (for the writer option "
    "explicit_hydrogen=True it is proved for all balanced reactions: C01_rsmi_pipeline_explicit)",
    "RDKit reads a re-rooted / fragment-shuffled SMILES as the same atoms in another index order with the same bonds (hypothesis `rewritten` of "
    "C01_rewriting_invariant / C01_written_invariant): evaluated by the proved-sound executable test rewrittenb on every rw-premise case",
    "implicit_hydrogen and h_to_explicit conserve hydrogen atoms + hcounts on the implementation itself: oracle clauses implicit-h-balance (every ih case "
    "without bridging hydrogens) and eh-h-balance (every str-eh-* case)",
    "CU (premise of C01_unmapped_string): the unmapped form of a side RDKit reads (maps removed, RemoveHs, canonical SMILES of the fragments) is a "
    "function of the unmapped molecule graph - its instances are evaluated on every str-unm case (proved-sound test unmapped_eqb on the model side, "
    "RDKit's unmapped forms on the implementation side) and by the oracle clauses string-unmapped / string-unmapped-graph",
    "W0: what MolToSmiles returns never contains '>' (premise of C01_rsmi_string_roundtrip / _explicit): oracle clause string-format on every rs-str "
    "case with default options, and the str-* oracle requires exactly one '>>' in what its_to_rsmi writes",
    "implicit_hydrogen keeps every non-hydrogen atom's total H on graphs whose hydrogens have one bond: oracle on every ih case (theorem C01_implicit_hydrogen for all well-formed graphs)",
]
LEVEL_TEXT = ("Machine-checked proof (Coq, 64 theorems) over an executable model of ITSConstruction.construct/ITSGraph and its_decompose: for all well-formed "
              "reactant/product graphs on the same node set with positive bond orders, decompose(construct(G,H)) returns exactly G and H "
              "(atoms, element, aromaticity, hydrogen count, charge, atom_map = node id, every bond with its order) - for every value of "
              "ignore_aromaticity, balance_its, store and attributes_defaults; the ITS has exactly the union of the nodes and bonds, every bond "
              "carrying (order_G or 0, order_H or 0) and standard_order = their difference (zeroed below one unit under ignore_aromaticity, "
              "proved exactly); both functions commute with every injective renumbering; without the shared-node-set precondition the round "
              "trip fails (witness). The string half is modelled between the RDKit calls: MolToGraph.transform in closed form (mapped atoms, "
              "bonds between them, atom_map = id), implicit_hydrogen (reaction-centre hydrogens stay, all others are folded, every atom's "
              "hydrogen total is preserved, decrement once per preserved hydrogen), GraphToMol up to the RWMol, and the string round trip "
              "its_to_rsmi(rsmi_to_its(r)) relative to a written-out contract on RDKit's reader/writer alone; renumbering the atom maps of a "
              "reaction commutes with the molecule graphs, the ITS, the reaction centre and what its_to_rsmi writes. Every model is compared "
              "with the Python code on every run, including the intermediate graphs recorded inside its_to_rsmi, and in multi-call histories "
              "on shared objects (the model is pure, so every step must equal the fresh value). Round 5: the six string functions of "
              "chem_converter are modelled on whole strings (split at '>>' proved inverse to the f'{r}>>{p}' assembly, every failure mode as value / "
              "None / exception, option order explicit_hydrogen-before-core, clean_wildcards) and the string round trip is proved for the whole "
              "reaction string relative to the RDKit contract plus 'MolToSmiles never emits >'; the neighbors attribute (sorted neighbour symbols) "
              "is computed by the model and proved sorted, a permutation of the bonded atoms' symbols and independent of RDKit's enumeration order; "
              "the property's quantifier is proved inside the model: construct / decompose / the writer's input are extensional, invariant under "
              "re-rooting and fragment reordering of the SMILES (hypothesis tested on real RDKit readings by a proved-sound executable check) and "
              "reversal swaps the halves; the MolToGraph object is a state machine whose .graph is the last successful transform_store; GraphToMol "
              "and its_decompose are modelled with every absent-attribute branch. Round 6: the clause 'same unmapped reactants and products' is a theorem - "
              "at the graph level at full strength (what is handed to the writer is the input up to the identity on everything except atom_map, the same "
              "unmapped molecules with the same fragments), at the string level relative to the written-out RDKit contracts W0, P1-P4, CU.")
LEVEL_NOTE = ("Two defects found and repaired: rsmi_to_its(explicit_hydrogen=True) double-counted hydrogens on the product side "
              "(its_to_rsmi returned None for 346/346 corpus reactions), /repo commit 61e730e; implicit_hydrogen deleted hydrogens without a "
              "non-hydrogen neighbour (a lone H+ / H / H- spectator vanished from both sides of its_to_rsmi's output whenever another hydrogen was in "
              "the reaction centre), /repo commit 3ba7a77; regress corpus + known_findings.d/C01.json for both, the model follows the repaired code. "
              "RDKit (parse, sanitise, write) is a named premise (contract R1 of theorem C01_rsmi_pipeline), monitored by an independent-reading "
              "oracle on the corpora, not verified; the string-level theorem covers reactions without explicit hydrogen atoms, reactions with "
              "explicit hydrogens under the default writer is proved relative to a four-premise contract (C01_rsmi_pipeline_hydrogens). "
              "its_to_rsmi(clean_wildcards=True) is lossy by design (C01_clean_wildcards_refuted) and outside the oracle.")


def worker_init():
    import logging
    logging.disable(logging.CRITICAL)


# ------------------------------------------------------------------ the two graphs of a case

def _graphs_nx(case):
    """-> (G, H) networkx graphs or None when the reaction string does not yield two graphs."""
    if "rsmi" in case:
        from synkit.IO.chem_converter import rsmi_to_graph
        G, H = rsmi_to_graph(case["rsmi"])
        if G is None or H is None:
            return None
        return G, H
    return E.to_nx(case["G"]), E.to_nx(case["H"])


# ------------------------------------------------------------------ implementation adapter

def impl(case):
    from synkit.Graph.ITS.its_construction import ITSConstruction
    from synkit.Graph.ITS.its_decompose import its_decompose
    k = case.get("kind", "")
    if k == "rs-split":
        return RS.obs_split(case["s"])
    if k == "rs-str":
        return RS.obs_rs(case)
    if k == "conv-hist":
        return RS.obs_conv(case)
    if k == "g2m-abs":
        return T.obs_g2m(case["G"], case["ibo"], case["uhc"])
    if k == "rw-premise":
        return RS.obs_rw_premise(case)
    if k == "dec-raw":
        return RS.obs_dec_raw(case)
    if k == "str-prem":
        return RS.obs_prem(case)
    if k == "str-unm":
        return RS.obs_unm(case, _unmapped_side)
    if k == "api-misc":
        return MI.obs(case)
    if k == "attrs":
        return MI.obs_attrs(case)
    if k == "cwc":
        return MI.obs_cwc(case)
    if k == "hist-str":
        return HI.obs_hist_str(case)
    if k == "hist-pair":
        return HI.obs_hist_pair(case)
    if k.startswith("str-na"):
        return T.obs_pipeline_na(case["rsmi"], case["node_attrs"])
    if k.startswith("str-eh"):
        return T.obs_pipeline_eh(case["rsmi"])
    if k.startswith("str-wopt"):
        return T.obs_pipeline_opts(case["rsmi"])
    if k.startswith("str-"):
        return T.obs_pipeline(case["rsmi"])
    if k == "m2g":
        return T.obs_m2g(case["smiles"], case["drop"], case["use"], case.get("api", "transform"))
    if k == "g2r":
        return T.obs_g2r(case["rsmi"])
    if k == "g2m":
        return T.obs_g2m(case["G"], case["ibo"], case["uhc"])
    if k == "ih":
        return T.obs_ih(case["G"], case["pres"])
    gh = _graphs_nx(case)
    if gh is None:
        return ["unparsable"]
    G, H = gh
    if "opts" in case:
        its = E.call_construct(G, H, case["opts"])
        g2, h2 = its_decompose(its)
        return [E.obs_its_store(its) if case["opts"].get("store") else E.obs_its(its), E.obs_mgraph(g2), E.obs_mgraph(h2)]
    its = ITSConstruction.ITSGraph(G, H)
    g2, h2 = its_decompose(its)
    return [E.obs_its(its), E.obs_mgraph(g2), E.obs_mgraph(h2)]


# ------------------------------------------------------------------ model encoder

def coq_case(case):
    worker_init()
    k = case.get("kind", "")
    try:
        if k == "rs-split":
            return RS.coq_split(case["s"])
        if k == "rs-str":
            return RS.coq_rs(case)
        if k == "conv-hist":
            return RS.coq_conv(case)
        if k == "g2m-abs":
            return RS.coq_g2m_abs(case)
        if k == "rw-premise":
            return RS.coq_rw_premise(case)
        if k == "dec-raw":
            return RS.coq_dec_raw(case)
        if k == "str-prem":
            return RS.coq_prem(case)
        if k == "str-unm":
            return RS.coq_unm(case)
        if k == "api-misc":
            return MI.coq(case)
        if k == "attrs":
            return MI.coq_attrs(case)
        if k == "cwc":
            return MI.coq_cwc(case)
        if k == "hist-str":
            return HI.coq_hist_str(case) if R.well_formed(case["rsmi"]) else None
        if k == "hist-pair":
            return HI.coq_hist_pair(case)
        if k.startswith("str-na"):
            return T.coq_pipeline_na(case["rsmi"], case["node_attrs"]) if case["rsmi"].count(">>") == 1 else None
        if k.startswith("str-"):
            return T.coq_pipeline(case["rsmi"], k.startswith("str-eh"), k.startswith("str-wopt")) if case["rsmi"].count(">") == 2 and case["rsmi"].count(">>") == 1 else None
        if k == "m2g":
            return T.coq_m2g(case["smiles"], case["drop"], case["use"], case.get("api", "transform"))
        if k == "g2r":
            return T.coq_g2r(case["rsmi"]) if case["rsmi"].count(">>") == 1 else None
        if k == "g2m":
            return T.coq_g2m(case["G"], case["ibo"], case["uhc"])
        if k == "ih":
            return T.coq_ih(case["G"], case["pres"])
    except (KeyError, TypeError, ValueError):
        return None
    gh = _graphs_nx(case)
    if gh is None:
        return None
    try:
        if "opts" in case:
            return "%s %s %s %s" % ("run_S" if case["opts"].get("store") else "run_o", E.coq_opts(case["opts"]),
                                    E.coq_mgraph(E.from_nx(gh[0])), E.coq_mgraph(E.from_nx(gh[1])))
        return "C01_Model.run %s %s" % (E.coq_mgraph(E.from_nx(gh[0])), E.coq_mgraph(E.from_nx(gh[1])))
    except (KeyError, TypeError, ValueError):
        return None


# ------------------------------------------------------------------ property oracle

SEL = ("element", "aromatic", "hcount", "charge", "atom_map")


def balanced_pair(G, H):
    """precondition of the graph clauses: same node ids, every selected attribute present, atom_map = id, orders > 0"""
    if set(G.nodes) != set(H.nodes) or len(G) == 0:
        return False
    for X in (G, H):
        for n, d in X.nodes(data=True):
            if any(k not in d for k in SEL) or d["atom_map"] != n:
                return False
        for _, _, d in X.edges(data=True):
            if "order" not in d or not d["order"] > 0:
                return False
    return True


def _edge_map(X):
    return {frozenset((u, v)): d.get("order") for u, v, d in X.edges(data=True)}


def _cmp_graph(side, orig, back, fails):
    if set(orig.nodes) != set(back.nodes):
        fails.append(dict(clause="roundtrip-nodes", detail="%s: atoms %r came back as %r" % (side, sorted(orig.nodes), sorted(back.nodes))))
        return
    for n in orig.nodes:
        for k in SEL:
            if k not in back.nodes[n] or back.nodes[n][k] != orig.nodes[n][k] or type(back.nodes[n][k]) is not type(orig.nodes[n][k]):
                fails.append(dict(clause="roundtrip-attr", detail="%s: atom %r attribute %s: %r came back as %r"
                                  % (side, n, k, orig.nodes[n][k], back.nodes[n].get(k, "<absent>"))))
                return
    eo, eb = _edge_map(orig), _edge_map(back)
    if eo != eb:
        diff = {tuple(sorted(k)): (eo.get(k), eb.get(k)) for k in set(eo) | set(eb) if eo.get(k) != eb.get(k)}
        fails.append(dict(clause="roundtrip-bonds", detail="%s: bonds differ (orig, back): %r" % (side, diff)))


def graph_clauses(G, H, opts=None):
    """round trip + union, demanded only for balanced pairs; for every value of the construction options
    (ignore_aromaticity only changes standard_order on bonds whose orders differ by less than one unit: documented)"""
    from synkit.Graph.ITS.its_construction import ITSConstruction
    from synkit.Graph.ITS.its_decompose import its_decompose
    import copy
    fails = []
    G0, H0 = copy.deepcopy(G), copy.deepcopy(H)          # "the original two graphs" = the graphs before the calls
    its = ITSConstruction.ITSGraph(G, H) if opts is None else E.call_construct(G, H, opts)
    ia = bool(opts and opts.get("ia"))
    g2, h2 = its_decompose(its)
    # "returns exactly the original two graphs": the caller's own objects must not have been edited by the two calls either
    # (audit remark: monitor G == G0 and H == H0; construct works on a deepcopy of the base, its_decompose builds new graphs)
    for side, X, X0 in (("reactant", G, G0), ("product", H, H0)):
        if (dict((n, dict(d)) for n, d in X.nodes(data=True)) != dict((n, dict(d)) for n, d in X0.nodes(data=True))
                or _edge_map(X) != _edge_map(X0) or X.number_of_edges() != X0.number_of_edges()):
            fails.append(dict(clause="argument-mutated", detail="%s graph was edited in place by ITSGraph / its_decompose" % side))
    G, H = G0, H0
    _cmp_graph("reactant", G, g2, fails)
    _cmp_graph("product", H, h2, fails)
    # the ITS has exactly the union of atoms and bonds, each bond with (before, after) and the difference
    if set(its.nodes) != set(G.nodes) | set(H.nodes):
        fails.append(dict(clause="union-nodes", detail="ITS atoms %r" % sorted(its.nodes)))
    eg, eh = _edge_map(G), _edge_map(H)
    ei = {frozenset((u, v)): d for u, v, d in its.edges(data=True)}
    if set(ei) != set(eg) | set(eh):
        fails.append(dict(clause="union-bonds", detail="ITS bonds %r, union %r" % (sorted(map(sorted, ei)), sorted(map(sorted, set(eg) | set(eh))))))
    else:
        for k, d in ei.items():
            a, b = eg.get(k, 0), eh.get(k, 0)
            want_std = 0 if (ia and abs(a - b) < 1) else a - b
            if tuple(d.get("order", ())) != (a, b) or d.get("standard_order") != want_std:
                fails.append(dict(clause="order-pair", detail="bond %r: ITS has order=%r standard_order=%r, sides have (%r, %r)"
                                  % (sorted(k), d.get("order"), d.get("standard_order"), a, b)))
                break
    for n in its.nodes:
        t = its.nodes[n].get("typesGH")
        want = tuple(tuple(X.nodes[n][k] for k in ("element", "aromatic", "hcount", "charge")) for X in (G, H))
        if t is None or tuple(tuple(x[:4]) for x in t) != want:
            fails.append(dict(clause="union-labels", detail="atom %r: typesGH %r, sides %r" % (n, t, want)))
            break
    return fails


def _its_of_reading(A, B):
    """independent ITS (networkx) from two read_side() results"""
    import networkx as nx
    I = nx.Graph()
    for k in set(A[0]) | set(B[0]):
        I.add_node(k, lab=(A[0].get(k), B[0].get(k)))
    for e in set(A[1]) | set(B[1]):
        u, v = tuple(e)
        I.add_edge(u, v, lab=(A[1].get(e, 0), B[1].get(e, 0)))
    return I


def fold_spectator_h(A, B):
    """Reading of a reaction modulo spectator hydrogens: an explicit mapped H that has, on BOTH sides, exactly one bond,
    to the same non-hydrogen atom, is removed and counted in that atom's total H (on both sides).  its_to_rsmi writes such
    hydrogens implicitly (they are not part of the reaction centre); reacting hydrogens stay atoms."""
    (na, ea), (nb, eb) = (dict(A[0]), dict(A[1])), (dict(B[0]), dict(B[1]))

    def nbrs(e, h):
        return [(next(iter(k - {h})), o) for k, o in e.items() if h in k and len(k) == 2]
    for h in sorted(set(na) & set(nb)):
        if na[h][0] != "H" or nb[h][0] != "H":
            continue
        x, y = nbrs(ea, h), nbrs(eb, h)
        if len(x) == 1 and x == y and na.get(x[0][0], ("H",))[0] != "H" and nb.get(x[0][0], ("H",))[0] != "H":
            p = x[0][0]
            for nodes, edges in ((na, ea), (nb, eb)):
                del nodes[h]
                del edges[frozenset((h, p))]
                sym, ch, th, ar = nodes[p]
                nodes[p] = (sym, ch, th + 1, ar)
    return (na, ea), (nb, eb)


def _unmapped_side(side):
    """R.unmapped_side with isotope labels cleared first: like stereo descriptors they are not carried by the ITS (element,
    aromaticity, H count, charge, bond orders only), and an isotope-labelled hydrogen such as [2H] would otherwise survive
    RemoveHs as an atom on the input side only (false alarm found by probing hand-made strings in round 5)"""
    from rdkit import Chem
    mol = Chem.MolFromSmiles(side)
    if mol is None:
        return None
    for a in mol.GetAtoms():
        a.SetAtomMapNum(0)
        a.SetIsotope(0)
    mol = Chem.RemoveHs(mol)
    return sorted(Chem.MolToSmiles(mol, isomericSmiles=False).split("."))


def string_clauses(rsmi, G, H, explicit_hydrogen=False, write_explicit=False, node_attrs=None):
    """parser monitor + its_to_rsmi(rsmi_to_its(r)) ~ r; demanded only for balanced, fully and uniquely mapped reactions"""
    import networkx as nx
    from synkit.IO.chem_converter import rsmi_to_its, its_to_rsmi
    fails = []
    a, b = rsmi.split(">>")
    A, B = R.read_side(a), R.read_side(b)
    if A is None or B is None or A[3] or B[3] or A[2] or B[2] or set(A[0]) != set(B[0]):
        return fails, False
    # monitor of the RDKit half: rsmi_to_graph against the independent reading
    for side, X, Y in (("reactant", G, A), ("product", H, B)):
        got = {n: (d.get("element"), d.get("charge"), d.get("hcount"), d.get("aromatic")) for n, d in X.nodes(data=True)}
        if got != Y[0] or _edge_map(X) != Y[1] or any(d.get("atom_map") != n for n, d in X.nodes(data=True)):
            dn = {k: (got.get(k), Y[0].get(k)) for k in set(got) | set(Y[0]) if got.get(k) != Y[0].get(k)}
            fails.append(dict(clause="parse-monitor", detail="%s graph of rsmi_to_graph differs from the independent RDKit reading: %r" % (side, dn)))
            return fails, True
    if node_attrs is not None:
        from synkit.Graph.ITS.its_decompose import its_decompose
        Ina = rsmi_to_its(rsmi, node_attrs=list(node_attrs))
        g2, h2 = its_decompose(Ina)
        _cmp_graph("reactant", G, g2, fails)
        _cmp_graph("product", H, h2, fails)
        back = its_to_rsmi(Ina)
    elif write_explicit:
        back = its_to_rsmi(rsmi_to_its(rsmi), explicit_hydrogen=True)
    else:
        back = its_to_rsmi(rsmi_to_its(rsmi, explicit_hydrogen=True)) if explicit_hydrogen else its_to_rsmi(rsmi_to_its(rsmi))
    if not isinstance(back, str) or back.count(">>") != 1:
        fails.append(dict(clause="string-roundtrip", detail="its_to_rsmi returned %r" % (back,)))
        return fails, True
    a2, b2 = back.split(">>")
    A2, B2 = R.read_side(a2), R.read_side(b2)
    if A2 is None or B2 is None:
        fails.append(dict(clause="string-roundtrip", detail="its_to_rsmi wrote an unreadable reaction %r" % back))
        return fails, True
    FA, FB = fold_spectator_h(A, B)
    FA2, FB2 = fold_spectator_h(A2, B2)
    same = FA2 == FA and FB2 == FB                      # identical as graphs keyed by atom map: trivially equivalent
    if not same:
        I1, I2 = _its_of_reading(FA, FB), _its_of_reading(FA2, FB2)
        ok = nx.is_isomorphic(I1, I2, node_match=lambda x, y: x["lab"] == y["lab"], edge_match=lambda x, y: x["lab"] == y["lab"])
        if not ok:
            fails.append(dict(clause="string-equivalent", detail="its_to_rsmi(rsmi_to_its(r)) = %r is not atom-map-equivalent to r = %r" % (back, rsmi)))
    def _htot(X):                                       # theorem C01_string_hydrogen_balance on the implementation
        return sum(1 if sym == "H" else th for sym, _, th, _ in X[0].values())
    if (_htot(A), _htot(B)) != (_htot(A2), _htot(B2)):
        fails.append(dict(clause="string-h-balance", detail="hydrogen atoms + H counts (reactants, products): input %r, its_to_rsmi(rsmi_to_its(r)) %r"
                          % ((_htot(A), _htot(B)), (_htot(A2), _htot(B2)))))
    if A2[2] or B2[2] or _unmapped_side(a2) != _unmapped_side(a) or _unmapped_side(b2) != _unmapped_side(b):
        fails.append(dict(clause="string-unmapped", detail="unmapped sides differ: %r vs input %r" % (back, rsmi)))
    return fails, True


def ih_clauses(gjson, pres):
    """implicit_hydrogen on a molecule graph in which every hydrogen has exactly one bond, to a non-hydrogen atom, and
    atom_map = node id: hydrogens whose map is preserved stay, the others disappear, every other atom keeps its element,
    charge and bonds, and its total hydrogen count (hcount + hydrogen neighbours) is unchanged."""
    from synkit.Graph.Hyrogen._misc import implicit_hydrogen
    g = E.to_nx(gjson)
    el = {n: d["element"] for n, d in g.nodes(data=True)}
    if any(d["atom_map"] != n for n, d in g.nodes(data=True)):
        return []
    for n in g.nodes:                         # a hydrogen either hangs on one non-hydrogen atom or is alone (no bond at all)
        if el[n] == "H" and g.degree(n) != 0 and (g.degree(n) != 1 or el[next(iter(g[n]))] == "H"):
            return []
    before = {n: (el[n], d["charge"], d["hcount"] + sum(1 for m in g[n] if el[m] == "H")) for n, d in g.nodes(data=True) if el[n] != "H"}
    heavy_bonds = {frozenset((u, v)): d["order"] for u, v, d in g.edges(data=True) if el[u] != "H" and el[v] != "H"}
    out = implicit_hydrogen(E.to_nx(gjson), set(pres))
    fails = []
    keep = {n for n in g.nodes if el[n] != "H" or n in set(pres) or g.degree(n) == 0}       # a lone hydrogen is folded nowhere: it stays
    if set(out.nodes) != keep:
        fails.append(dict(clause="implicit-h-atoms", detail="atoms %r, expected %r (preserve %r)" % (sorted(out.nodes), sorted(keep), sorted(pres))))
        return fails
    after = {n: (d["element"], d["charge"], d["hcount"] + sum(1 for m in out[n] if out.nodes[m]["element"] == "H"))
             for n, d in out.nodes(data=True) if d["element"] != "H"}
    if after != before:
        diff = {n: (before[n], after[n]) for n in before if before[n] != after[n]}
        fails.append(dict(clause="implicit-h-total", detail="(element, charge, total H) before/after: %r (preserve %r)" % (diff, sorted(pres))))
    hb = {frozenset((u, v)): d["order"] for u, v, d in out.edges(data=True) if el[u] != "H" and el[v] != "H"}
    if hb != heavy_bonds:
        fails.append(dict(clause="implicit-h-bonds", detail="bonds between non-hydrogen atoms changed"))
    return fails


def ih_balance(gjson, pres):
    """theorem C01_hydrogen_balance on the implementation: on a graph in which no hydrogen is bonded to two non-hydrogen atoms,
    implicit_hydrogen keeps (number of hydrogen atoms) + (sum of the hcounts of the other atoms), whatever the preserve set and
    whatever the atom maps (H-H bonds, lone hydrogens, duplicate maps included)"""
    from synkit.Graph.Hyrogen._misc import implicit_hydrogen
    g = E.to_nx(gjson)
    el = {n: d["element"] for n, d in g.nodes(data=True)}
    if any(el[n] == "H" and sum(1 for m in g[n] if el[m] != "H") > 1 for n in g.nodes):
        return []

    def total(X):
        return sum(1 if d["element"] == "H" else d["hcount"] for _, d in X.nodes(data=True))
    before = total(g)
    after = total(implicit_hydrogen(E.to_nx(gjson), set(pres)))
    if before != after:
        return [dict(clause="implicit-h-balance", detail="hydrogen atoms + hcounts: %d before, %d after (preserve %r)" % (before, after, sorted(pres)))]
    return []


def eh_balance(rsmi):
    """theorem C01_h_to_explicit_balance on the implementation: rsmi_to_its(r, explicit_hydrogen=True) decomposes into graphs that
    stand, on each side, for as many hydrogens (hydrogen atoms + hcounts) as the sides of rsmi_to_its(r)"""
    from synkit.IO.chem_converter import rsmi_to_its
    from synkit.Graph.ITS.its_decompose import its_decompose

    def total(X):
        return sum(1 if d["element"] == "H" else d["hcount"] for _, d in X.nodes(data=True))
    try:
        a, b = its_decompose(rsmi_to_its(rsmi))
        a2, b2 = its_decompose(rsmi_to_its(rsmi, explicit_hydrogen=True))
    except Exception:
        return []
    if (total(a), total(b)) != (total(a2), total(b2)):
        return [dict(clause="eh-h-balance", detail="hydrogen atoms + hcounts (reactants, products): %r without, %r with explicit_hydrogen=True"
                     % ((total(a), total(b)), (total(a2), total(b2))))]
    return []


def oracle(case):
    if case.get("kind") == "ih":
        return (ih_clauses(case["G"], case["pres"]) + ih_balance(case["G"], case["pres"]))[:3]
    if case.get("kind") in ("m2g", "g2r", "g2m", "cwc", "rs-split", "conv-hist", "g2m-abs", "rw-premise", "dec-raw", "str-prem"):
        return []
    if case.get("kind") == "rs-str":
        return RS.oracle_rs(case, R.well_formed)
    if case.get("kind") == "str-unm":
        # the property's clause itself, at the graph level (theorems C01_unmapped_graph / C01_unmapped_string): for a balanced reaction with
        # unique maps each side its_to_rsmi wrote is the same unmapped molecule (maps dropped, bonded hydrogens folded) as the input side
        # and RDKit gives it the same unmapped form
        if RS.obs_prem(case)[:1] != [True]:
            return []
        o = RS.obs_unm(case, _unmapped_side)
        if o != [True, True]:
            return [dict(clause="string-unmapped-graph", detail="its_to_rsmi(rsmi_to_its(r)) does not have the same unmapped reactants / products "
                         "as r = %r (graph comparison per side: %r)" % (case["rsmi"], o))]
        return []
    if case.get("kind") == "api-misc":
        return MI.oracle(case)
    if case.get("kind") == "attrs":
        return MI.oracle_attrs(case, _cmp_graph, balanced_pair)
    if case.get("kind") == "hist-str":
        return HI.oracle_hist_str(case, string_clauses, R.well_formed)
    if case.get("kind") == "hist-pair":
        return HI.oracle_hist_pair(case, graph_clauses, balanced_pair)
    gh = _graphs_nx(case)
    fails = []
    if gh is None:
        if "rsmi" in case and R.well_formed(case["rsmi"]):
            a, b = case["rsmi"].split(">>")
            if R.read_side(a) is not None and R.read_side(b) is not None:
                fails.append(dict(clause="parse-monitor", detail="rsmi_to_graph returned None on a readable reaction"))
        return fails
    G, H = gh
    if case.get("kind", "").startswith("str-"):
        if R.well_formed(case["rsmi"]):
            if case["kind"].startswith("str-na"):
                # a caller's list that names all six attributes, in any order: the ITS must still decompose into the two graphs
                if set(case["node_attrs"]) >= set(T.NODE_ATTRS) and balanced_pair(G, H):
                    f2, _ = string_clauses(case["rsmi"], G, H, node_attrs=case["node_attrs"])
                    for f in f2:
                        f["clause"] = "na-" + f["clause"]
                        f["detail"] = "node_attrs=%r: %s" % (case["node_attrs"], f["detail"])
                    fails += f2
                return fails[:3]
            f2, _ = string_clauses(case["rsmi"], G, H, case["kind"].startswith("str-eh"), case["kind"].startswith("str-wopt"))
            if case["kind"].startswith("str-wopt"):
                for f in f2:
                    f["clause"] = "wopt-" + f["clause"]
            if case["kind"].startswith("str-eh"):
                for f in f2:           # one defect, one key: rsmi_to_its(explicit_hydrogen=True) (see known_findings.d/C01.json)
                    f["clause"] = "eh-" + f["clause"]
                f2 = f2 + eh_balance(case["rsmi"])
            fails += f2
        return fails[:3]
    if balanced_pair(G, H):
        fails += graph_clauses(G, H, case.get("opts"))
    return fails[:3]


def neighbours(case, rng):
    """cases near a case on which model and implementation disagree, searched with the oracle: the same pair under every
    option value, the string-pipeline twin and an explicit-hydrogen rewriting of a reaction string"""
    out = []
    if "G" in case and "H" in case and case.get("kind") != "ih":
        out.append(dict(kind="nb", G=case["G"], H=case["H"]))
        for ia in (True, False):
            for store in (False, True):
                out.append(dict(kind="nb-opt", G=case["G"], H=case["H"],
                                opts=dict(ia=ia, bal=rng.random() < 0.5, store=store, api=rng.choice(("ITSGraph", "construct")))))
    if "rsmi" in case:
        out.append(dict(kind="nb", rsmi=case["rsmi"]))
        out.append(dict(kind="str-nb", rsmi=case["rsmi"]))
        out.append(dict(kind="nb-opt", rsmi=case["rsmi"], opts=dict(ia=True, bal=False, store=False, api="ITSGraph")))
        try:
            x = T.explicit_h_rewrite(case["rsmi"], rng, 0.5)
        except Exception:
            x = None
        if x:
            out.append(dict(kind="str-nb", rsmi=x))
    for i, c in enumerate(out):
        c["name"] = "neighbour-of-%s#%d" % (case.get("name", "?"), i)
    return out


def nontrivial(case, obs):
    if case.get("kind") == "ih":
        return bool(case["pres"]) and any(a["element"] == "H" for _, a in case["G"]["nodes"])
    if case.get("kind") in ("m2g", "g2r", "g2m", "api-misc", "attrs", "cwc", "rs-split", "rs-str", "conv-hist", "g2m-abs", "rw-premise", "dec-raw", "str-prem", "str-unm"):
        return False
    if case.get("kind", "").startswith("hist-"):
        return True
    gh = _graphs_nx(case)
    if gh is None:
        return False
    G, H = gh
    return balanced_pair(G, H) and _edge_map(G) != _edge_map(H)


def distribution(cases, obss):
    sizes, bal, half15, onesided, changed = {}, 0, 0, 0, 0
    extra = dict(opts_ignore_aromaticity=0, opts_balance_its=0, opts_store=0, opts_custom_defaults=0, opts_std_zeroed_but_orders_differ=0,
                 str_with_preserved_hydrogens=0, str_with_folded_hydrogens=0, str_ten_or_more_atoms=0, str_map_numbers_100_plus=0,
                 ih_two_or_more_preserved_on_one_atom=0, ih_nonempty_preserve=0, m2g_with_unmapped_atoms=0)
    for c, o in zip(cases, obss):
        k = c.get("kind", "")
        try:
            if k.startswith("str-") and isinstance(o, list) and len(o) == 8:
                hl = o[3]["__set__"]
                extra["str_with_preserved_hydrogens"] += bool(hl)
                n_in = sum(1 for r in o[0][0]["__set__"] if r[1] == 2)
                n_out = sum(1 for r in o[4][0]["__set__"] if r[1] == 2)
                extra["str_with_folded_hydrogens"] += n_out < n_in
                extra["str_ten_or_more_atoms"] += len(o[0][0]["__set__"]) >= 10
                extra["str_map_numbers_100_plus"] += any(r[0] >= 100 for r in o[0][0]["__set__"])
                continue
            if k == "ih":
                extra["ih_nonempty_preserve"] += bool(c["pres"])
                par = {}
                hs = {n for n, a in c["G"]["nodes"] if a["element"] == "H" and a["atom_map"] in set(c["pres"])}
                for u, v, _ in c["G"]["edges"]:
                    for x, y in ((u, v), (v, u)):
                        if x in hs:
                            par[y] = par.get(y, 0) + 1
                extra["ih_two_or_more_preserved_on_one_atom"] += any(v >= 2 for v in par.values())
                continue
            if k.startswith("hist-"):
                extra["history_steps"] = extra.get("history_steps", 0) + len(c["steps"])
                continue
            if k in ("g2r", "g2m", "api-misc", "attrs", "cwc", "rs-split", "rs-str", "conv-hist", "g2m-abs", "rw-premise", "dec-raw", "str-prem", "str-unm"):
                if k == "rw-premise":
                    extra["rw_premise_holds"] = extra.get("rw_premise_holds", 0) + (o == [True, True] or o == [1, 1])
                if k == "rs-str":
                    extra["rs_non_default_options"] = extra.get("rs_non_default_options", 0) + (c["o"] != [True, True, True, False, False] or c["w"] != [True, False, False])
                    extra["rs_its_raises"] = extra.get("rs_its_raises", 0) + (isinstance(o, list) and len(o) == 5 and o[3] == [2])
                    extra["rs_string_written"] = extra.get("rs_string_written", 0) + (isinstance(o, list) and len(o) == 5 and isinstance(o[4], list) and o[4][:1] == [0])
                continue
            if k == "m2g":
                extra["m2g_with_unmapped_atoms"] += ":" not in c["smiles"] or c["smiles"].count("[") > c["smiles"].count(":")
                continue
            if "opts" in c:
                op = c["opts"]
                extra["opts_ignore_aromaticity"] += bool(op.get("ia"))
                extra["opts_balance_its"] += bool(op.get("bal"))
                extra["opts_store"] += bool(op.get("store"))
                extra["opts_custom_defaults"] += bool(op.get("dflt"))
                if isinstance(o, list) and len(o) == 3:
                    extra["opts_std_zeroed_but_orders_differ"] += any(e[4] == 0 and e[2] != e[3] for e in o[0][1]["__set__"])
                if op.get("store"):
                    continue
        except Exception:
            continue
        if not (isinstance(o, list) and len(o) == 3):
            sizes["unparsable"] = sizes.get("unparsable", 0) + 1
            continue
        nodes, edges = o[0][0]["__set__"], o[0][1]["__set__"]
        n = len(nodes)
        key = str(n) if n <= 9 else ("10-29" if n < 30 else "30+")
        sizes[key] = sizes.get(key, 0) + 1
        if len(o[1][0]["__set__"]) == len(o[2][0]["__set__"]) == n and all(r[5][0] != 0 and r[6][0] != 0 for r in nodes):
            bal += 1
        if any(e[2] == 3 or e[3] == 3 for e in edges):
            half15 += 1
        if any((e[2] == 0) != (e[3] == 0) for e in edges):
            onesided += 1
        if any(e[4] != 0 for e in edges):
            changed += 1
    return dict(its_sizes=sizes, same_node_set=bal, with_order_1_5=half15, with_one_sided_bond=onesided, with_changed_bond=changed, **extra)


def shrink(case, fl):
    """drop nodes (from both sides) while the oracle still fails"""
    if "G" not in case:
        return case
    cur = case
    changed = True
    while changed:
        changed = False
        for n in [x[0] for x in cur["G"]["nodes"]]:
            cand = dict(cur)
            for k in ("G", "H"):
                cand[k] = {"nodes": [x for x in cur[k]["nodes"] if x[0] != n],
                           "edges": [e for e in cur[k]["edges"] if n not in e[:2]]}
            try:
                if oracle(cand):
                    cur = dict(cand, name=case.get("name", "") + "(shrunk)")
                    changed = True
                    break
            except Exception:
                pass
    return cur


# ------------------------------------------------------------------ generators

ORD4 = (0, 1, 1.5, 2)
SIDE_LABELS = [(h, c) for h in (0, 1) for c in (0, 1)]


def _pair(ids, labsG, labsH, oG, oH, rng, kind, with_nb=True):
    return dict(kind=kind, G=E.mk_side(ids, labsG, oG, rng, with_nb), H=E.mk_side(ids, labsH, oH, rng, with_nb))


def gen_exhaustive_small(rng):
    cases = []
    for el in E.ELEMS2:
        for lg in SIDE_LABELS:
            for lh in SIDE_LABELS:
                cases.append(_pair([1], [(el,) + lg], [(el,) + lh], {}, {}, rng, "exh1"))
    for e1, e2 in itertools.product(E.ELEMS2, repeat=2):
        for l1g, l1h, l2g, l2h in itertools.product(SIDE_LABELS, repeat=4):
            for a in ORD4:
                for b in ORD4:
                    cases.append(_pair([1, 2], [(e1,) + l1g, (e2,) + l2g], [(e1,) + l1h, (e2,) + l2h],
                                       {(0, 1): a}, {(0, 1): b}, rng, "exh2"))
    return cases


def _rand_labels(rng, n, elems=("C", "H", "O", "N", "Cl")):
    els = [rng.choice(elems) for _ in range(n)]
    lg = [(els[i], rng.choice((0, 0, 1, 2, 3)), rng.choice((0, 0, 1, -1)), rng.random() < 0.25) for i in range(n)]
    lh = [(els[i], rng.choice((0, 0, 1, 2, 3)), rng.choice((0, 0, 1, -1)), rng.random() < 0.25) for i in range(n)]
    return lg, lh


def gen_three(rng):
    pairs = [(0, 1), (0, 2), (1, 2)]
    cases = []
    for og in itertools.product(ORD4, repeat=3):
        for oh in itertools.product(ORD4, repeat=3):
            ids = rng.sample(range(1, 12), 3)
            lg, lh = _rand_labels(rng, 3)
            cases.append(_pair(ids, lg, lh, dict(zip(pairs, og)), dict(zip(pairs, oh)), rng, "exh3", with_nb=rng.random() < 0.8))
    return cases


def gen_four(rng, count):
    pairs = [(i, j) for i in range(4) for j in range(i + 1, 4)]
    cases = []
    for _ in range(count):
        ids = rng.sample(range(1, 30), 4)
        lg, lh = _rand_labels(rng, 4)
        og = {p: rng.choice((0, 1, 2)) for p in pairs}
        oh = {p: rng.choice((0, 1, 2)) for p in pairs}
        cases.append(_pair(ids, lg, lh, og, oh, rng, "samp4"))
    return cases


def gen_random(rng, count, maxn=9):
    cases = []
    for _ in range(count):
        n = rng.randint(3, maxn)
        ids = rng.sample(range(0, 60), n)
        lg, lh = _rand_labels(rng, n)
        pairs = [(i, j) for i in range(n) for j in range(i + 1, n)]
        p = rng.choice((0.15, 0.3, 0.5))
        og = {q: (rng.choice((1, 1, 1.5, 2, 3)) if rng.random() < p else 0) for q in pairs}
        oh = {}
        for q in pairs:                       # product = reactant with a few edits
            z = rng.random()
            oh[q] = og[q] if z < 0.7 else rng.choice((0, 0, 1, 1.5, 2, 3))
        cases.append(_pair(ids, lg, lh, og, oh, rng, "random", with_nb=rng.random() < 0.8))
    return cases


def gen_malformed(rng, count):
    """pairs OUTSIDE the precondition: node sets differ (either side may be larger or equal in size), order-0 edges,
    atom_map != node id, missing neighbors.  Compared on the default-filling ('*' atoms) behaviour."""
    cases = []
    for c in gen_random(rng, count, maxn=6):
        G, H = c["G"], c["H"]
        z = rng.random()
        if z < 0.75:
            for side in rng.choice(((G,), (H,), (G, H))):
                k = rng.randint(1, max(1, len(side["nodes"]) - 1))
                drop = set(rng.sample([n for n, _ in side["nodes"]], k))
                side["nodes"] = [x for x in side["nodes"] if x[0] not in drop]
                side["edges"] = [e for e in side["edges"] if e[0] not in drop and e[1] not in drop]
        if z > 0.6:
            for side in (G, H):
                for e in side["edges"]:
                    if rng.random() < 0.3:
                        e[2]["order"] = 0
                for x in side["nodes"]:
                    if rng.random() < 0.3:
                        x[1]["atom_map"] = rng.randint(0, 70)
        c["kind"] = "malformed"
        cases.append(c)
    return cases


def gen_corpus(rng, n_sample, n_rewrites):
    corpus = R.load_corpus()
    good = [(s, i, r) for s, i, r in corpus if R.well_formed(r)]
    bad = [(s, i, r) for s, i, r in corpus if not R.well_formed(r)]
    cases = []
    if n_sample is None:
        chosen, chosen_bad = good, bad
    else:
        # stratified: both corpora, and always the six atom-unbalanced ecoli reactions' neighbourhood via random choice
        us = [x for x in good if x[0] == "uspto"]
        ec = [x for x in good if x[0] == "ecoli"]
        chosen = rng.sample(us, n_sample // 2) + rng.sample(ec, n_sample - n_sample // 2)
        chosen_bad = rng.sample(bad, min(4, len(bad)))
    for s, i, r in chosen:
        cases.append(dict(kind="corpus", rsmi=r, src="%s#%d" % (s, i)))
        for kind in R.REWRITES:
            for k in range(n_rewrites if kind != "rev" else 1):
                try:
                    cases.append(dict(kind="rw-" + kind, rsmi=R.rewrite(r, kind, rng), src="%s#%d" % (s, i)))
                except Exception:
                    pass
    for s, i, r in chosen_bad:
        cases.append(dict(kind="corpus-malformed", rsmi=r, src="%s#%d" % (s, i)))
    return cases



# ------------------------------------------------------------------ options of ITSConstruction (model/C01_Opts.v)

DFLT_CHOICES = {"element": ("X", "C", "H"), "aromatic": (True,), "hcount": (2, 7), "charge": (-1, 3), "neighbors": ([], ["C"], ["C", "H", "O"])}


def _opts(rng, **force):
    o = dict(ia=rng.random() < 0.6, bal=rng.random() < 0.5, store=rng.random() < 0.35, api=rng.choice(("ITSGraph", "construct")))
    if rng.random() < 0.3:
        ks = rng.sample(sorted(DFLT_CHOICES), rng.randint(1, 3))
        o["dflt"] = {k: rng.choice(DFLT_CHOICES[k]) for k in ks}
    o.update(force)
    return o


def gen_opts_exhaustive(rng):
    """2 carbon atoms, per-side order in {absent,1,1.5,2}, every (ia, bal, store, api): 256 cases"""
    cases = []
    for a in ORD4:
        for b in ORD4:
            for ia, bal, store in itertools.product((False, True), repeat=3):
                for api in ("ITSGraph", "construct"):
                    c = _pair([1, 2], [("C", 1, 0), ("C", 0, 0)], [("C", 0, 1), ("C", 0, 0)], {(0, 1): a}, {(0, 1): b}, rng, "opt-exh2")
                    c["opts"] = dict(ia=ia, bal=bal, store=store, api=api)
                    cases.append(c)
    return cases


def gen_opts_arom(rng, count):
    """aromatisation / dearomatisation of a ring of 5..7 atoms with a substituent bond that really changes:
    Kekule (1,2,1,2,..) <-> aromatic (1.5 ...) on either side; the adversarial stream for ignore_aromaticity"""
    cases = []
    for _ in range(count):
        n = rng.randint(5, 7)
        ids = rng.sample(range(1, 40), n + 2)
        ring = [(i, (i + 1) % n) for i in range(n)]
        kek = {tuple(sorted(p)): (1 if k % 2 else 2) for k, p in enumerate(ring)}
        aro = {tuple(sorted(p)): 1.5 for p in ring}
        g_arom = rng.random() < 0.5
        og, oh = (dict(aro), dict(kek)) if g_arom else (dict(kek), dict(aro))
        og[(0, n)] = 1                      # substituent leaves atom 0 ...
        oh[(1, n)] = 1                      # ... and ends up on atom 1
        og[(n, n + 1)] = oh[(n, n + 1)] = rng.choice((1, 2))
        labs = [("C", 1, 0, g_arom)] * n + [("O", 0, 0), ("C", 3, 0)]
        labs_h = [("C", 1, 0, not g_arom)] * n + [("O", 0, 0), ("C", 3, 0)]
        c = _pair(ids, labs, labs_h, og, oh, rng, "opt-arom")
        c["opts"] = _opts(rng, ia=rng.random() < 0.8)
        cases.append(c)
    return cases


def gen_opts_random(rng, n_rand, n_malformed):
    cases = []
    for c in gen_random(rng, n_rand, maxn=8):
        c["kind"] = "opt-random"
        c["opts"] = _opts(rng)
        cases.append(c)
    for c in gen_malformed(rng, n_malformed):
        c["kind"] = "opt-malformed"
        c["opts"] = _opts(rng)
        cases.append(c)
    return cases


def add_corpus_opts(cases, rng, frac):
    """an options variant of a fraction of the reaction-string cases"""
    out = []
    for c in cases:
        if "rsmi" in c and c["kind"] in ("corpus", "rw-renum", "rw-rev") and rng.random() < frac:
            out.append(dict(c, kind="opt-" + c["kind"], opts=_opts(rng, ia=True)))
    return out


# ------------------------------------------------------------------ string half (model/C01_String.v)

HAND_STR = [
    # two reacting hydrogens on one atom (amine + aldehyde -> imine + water), explicit and mapped
    "[CH3:1][N:2]([H:3])[H:4].[O:5]=[CH:6][CH3:7]>>[CH3:1][N:2]=[CH:6][CH3:7].[O:5]([H:3])[H:4]",
    # water giving both hydrogens; hydrogenation with H2 (an H-H bond in the centre)
    "[CH2:1]=[CH2:2].[H:3][H:4]>>[CH2:1]([H:3])[CH2:2][H:4]",
    "[CH:1]#[CH:2].[H:3][H:4].[H:5][H:6]>>[CH:1]([H:3])([H:5])[CH:2]([H:4])[H:6]",
    # spectator H2 next to a reacting one, spectator explicit hydrogens
    "[CH2:1]=[CH2:2].[H:3][H:4].[H:5][H:6]>>[CH2:1]([H:3])[CH2:2][H:4].[H:5][H:6]",
    "[C:1]([H:5])([H:6])([H:7])[Br:2].[O:3]([H:4])[H:8]>>[C:1]([H:5])([H:6])([H:7])[O:3][H:8].[Br:2][H:4]",
    # ring closure digits >= 10 and two-digit atom maps
    "[cH:10]1[cH:11][cH:12][c:13]2[cH:14][cH:15][cH:16][cH:17][c:18]2[cH:19]1.[Br:20][Br:21]>>[cH:10]1[cH:11][c:12]([Br:20])[c:13]2[cH:14][cH:15][cH:16][cH:17][c:18]2[cH:19]1.[Br:21][H:22]",
    # charged species, proton transfer written with an explicit proton
    "[CH2:1]%10[CH2:2][CH2:3][CH2:4][CH2:5][CH:6]%10[Br:7].[OH2:8]>>[CH2:1]%11[CH2:2][CH2:3][CH2:4][CH2:5][CH:6]%11[OH:8].[BrH:7]",
    "[NH3:1].[H+:2]>>[NH3+:1][H:2]",
    "[O-:1][CH3:2].[H:3][Cl:4]>>[O:1]([H:3])[CH3:2].[Cl-:4]",
    # radicals: atoms with hcount 0 and an open valence (RDKit would add hydrogens if the explicit count were not set)
    "[CH3:1].[Cl:2][Cl:3]>>[CH3:1][Cl:2].[Cl:3]",
    "[O:1].[O:2]=[O:3]>>[O:1][O:2][O:3]",
    # a charged and a neutral hydrogen in the same reaction centre
    "[NH3:1].[H+:2].[Cl:3][H:4].[OH-:5]>>[NH3+:1][H:2].[Cl-:3].[OH:5][H:4]",
    # parentless hydrogens that do NOT react next to one that does (defect repaired by /repo 3ba7a77): lone proton, atom, hydride
    "[H+:5].[CH3:1][O-:2].[H+:3]>>[H+:5].[CH3:1][O:2][H:3]",
    "[H:5].[CH3:1][O-:2].[H+:3]>>[H:5].[CH3:1][O:2][H:3]",
    "[H-:5].[CH3:1][O-:2].[H+:3].[H:6][H:7]>>[H-:5].[CH3:1][O:2][H:3].[H:6][H:7]",
    # hydride and proton both reacting; H2 homolysis; hydrogen exchange between HCl and H2; keto-enol shift of an explicit hydrogen;
    # explicit hydrogen on an aromatic nitrogen that is substituted
    "[H-:5].[CH3:1][CH:2]=[O:3].[H+:4]>>[CH3:1][CH:2]([H:5])[O:3][H:4]",
    "[H:1][H:2]>>[H:1].[H:2]",
    "[Cl:1][H:2].[H:3][H:4]>>[Cl:1][H:3].[H:2][H:4]",
    "[CH3:1][C:2](=[O:3])[CH2:4][H:5]>>[CH3:1][C:2]([O:3][H:5])=[CH2:4]",
    "[n:1]1([H:8])[cH:2][cH:3][cH:4][cH:5]1.[CH3:6][I:7]>>[n:1]1([CH3:6])[cH:2][cH:3][cH:4][cH:5]1.[I:7][H:8]",
]


def gen_str(rsmi_cases, rng, n_exph):
    """twins of the reaction-string cases that run the whole string pipeline, explicit-hydrogen rewritings, hand-made reactions"""
    cases = []
    for c in rsmi_cases:
        if "rsmi" in c and "opts" not in c:
            cases.append(dict(kind="str-" + c["kind"], rsmi=c["rsmi"], src=c.get("src")))
    for c in rsmi_cases:                                       # rsmi_to_its(explicit_hydrogen=True) on the corpus and one rewriting
        if "rsmi" in c and "opts" not in c and c["kind"] in ("corpus", "rw-renum"):
            cases.append(dict(kind="str-eh-" + c["kind"], rsmi=c["rsmi"], src=c.get("src")))
            cases.append(dict(kind="str-wopt-" + c["kind"], rsmi=c["rsmi"], src=c.get("src")))
    six = list(T.NODE_ATTRS)
    for c in rsmi_cases:                                       # rsmi_to_its with the caller's own node_attrs list
        if "rsmi" in c and "opts" not in c and c["kind"] in ("corpus", "rw-renum"):
            z = rng.random()
            if z < 0.3:
                na = sorted(six)
            elif z < 0.45:
                na = list(reversed(six))
            elif z < 0.75:
                na = rng.sample(six, 6)
            elif z < 0.85:
                na = rng.sample(six, 6) + [rng.choice(six)]
            else:
                na = ["atom_map"] + rng.sample(six[:5], rng.randint(1, 4))
            cases.append(dict(kind="str-na-" + c["kind"], rsmi=c["rsmi"], node_attrs=na, src=c.get("src")))
    pool = [c for c in rsmi_cases if c.get("kind") == "corpus"]
    rng.shuffle(pool)
    k = 0
    for c in pool:
        if k >= n_exph:
            break
        try:
            x = T.explicit_h_rewrite(c["rsmi"], rng, p_spectator=rng.choice((0.1, 0.3, 0.6)))
        except Exception:
            x = None
        if x:
            cases.append(dict(kind="str-exph", rsmi=x, src=c.get("src")))
            cases.append(dict(kind="exph", rsmi=x, src=c.get("src")))
            k += 1
            if k % 2 == 0:                                     # a parentless hydrogen species as a spectator on both sides
                m = max(R.map_numbers(x)) + 1
                sp = rng.choice(("[H+:%d]" % m, "[H:%d]" % m, "[H-:%d]" % m, "[H:%d][H:%d]" % (m, m + 1), "[H+:%d].[H-:%d]" % (m, m + 1)))
                xa, xb = x.split(">>")
                cases.append(dict(kind="str-exph-lone", rsmi=(sp + "." + xa if rng.random() < 0.5 else xa + "." + sp) + ">>" + xb + "." + sp, src=c.get("src")))
    for c in pool[:max(6, n_exph // 2)]:                       # an unmapped reagent on both sides / a few atoms unmapped: outside the
        a, b = c["rsmi"].split(">>")                           # property (not fully mapped), model and code must still agree (dropped)
        rg = rng.choice(("O", "CCO", "[Na+].[Cl-]", "c1ccccc1", "ClCCl", "CN(C)C=O"))
        cases.append(dict(kind="str-reagent", rsmi=a + "." + rg + ">>" + b + "." + rg, src=c.get("src")))
        cases.append(dict(kind="str-partmap", rsmi=_unmap_some(a, rng, False) + ">>" + _unmap_some(b, rng, False), src=c.get("src")))
    import re
    for c in pool[:max(4, n_exph // 3)]:                       # atom maps of three digits and more (100 .. 2000)
        ms = R.map_numbers(c["rsmi"])
        table = dict(zip(ms, rng.sample(range(100, 2000), len(ms))))
        x = re.sub(r":(\d+)\]", lambda m: ":%d]" % table[int(m.group(1))], c["rsmi"])
        cases.append(dict(kind="str-renum100", rsmi=x, src=c.get("src")))
        cases.append(dict(kind="renum100", rsmi=x, src=c.get("src")))
    for k in range(3 if n_exph <= 30 else 12):                 # >= 100 atoms: several corpus reactions side by side, maps shifted
        parts, off, n_at = [], 0, 0
        for c in rng.sample(pool, min(len(pool), 6)):
            ms = R.map_numbers(c["rsmi"])
            parts.append(re.sub(r":(\d+)\]", lambda m: ":%d]" % (int(m.group(1)) + off), c["rsmi"]))
            off += max(ms) + rng.choice((0, 3, 50))
            n_at += len(ms)
            if n_at >= 110:
                break
        big = ".".join(p.split(">>")[0] for p in parts) + ">>" + ".".join(p.split(">>")[1] for p in parts)
        for kind in ("str-big", "big", "str-eh-big", "str-wopt-big"):
            cases.append(dict(kind=kind, rsmi=big, src="big#%d" % k))
    for i, r in enumerate(HAND_STR):
        cases.append(dict(kind="str-hand", rsmi=r, src="hand#%d" % i))
        cases.append(dict(kind="hand", rsmi=r, src="hand#%d" % i))
        cases.append(dict(kind="str-hand", rsmi=R.renumber_maps(r, rng), src="hand#%d-renum" % i))
        cases.append(dict(kind="str-eh-hand", rsmi=r, src="hand#%d" % i))
        cases.append(dict(kind="str-wopt-hand", rsmi=r, src="hand#%d" % i))
        cases.append(dict(kind="str-na-hand", rsmi=r, node_attrs=sorted(T.NODE_ATTRS) if i % 2 else rng.sample(list(T.NODE_ATTRS), 6), src="hand#%d" % i))
    return cases


def _unmap_some(smiles, rng, dup=True):
    """remove the atom map of some atoms / give two atoms the same map (malformed input for MolToGraph)"""
    import re
    maps = re.findall(r":(\d+)\]", smiles)
    if not maps:
        return smiles
    z = rng.random()
    if z < 0.6 or not dup:
        drop = set(rng.sample(maps, rng.randint(1, max(1, len(maps) // 3))))
        return re.sub(r":(\d+)\]", lambda m: "]" if m.group(1) in drop else m.group(0), smiles)
    if len(maps) >= 2:
        a, b = rng.sample(maps, 2)
        return re.sub(r":%s\]" % a, ":%s]" % b, smiles, count=1)
    return smiles


def gen_m2g(rsmi_cases, rng, count):
    sides = []
    for c in rsmi_cases:
        if "rsmi" in c and R.well_formed(c["rsmi"]):
            sides += c["rsmi"].split(">>")
    rng.shuffle(sides)
    cases = []
    for s in sides[:count]:
        for f in s.split(".")[:2] + [s]:
            drop, use = rng.choice(((True, True), (False, True), (False, False), (True, False)))
            cases.append(dict(kind="m2g", smiles=f if rng.random() < 0.5 else _unmap_some(f, rng), drop=drop, use=use,
                              api=rng.choice(("transform", "transform", "store", "light", "detailed", "smiles_to_graph"))))
        import re as _re                                          # the legacy builders on a molecule with NO atom map at all (bonds between two
        bare = _re.sub(r":\d+\]", "]", s.split(".")[0])             # unmapped atoms) and with every other atom unmapped, unmapped atoms kept
        half = _re.sub(r":(\d+)\]", lambda m_: "]" if int(m_.group(1)) % 2 else m_.group(0), s.split(".")[0])
        for sm in (bare, half):
            cases.append(dict(kind="m2g", smiles=sm, drop=False, use=rng.random() < 0.5, api=rng.choice(("light", "detailed"))))
    return cases


def gen_ih(rng, count):
    """molecule graphs with explicit hydrogens for implicit_hydrogen / GraphToMol: a heavy-atom skeleton, hydrogens hung on
    it (often several on one atom), occasionally an H-H bond, a bridging hydrogen, an isolated hydrogen; preserve set = a
    PRNG subset of the hydrogens' atom maps (often two hydrogens of the same atom)"""
    cases = []
    for _ in range(count):
        nh = rng.randint(1, 5)
        ids = rng.sample(range(1, 30), nh)
        nodes = [[i, E.mol_node(i, rng.choice(("C", "N", "O", "Cl")), rng.choice((0, 0, 1, 2)), rng.choice((0, 0, 1, -1)), rng.random() < 0.2)] for i in ids]
        edges = []
        for k in range(1, nh):
            if rng.random() < 0.85:
                edges.append([ids[k], ids[rng.randrange(k)], {"order": rng.choice((1, 1, 2, 1.5, 3))}])
        hs = []
        nxt = 30
        for i in ids:
            for _ in range(rng.choice((0, 1, 1, 2, 3))):
                amap = nxt if rng.random() < 0.9 else rng.choice((0, nxt + 1, ids[0]))
                nodes.append([nxt, E.mol_node(nxt, "H", 0, 0, False, None, amap)])
                edges.append([i, nxt, {"order": 1}] if rng.random() < 0.5 else [nxt, i, {"order": 1}])
                hs.append(nxt)
                nxt += 1
        z = rng.random()
        if z < 0.12 and len(hs) >= 2:
            a, b = rng.sample(hs, 2)
            edges.append([a, b, {"order": 1}])                 # H-H bond between two bound hydrogens (malformed but possible)
        elif z < 0.2:
            nodes += [[nxt, E.mol_node(nxt, "H", 0, 0)], [nxt + 1, E.mol_node(nxt + 1, "H", 0, 0)]]
            edges.append([nxt, nxt + 1, {"order": 1}])         # H2
            hs += [nxt, nxt + 1]
        elif z < 0.26 and nh >= 2 and hs:
            edges.append([hs[0], ids[-1], {"order": 1}])       # bridging hydrogen
        elif z < 0.3:
            nodes.append([nxt, E.mol_node(nxt, "H", 0, 1)])    # isolated proton
            hs.append(nxt)
        seen, uniq = set(), []
        for e in edges:                                         # one entry per unordered pair (networkx would merge them)
            if frozenset(e[:2]) not in seen and e[0] != e[1]:
                seen.add(frozenset(e[:2]))
                uniq.append(e)
        edges = uniq
        rng.shuffle(nodes)
        rng.shuffle(edges)
        amaps = [a["atom_map"] for n, a in nodes if n in set(hs)]
        pres = [m for m in amaps if rng.random() < 0.45]
        if rng.random() < 0.1:
            pres = []
        if rng.random() < 0.1:
            pres.append(rng.choice(ids))                        # a heavy atom's map in the preserve set
        cases.append(dict(kind="ih", G={"nodes": nodes, "edges": edges}, pres=sorted(set(pres))))
    return cases


DEGEN_STR = [">>", "[CH4:1]>>[CH4:1]", "[CH4:1]>>", ">>[CH4:1]", "C>>C", "CC.O>>CCO", "[H+:1]>>[H+:1]", "[CH3:1][CH3:2]>>[CH3:1][CH3:2]",
             "[Na+:1].[Cl-:2]>>[Na+:1].[Cl-:2]", "[CH4:0]>>[CH4:0]", "[CH3:1][OH:2].[OH2:3]>>[CH3:1][OH:3].[OH2:2]",
             "[H:1][H:2]>>[H:1][H:2]", "[He:1]>>[He:1]", "[CH3:1][CH2:2][OH:3]>>[CH3:1][CH2:2][OH:3]", "[O-2:1].[Fe+3:2]>>[O-2:1].[Fe+3:2]",
             "[CH2:1000000]=[CH2:999999]>>[CH2:1000000]=[CH2:999999]"]


def gen_degenerate(rng):
    """degenerate values (ROUND3_BRIEF item C): empty graphs / sides, single atoms, node id and atom map 0, isolated atoms, huge
    ids, falsy and extreme labels; as graph pairs (default and PRNG options) and as reaction strings through every pipeline kind"""
    cases = []
    empty = {"nodes": [], "edges": []}

    def one(ids, els, hcs, chs, edges=None, amap0=False):
        g = E.mk_side(ids, [(e, h, c) for e, h, c in zip(els, hcs, chs)], edges or {}, rng, True)
        if amap0:
            for _, a in g["nodes"]:
                a["atom_map"] = 0
        return g
    shapes = [
        (empty, empty), (one([0], ["C"], [0], [0]), one([0], ["C"], [4], [0])), (one([7], ["C"], [0], [0]), empty), (empty, one([7], ["N"], [3], [0])),
        (one([0, 5, 1000000], ["C", "H", "O"], [0, 0, 0], [0, 0, -2]), one([0, 5, 1000000], ["C", "H", "O"], [1, 0, 1], [0, 1, 0])),
        (one([1, 2], ["", "*"], [0, 0], [0, 0], {(0, 1): 1}), one([1, 2], ["", "*"], [0, 0], [0, 0], {(0, 1): 2})),
        (one([1, 2], ["C", "C"], [0, 0], [0, 0], {(0, 1): 1}, True), one([1, 2], ["C", "C"], [0, 0], [0, 0], {(0, 1): 1}, True)),
        (one([3, 4], ["Fe", "O"], [0, 0], [3, -2], {(0, 1): 3}), one([3, 4], ["Fe", "O"], [0, 0], [2, -1], {})),
        (one([1, 2, 3], ["H", "H", "H"], [0, 0, 0], [0, 0, 1], {(0, 1): 1}), one([1, 2, 3], ["H", "H", "H"], [0, 0, 0], [1, 0, 0], {(1, 2): 1})),
        (one([9, 8], ["C", "C"], [99, 0], [0, 0], {(0, 1): 1.5}), one([9, 8], ["C", "C"], [0, 99], [0, 0], {(0, 1): 1.5})),
    ]
    for G, H in shapes:
        cases.append(dict(kind="degen", G=G, H=H))
        cases.append(dict(kind="degen", G=H, H=G))
        for _ in range(2):
            cases.append(dict(kind="opt-degen", G=G, H=H, opts=_opts(rng)))
    for r in DEGEN_STR:
        cases.append(dict(kind="degen", rsmi=r))
        for k in ("str-degen", "str-eh-degen", "str-wopt-degen"):
            cases.append(dict(kind=k, rsmi=r))
    return cases


def gen_histories(rsmi_cases, rng, n_str, n_pair):
    """HISTORY cases (notes/ROUND3_BRIEF.md item B): sequences of calls on shared objects / the same strings"""
    rs = [c["rsmi"] for c in rsmi_cases if c.get("kind") == "corpus" and R.well_formed(c["rsmi"])] + list(HAND_STR)
    rng.shuffle(rs)
    pairs = gen_random(rng, 40, maxn=6) + gen_four(rng, 20) + gen_opts_arom(rng, 10)
    extra = [dict(kind="g2r", rsmi=r) for r in rs[:max(12, n_str // 2)]]
    for r in rs[:max(10, n_str // 3)] + list(HAND_STR):          # balanced, fully mapped reactions only (reference = default path)
        a, b = r.split(">>")
        A, B = R.read_side(a), R.read_side(b)
        if A is not None and B is not None and not (A[2] or B[2] or A[3] or B[3]) and set(A[0]) == set(B[0]):
            extra.append(dict(kind="api-misc", rsmi=r))
    for c in gen_ih(rng, max(40, n_pair // 3)):
        extra.append(dict(kind="g2m", G=c["G"], ibo=rng.random() < 0.5, uhc=rng.random() < 0.5))
    extra += MI.gen_attrs(pairs + gen_malformed(rng, 10), rng, max(150, n_pair))
    extra += MI.gen_cwc(rs, rng, max(40, n_str))
    extra += RS.gen_rs(rs, list(HAND_STR), rng, max(24, n_str // 2), max(70, n_str * 2))
    extra += RS.gen_conv(rs, rng, max(30, n_str // 2))
    extra += RS.gen_g2m_abs(gen_ih(rng, max(40, n_pair // 3)), rng)
    extra += RS.gen_rw_premise(rs, rng, max(40, n_str))
    extra += RS.gen_dec_raw(rng, max(120, n_pair))
    extra += RS.gen_prem([c["rsmi"] for c in rsmi_cases if c.get("kind") in ("corpus", "rw-reroot", "corpus-malformed")] + list(HAND_STR) + list(DEGEN_STR), rng, _unmap_some)
    extra += RS.gen_unm([c["rsmi"] for c in rsmi_cases if c.get("kind") == "corpus"] + [c["rsmi"] for c in rsmi_cases if c.get("kind") == "rw-reroot"][:20] + list(HAND_STR))
    return HI.gen_hist_str(rs, rng, n_str) + HI.gen_hist_pair(pairs, rng, n_pair, _opts) + extra


def gen_cases(tier, rng):
    cases = gen_exhaustive_small(rng) + gen_three(rng)
    if tier == "quick":
        cases += gen_four(rng, 1500) + gen_random(rng, 800) + gen_malformed(rng, 500)
        cases += gen_opts_exhaustive(rng) + gen_opts_arom(rng, 150) + gen_opts_random(rng, 500, 300)
        cor = gen_corpus(rng, 40, 1)
        cases += cor + add_corpus_opts(cor, rng, 0.5)
        cases += gen_str(cor, rng, 25) + gen_m2g(cor, rng, 60) + gen_ih(rng, 600)
        cases += gen_histories(cor, rng, 40, 120) + gen_degenerate(rng)
    else:
        cases += gen_four(rng, 15000) + gen_random(rng, 8000) + gen_malformed(rng, 4000)
        cases += gen_opts_exhaustive(rng) + gen_opts_arom(rng, 1500) + gen_opts_random(rng, 5000, 2500)
        cor = gen_corpus(rng, None, 2)
        cases += cor + add_corpus_opts(cor, rng, 0.5)
        cases += gen_str(cor, rng, 300) + gen_m2g(cor, rng, 600) + gen_ih(rng, 4000)
        cases += gen_histories(cor, rng, 300, 1500) + gen_degenerate(rng)
    return cases
