"""C01 — ITS encoding of a mapped reaction is lossless and invertible.

case kinds
  {"kind": "exh1"|"exh2"|"exh3"|"samp4"|"random"|"malformed"|"regress", "G": <json graph>, "H": <json graph>}
        synthetic reactant/product graphs (harness/gen/c01_enc.py format)
  {"kind": "corpus"|"rw-renum"|"rw-reroot"|"rw-frag"|"rw-rev"|"corpus-malformed", "rsmi": "...", "src": "uspto#3"}
        a reaction SMILES; (G, H) = rsmi_to_graph(rsmi)
Observable: the ITS (sorted nodes with top-level attributes + typesGH, sorted edges with order pair and
standard_order) and both graphs returned by its_decompose.
"""
import itertools

from ..gen import c01_enc as E
from ..gen import c01_rsmi as R

PID = "C01"
COQ_HEADER = ("From Coq Require Import List NArith ZArith.\nFrom SK Require Import lib.Tok lib.LGraph model.C01_Model.\n"
              "Import ListNotations.\nOpen Scope Z_scope.\n")
SHARD = 400
IMPL_TIMEOUT = 1500
COQ_TIMEOUT = 900
RULE = ("reactant/product graph pairs (synthetic on a shared node set, malformed ones violating the shared-node-set "
        "precondition, and (G,H)=rsmi_to_graph(r) for corpus reactions and their rewritings); non-trivial = balanced pair "
        "(same node ids, positive orders) in which at least one bond differs between the sides; distinct = distinct case inputs")
EXHAUSTIVE = {"quick": True, "thorough": True}
EXPLANATION = ("Exhaustive sub-space (both tiers): ALL pairs (G,H) on a shared node set of 1 and 2 nodes over element in {C,H}, "
               "per side hcount {0,1} x charge {0,1}, per side order {absent,1,1.5,2} (32 + 16384 pairs); on 3 nodes all 4096 "
               "assignments of per-side orders {absent,1,1.5,2} to the three pairs with PRNG node labels. Sampled: 4-node pairs, "
               "random pairs up to 9 nodes, malformed pairs (different node sets, order 0 edges, atom_map != id), corpus reactions "
               "(graph.pkl.gz 100 + ecoli 274) and map-renumbering / re-rooting / fragment-shuffle / reversal rewritings. "
               "Theorems: round trip, union + order pair + difference, equivariance under injective relabelling, refutation "
               "without the shared-node-set precondition, string round trip relative to the RDKit contract.")
TRUSTED_BASE = [
    "Coq 8.16.1 kernel + vm_compute (no native_compute); stdlib only",
    "hand-written model coq/model/C01_Model.v tied to synkit/Graph/ITS/{its_construction,its_decompose}.py by the per-run correspondence",
    "harness encoders harness/gen/c01_enc.py (nx graph -> Gallina literal, half-unit bond orders, injective element interning; attributes -> tok)",
    "networkx Graph / copy.deepcopy semantics",
    "RDKit (parser, sanitiser, writer) and synkit/IO/{mol_to_graph,graph_to_mol}.py: modelled as the oracles parse/write of theorem C01_rsmi_partial, monitored, not verified",
]
ASSUMPTIONS = [
    "node ids are natural numbers; atom_map, hcount, charge are integers; bond orders are multiples of 0.5",
    "balanced = reactant and product graph have the same node-id set (for strings: equal atom-map sets, every atom mapped, maps unique per side)",
    "RDKit contract S1 (premise of C01_rsmi_partial): reading back what graph_to_rsmi wrote gives the same mapped graphs",
]
TESTED_NOT_PROVED = [
    "rsmi_to_graph agrees with an independent RDKit reading of the reaction (element, charge, total H, aromaticity per atom map, bond orders): oracle on every corpus case",
    "its_to_rsmi(rsmi_to_its(r)) is atom-map-equivalent to r (ITS isomorphism, independent reading) and has the same unmapped sides: oracle on every balanced, fully mapped corpus case and rewriting",
    "graph_to_rsmi / graph_to_smi / GraphToMol / implicit_hydrogen (RDKit half) are not modelled",
]
LEVEL_TEXT = ("Machine-checked proof (Coq) over an executable model of ITSConstruction.ITSGraph and its_decompose: for all well-formed "
              "reactant/product graphs on the same node set with positive bond orders, decompose(construct(G,H)) returns exactly G and H "
              "(atoms, element, aromaticity, hydrogen count, charge, atom_map = node id, every bond with its order); the ITS has exactly "
              "the union of the nodes and bonds, every bond carrying (order_G or 0, order_H or 0) and their difference; both functions "
              "commute with every injective renumbering; without the shared-node-set precondition the round trip fails (witness). "
              "The model is compared with the Python code on every run over an exhaustive small scope, random and malformed pairs and "
              "the bundled reaction corpora with rewritings.")
LEVEL_NOTE = ("The string half (rsmi_to_graph, its_to_rsmi: RDKit + MolToGraph/GraphToMol) is modelled as an oracle with an explicit "
              "contract (theorem C01_rsmi_partial) and only tested: independent-reading monitor and string round-trip oracle on the corpora.")


def worker_init():
    import logging
    logging.disable(logging.CRITICAL)


# ------------------------------------------------------------------ the two graphs of a case

def _graphs_nx(case):
    """-> (G, H) networkx graphs or None when the reaction string does not yield two graphs."""
    if "rsmi" in case:
        from synkit.IO.chem_converter import rsmi_to_graph
        G, H = rsmi_to_graph(case["rsmi"])
        if G is None or H is None:
            return None
        return G, H
    return E.to_nx(case["G"]), E.to_nx(case["H"])


# ------------------------------------------------------------------ implementation adapter

def impl(case):
    from synkit.Graph.ITS.its_construction import ITSConstruction
    from synkit.Graph.ITS.its_decompose import its_decompose
    gh = _graphs_nx(case)
    if gh is None:
        return ["unparsable"]
    G, H = gh
    its = ITSConstruction.ITSGraph(G, H)
    g2, h2 = its_decompose(its)
    return [E.obs_its(its), E.obs_mgraph(g2), E.obs_mgraph(h2)]


# ------------------------------------------------------------------ model encoder

def coq_case(case):
    worker_init()
    gh = _graphs_nx(case)
    if gh is None:
        return None
    try:
        return "run %s %s" % (E.coq_mgraph(E.from_nx(gh[0])), E.coq_mgraph(E.from_nx(gh[1])))
    except (KeyError, TypeError, ValueError):
        return None


# ------------------------------------------------------------------ property oracle

SEL = ("element", "aromatic", "hcount", "charge", "atom_map")


def balanced_pair(G, H):
    """precondition of the graph clauses: same node ids, every selected attribute present, atom_map = id, orders > 0"""
    if set(G.nodes) != set(H.nodes) or len(G) == 0:
        return False
    for X in (G, H):
        for n, d in X.nodes(data=True):
            if any(k not in d for k in SEL) or d["atom_map"] != n:
                return False
        for _, _, d in X.edges(data=True):
            if "order" not in d or not d["order"] > 0:
                return False
    return True


def _edge_map(X):
    return {frozenset((u, v)): d.get("order") for u, v, d in X.edges(data=True)}


def _cmp_graph(side, orig, back, fails):
    if set(orig.nodes) != set(back.nodes):
        fails.append(dict(clause="roundtrip-nodes", detail="%s: atoms %r came back as %r" % (side, sorted(orig.nodes), sorted(back.nodes))))
        return
    for n in orig.nodes:
        for k in SEL:
            if k not in back.nodes[n] or back.nodes[n][k] != orig.nodes[n][k] or type(back.nodes[n][k]) is not type(orig.nodes[n][k]):
                fails.append(dict(clause="roundtrip-attr", detail="%s: atom %r attribute %s: %r came back as %r"
                                  % (side, n, k, orig.nodes[n][k], back.nodes[n].get(k, "<absent>"))))
                return
    eo, eb = _edge_map(orig), _edge_map(back)
    if eo != eb:
        diff = {tuple(sorted(k)): (eo.get(k), eb.get(k)) for k in set(eo) | set(eb) if eo.get(k) != eb.get(k)}
        fails.append(dict(clause="roundtrip-bonds", detail="%s: bonds differ (orig, back): %r" % (side, diff)))


def graph_clauses(G, H):
    """round trip + union, demanded only for balanced pairs"""
    from synkit.Graph.ITS.its_construction import ITSConstruction
    from synkit.Graph.ITS.its_decompose import its_decompose
    fails = []
    its = ITSConstruction.ITSGraph(G, H)
    g2, h2 = its_decompose(its)
    _cmp_graph("reactant", G, g2, fails)
    _cmp_graph("product", H, h2, fails)
    # the ITS has exactly the union of atoms and bonds, each bond with (before, after) and the difference
    if set(its.nodes) != set(G.nodes) | set(H.nodes):
        fails.append(dict(clause="union-nodes", detail="ITS atoms %r" % sorted(its.nodes)))
    eg, eh = _edge_map(G), _edge_map(H)
    ei = {frozenset((u, v)): d for u, v, d in its.edges(data=True)}
    if set(ei) != set(eg) | set(eh):
        fails.append(dict(clause="union-bonds", detail="ITS bonds %r, union %r" % (sorted(map(sorted, ei)), sorted(map(sorted, set(eg) | set(eh))))))
    else:
        for k, d in ei.items():
            a, b = eg.get(k, 0), eh.get(k, 0)
            if tuple(d.get("order", ())) != (a, b) or d.get("standard_order") != a - b:
                fails.append(dict(clause="order-pair", detail="bond %r: ITS has order=%r standard_order=%r, sides have (%r, %r)"
                                  % (sorted(k), d.get("order"), d.get("standard_order"), a, b)))
                break
    for n in its.nodes:
        t = its.nodes[n].get("typesGH")
        want = tuple(tuple(X.nodes[n][k] for k in ("element", "aromatic", "hcount", "charge")) for X in (G, H))
        if t is None or tuple(tuple(x[:4]) for x in t) != want:
            fails.append(dict(clause="union-labels", detail="atom %r: typesGH %r, sides %r" % (n, t, want)))
            break
    return fails


def _its_of_reading(A, B):
    """independent ITS (networkx) from two read_side() results"""
    import networkx as nx
    I = nx.Graph()
    for k in set(A[0]) | set(B[0]):
        I.add_node(k, lab=(A[0].get(k), B[0].get(k)))
    for e in set(A[1]) | set(B[1]):
        u, v = tuple(e)
        I.add_edge(u, v, lab=(A[1].get(e, 0), B[1].get(e, 0)))
    return I


def string_clauses(rsmi, G, H):
    """parser monitor + its_to_rsmi(rsmi_to_its(r)) ~ r; demanded only for balanced, fully and uniquely mapped reactions"""
    import networkx as nx
    from synkit.IO.chem_converter import rsmi_to_its, its_to_rsmi
    fails = []
    a, b = rsmi.split(">>")
    A, B = R.read_side(a), R.read_side(b)
    if A is None or B is None or A[3] or B[3] or A[2] or B[2] or set(A[0]) != set(B[0]):
        return fails, False
    # monitor of the RDKit half: rsmi_to_graph against the independent reading
    for side, X, Y in (("reactant", G, A), ("product", H, B)):
        got = {n: (d.get("element"), d.get("charge"), d.get("hcount"), d.get("aromatic")) for n, d in X.nodes(data=True)}
        if got != Y[0] or _edge_map(X) != Y[1] or any(d.get("atom_map") != n for n, d in X.nodes(data=True)):
            dn = {k: (got.get(k), Y[0].get(k)) for k in set(got) | set(Y[0]) if got.get(k) != Y[0].get(k)}
            fails.append(dict(clause="parse-monitor", detail="%s graph of rsmi_to_graph differs from the independent RDKit reading: %r" % (side, dn)))
            return fails, True
    back = its_to_rsmi(rsmi_to_its(rsmi))
    if not isinstance(back, str) or back.count(">>") != 1:
        fails.append(dict(clause="string-roundtrip", detail="its_to_rsmi returned %r" % (back,)))
        return fails, True
    a2, b2 = back.split(">>")
    A2, B2 = R.read_side(a2), R.read_side(b2)
    if A2 is None or B2 is None:
        fails.append(dict(clause="string-roundtrip", detail="its_to_rsmi wrote an unreadable reaction %r" % back))
        return fails, True
    same = A2[:2] == A[:2] and B2[:2] == B[:2]          # identical as graphs keyed by atom map: trivially equivalent
    if not same:
        I1, I2 = _its_of_reading(A, B), _its_of_reading(A2, B2)
        ok = nx.is_isomorphic(I1, I2, node_match=lambda x, y: x["lab"] == y["lab"], edge_match=lambda x, y: x["lab"] == y["lab"])
        if not ok:
            fails.append(dict(clause="string-equivalent", detail="its_to_rsmi(rsmi_to_its(r)) = %r is not atom-map-equivalent to r = %r" % (back, rsmi)))
    if A2[2] or B2[2] or R.unmapped_side(a2) != R.unmapped_side(a) or R.unmapped_side(b2) != R.unmapped_side(b):
        fails.append(dict(clause="string-unmapped", detail="unmapped sides differ: %r vs input %r" % (back, rsmi)))
    return fails, True


def oracle(case):
    gh = _graphs_nx(case)
    fails = []
    if gh is None:
        if "rsmi" in case and R.well_formed(case["rsmi"]):
            a, b = case["rsmi"].split(">>")
            if R.read_side(a) is not None and R.read_side(b) is not None:
                fails.append(dict(clause="parse-monitor", detail="rsmi_to_graph returned None on a readable reaction"))
        return fails
    G, H = gh
    if balanced_pair(G, H):
        fails += graph_clauses(G, H)
    if "rsmi" in case and R.well_formed(case["rsmi"]):
        f2, _ = string_clauses(case["rsmi"], G, H)
        fails += f2
    return fails[:3]


def nontrivial(case, obs):
    gh = _graphs_nx(case)
    if gh is None:
        return False
    G, H = gh
    return balanced_pair(G, H) and _edge_map(G) != _edge_map(H)


def distribution(cases, obss):
    sizes, bal, half15, onesided, changed = {}, 0, 0, 0, 0
    for c, o in zip(cases, obss):
        if not (isinstance(o, list) and len(o) == 3):
            sizes["unparsable"] = sizes.get("unparsable", 0) + 1
            continue
        nodes, edges = o[0][0]["__set__"], o[0][1]["__set__"]
        n = len(nodes)
        key = str(n) if n <= 9 else ("10-29" if n < 30 else "30+")
        sizes[key] = sizes.get(key, 0) + 1
        if len(o[1][0]["__set__"]) == len(o[2][0]["__set__"]) == n and all(r[5][0] != 0 and r[6][0] != 0 for r in nodes):
            bal += 1
        if any(e[2] == 3 or e[3] == 3 for e in edges):
            half15 += 1
        if any((e[2] == 0) != (e[3] == 0) for e in edges):
            onesided += 1
        if any(e[4] != 0 for e in edges):
            changed += 1
    return dict(its_sizes=sizes, same_node_set=bal, with_order_1_5=half15, with_one_sided_bond=onesided, with_changed_bond=changed)


def shrink(case, fl):
    """drop nodes (from both sides) while the oracle still fails"""
    if "G" not in case:
        return case
    cur = case
    changed = True
    while changed:
        changed = False
        for n in [x[0] for x in cur["G"]["nodes"]]:
            cand = dict(cur)
            for k in ("G", "H"):
                cand[k] = {"nodes": [x for x in cur[k]["nodes"] if x[0] != n],
                           "edges": [e for e in cur[k]["edges"] if n not in e[:2]]}
            try:
                if oracle(cand):
                    cur = dict(cand, name=case.get("name", "") + "(shrunk)")
                    changed = True
                    break
            except Exception:
                pass
    return cur


# ------------------------------------------------------------------ generators

ORD4 = (0, 1, 1.5, 2)
SIDE_LABELS = [(h, c) for h in (0, 1) for c in (0, 1)]


def _pair(ids, labsG, labsH, oG, oH, rng, kind, with_nb=True):
    return dict(kind=kind, G=E.mk_side(ids, labsG, oG, rng, with_nb), H=E.mk_side(ids, labsH, oH, rng, with_nb))


def gen_exhaustive_small(rng):
    cases = []
    for el in E.ELEMS2:
        for lg in SIDE_LABELS:
            for lh in SIDE_LABELS:
                cases.append(_pair([1], [(el,) + lg], [(el,) + lh], {}, {}, rng, "exh1"))
    for e1, e2 in itertools.product(E.ELEMS2, repeat=2):
        for l1g, l1h, l2g, l2h in itertools.product(SIDE_LABELS, repeat=4):
            for a in ORD4:
                for b in ORD4:
                    cases.append(_pair([1, 2], [(e1,) + l1g, (e2,) + l2g], [(e1,) + l1h, (e2,) + l2h],
                                       {(0, 1): a}, {(0, 1): b}, rng, "exh2"))
    return cases


def _rand_labels(rng, n, elems=("C", "H", "O", "N", "Cl")):
    els = [rng.choice(elems) for _ in range(n)]
    lg = [(els[i], rng.choice((0, 0, 1, 2, 3)), rng.choice((0, 0, 1, -1)), rng.random() < 0.25) for i in range(n)]
    lh = [(els[i], rng.choice((0, 0, 1, 2, 3)), rng.choice((0, 0, 1, -1)), rng.random() < 0.25) for i in range(n)]
    return lg, lh


def gen_three(rng):
    pairs = [(0, 1), (0, 2), (1, 2)]
    cases = []
    for og in itertools.product(ORD4, repeat=3):
        for oh in itertools.product(ORD4, repeat=3):
            ids = rng.sample(range(1, 12), 3)
            lg, lh = _rand_labels(rng, 3)
            cases.append(_pair(ids, lg, lh, dict(zip(pairs, og)), dict(zip(pairs, oh)), rng, "exh3", with_nb=rng.random() < 0.8))
    return cases


def gen_four(rng, count):
    pairs = [(i, j) for i in range(4) for j in range(i + 1, 4)]
    cases = []
    for _ in range(count):
        ids = rng.sample(range(1, 30), 4)
        lg, lh = _rand_labels(rng, 4)
        og = {p: rng.choice((0, 1, 2)) for p in pairs}
        oh = {p: rng.choice((0, 1, 2)) for p in pairs}
        cases.append(_pair(ids, lg, lh, og, oh, rng, "samp4"))
    return cases


def gen_random(rng, count, maxn=9):
    cases = []
    for _ in range(count):
        n = rng.randint(3, maxn)
        ids = rng.sample(range(0, 60), n)
        lg, lh = _rand_labels(rng, n)
        pairs = [(i, j) for i in range(n) for j in range(i + 1, n)]
        p = rng.choice((0.15, 0.3, 0.5))
        og = {q: (rng.choice((1, 1, 1.5, 2, 3)) if rng.random() < p else 0) for q in pairs}
        oh = {}
        for q in pairs:                       # product = reactant with a few edits
            z = rng.random()
            oh[q] = og[q] if z < 0.7 else rng.choice((0, 0, 1, 1.5, 2, 3))
        cases.append(_pair(ids, lg, lh, og, oh, rng, "random", with_nb=rng.random() < 0.8))
    return cases


def gen_malformed(rng, count):
    """pairs OUTSIDE the precondition: node sets differ (either side may be larger or equal in size), order-0 edges,
    atom_map != node id, missing neighbors.  Compared on the default-filling ('*' atoms) behaviour."""
    cases = []
    for c in gen_random(rng, count, maxn=6):
        G, H = c["G"], c["H"]
        z = rng.random()
        if z < 0.75:
            for side in rng.choice(((G,), (H,), (G, H))):
                k = rng.randint(1, max(1, len(side["nodes"]) - 1))
                drop = set(rng.sample([n for n, _ in side["nodes"]], k))
                side["nodes"] = [x for x in side["nodes"] if x[0] not in drop]
                side["edges"] = [e for e in side["edges"] if e[0] not in drop and e[1] not in drop]
        if z > 0.6:
            for side in (G, H):
                for e in side["edges"]:
                    if rng.random() < 0.3:
                        e[2]["order"] = 0
                for x in side["nodes"]:
                    if rng.random() < 0.3:
                        x[1]["atom_map"] = rng.randint(0, 70)
        c["kind"] = "malformed"
        cases.append(c)
    return cases


def gen_corpus(rng, n_sample, n_rewrites):
    corpus = R.load_corpus()
    good = [(s, i, r) for s, i, r in corpus if R.well_formed(r)]
    bad = [(s, i, r) for s, i, r in corpus if not R.well_formed(r)]
    cases = []
    if n_sample is None:
        chosen, chosen_bad = good, bad
    else:
        # stratified: both corpora, and always the six atom-unbalanced ecoli reactions' neighbourhood via random choice
        us = [x for x in good if x[0] == "uspto"]
        ec = [x for x in good if x[0] == "ecoli"]
        chosen = rng.sample(us, n_sample // 2) + rng.sample(ec, n_sample - n_sample // 2)
        chosen_bad = rng.sample(bad, min(4, len(bad)))
    for s, i, r in chosen:
        cases.append(dict(kind="corpus", rsmi=r, src="%s#%d" % (s, i)))
        for kind in R.REWRITES:
            for k in range(n_rewrites if kind != "rev" else 1):
                try:
                    cases.append(dict(kind="rw-" + kind, rsmi=R.rewrite(r, kind, rng), src="%s#%d" % (s, i)))
                except Exception:
                    pass
    for s, i, r in chosen_bad:
        cases.append(dict(kind="corpus-malformed", rsmi=r, src="%s#%d" % (s, i)))
    return cases


def gen_cases(tier, rng):
    cases = gen_exhaustive_small(rng) + gen_three(rng)
    if tier == "quick":
        cases += gen_four(rng, 1500) + gen_random(rng, 800) + gen_malformed(rng, 500)
        cases += gen_corpus(rng, 40, 1)
    else:
        cases += gen_four(rng, 30000) + gen_random(rng, 12000) + gen_malformed(rng, 6000)
        cases += gen_corpus(rng, None, 2)
    return cases
