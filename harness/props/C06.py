"""C06 — SubgraphSearchEngine.find_subgraph_mappings = label-preserving monomorphisms.

case = {"kind", "host": G, "pattern": G, "na": [node attrs], "ea": [edge attrs],
        "cfgs": [[strategy, max_results|None, threshold|None, strict_cc_count, pre_filter], ...],
        "vf2": None | [[host node list, pattern node list, [[[p, h], ...], ...]], ...]}
G = {"nodes": [[id, attrs], ...], "edges": [[u, v, attrs], ...]}  (harness/gen/graphs.py)

vf2 = None : order-insensitive case.  The model's VF2 oracle is the verified enumerator itself and
             results are compared as MULTISETS of mappings.
vf2 = table: order-sensitive case (result limits).  The complete enumeration of every
             GraphMatcher.subgraph_monomorphisms_iter call was recorded (by wrapping the networkx iterator)
             at generation time and is handed to the model as its oracle (lookup_or: recorded list, or the verified
             enumerator for a call that was never recorded); results are compared as LISTS, and the model first checks
             inside Coq that every recorded enumeration is a permutation of the verified enumerator's output (table_ok2,
             flag compared with the constant 1; proved to imply the VF2 premise of the theorems).
Observable: gwf flag, [table_ok flag,] components of host, components of pattern, per configuration (pre-filter verdict, result).
"""
import itertools
import math

from ..coqrun import cN, cbool, clist
from ..tok import S
from ..gen import graphs as G

PID = "C06"
COQ_HEADER = ("From Coq Require Import List NArith.\nFrom SK Require Import lib.Tok lib.LGraph model.C06_Model.\n"
              "Import ListNotations.\n")
SHARD = 250
IMPL_TIMEOUT = 900
COQ_TIMEOUT = 900
DEFAULT_THRESHOLD = 5000
STRATS = {"all": 0, "comp": 1, "bt": 2}

RULE = ("(host, pattern, attribute selection, list of configurations); exhaustive iso-class scopes over 2 elements x hcount{0,1} "
        "x bond orders {1,2} under PRNG relabelling/insertion order + random molecule-like graphs <= 9 nodes with planted/"
        "unplanted, multi-component patterns + limit configurations; a case is non-trivial when the exhaustive strategy finds at "
        "least one match and fewer than all injective maps are matches; distinct = distinct case contents")
EXHAUSTIVE = {"quick": True, "thorough": True}
EXPLANATION = ("Exhaustive sub-space: quick = every iso class of hosts <= 3 nodes x patterns <= 2 nodes (13 532 pairs), thorough = hosts <= 4 x "
               "patterns <= 2 (317 050 pairs), all strategies, strict on/off, pre-filter on/off, no limits; the rest is sampled "
               "(quick: 1 500 host<=4 x pattern<=3 class pairs, 1 200 random molecule-like pairs, 1 200 ordered cases with limit "
               "configurations and recorded VF2 order). Theorems are about the Gallina model parameterised by the VF2 oracle (any "
               "duplicate-free listing of the valid monomorphisms); the correspondence compares result multisets (lists when limits "
               "are set), component partitions and pre-filter verdicts.")
TRUSTED_BASE = [
    "Coq 8.16.1 kernel + vm_compute (no native_compute)",
    "hand-written model coq/model/C06_Model.v tied to synkit/Graph/Matcher/subgraph_matcher.py by the per-run correspondence",
    "harness encoder harness/props/C06.py (attribute projection/interning, hcount default 0, threshold default 5000)",
    "networkx VF2 subgraph_monomorphisms_iter returns a duplicate-free listing of exactly the label-preserving monomorphisms: a "
    "premise (vf2_contract / oracle_ok) of the all-inputs theorems, NOT assumed for the cases that are run: order-insensitive "
    "cases use the verified enumerator lib/Mono.v as the oracle (proved to satisfy the premise), order-sensitive cases use the "
    "recorded networkx enumerations and Coq evaluates table_ok2, which is proved to imply the premise (C06_run_list_premises); "
    "what is trusted is that the recorded table is what networkx returned to the implementation (iterator wrapper in attach_vf2)",
    "networkx Graph.copy / subgraph / connected_components (components are re-computed by the model, proved to be the "
    "connectivity classes (C06_components), and compared on every case)",
]
ASSUMPTIONS = ["graphs are simple undirected networkx Graphs without self-loops with distinct node ids (premise gwf of the theorems; "
               "evaluated by the model on every case: wfb, first flag of the observable; C06_input_premise_monitor)",
               "hcount, when present, is a non-negative int",
               "attribute values are JSON scalars compared with Python ==",
               "strict_cc_count=True with more host than pattern components is the documented guard (comp: [], bt: exhaustive) - "
               "outside the property text; stated as the first case of C06_comp_spec, pinned by the correspondence",
               "a per-component embedding list longer than the threshold empties the component-aware result even when the combined "
               "result would not be past the threshold (docstring: 'enumeration guard'); second alternative of C06_limits, witness "
               "C06_limits_guard_reachable; accepted by the oracle"]
TESTED_NOT_PROVED = ["inputs are not modified (pure model; the adapter deep-compares host and pattern before/after every call)",
                     "Strategy.from_string dispatch (strings 'all'/'comp'/'bt' and enum members)",
                     "the VF2 contract for inputs that were not run (premise of the theorems; discharged inside Coq for every case that "
                     "is run, see TRUSTED_BASE)"]
LEVEL_TEXT = ("Machine-checked proof (Coq, all inputs, 16 theorems closed under the global context) over an executable, "
              "structure-following model of SubgraphSearchEngine.find_subgraph_mappings parameterised by the VF2 enumeration: "
              "ALL = exactly the label-preserving monomorphisms, duplicate-free (under the VF2 contract, which the verified enumerator "
              "provably meets); COMPONENT = exactly those sending different pattern components into different host components, duplicate-free, all of "
              "them when the host has fewer components, [] under the strict_cc_count guard; BACKTRACK = COMPONENT if non-empty else ALL; "
              "for every max_results/threshold the result is the prefix of length min of the unlimited list, emptied past the threshold, "
              "or (comp/bt) the per-component enumeration guard fired; the pre-filter skips only when there is provably no match or its documented estimate guard fired.  Model tied to the code on every run by comparing result "
              "multisets/lists, component partitions and pre-filter verdicts on exhaustive small scopes and random populations.")
LEVEL_NOTE = ("Trusted: Coq kernel, the model, the harness encoder, the VF2 contract (monitored per case; networkx itself is not "
              "verified).  Not proved: input immutability of the Python code (monitored).")
TECHNIQUE = "Coq 8.16 proof about an executable Gallina model + per-run correspondence (vm_compute digest vs implementation) + independent brute-force property oracle"
DESIGN_REF = "DESIGN.md section 5 C06, Appendix A.1; notes/C06.md"


# ------------------------------------------------------------------ helpers

def _thr(t):
    return DEFAULT_THRESHOLD if t is None else t


def _call(H, P, case, cfg):
    from synkit.Graph.Matcher.subgraph_matcher import SubgraphSearchEngine as SSE
    st, mr, thr, strict, pref = cfg
    return SSE.find_subgraph_mappings(H, P, node_attrs=list(case["na"]), edge_attrs=list(case["ea"]), strategy=st,
                                      max_results=mr, strict_cc_count=strict, threshold=thr, pre_filter=pref)


def _mp(m):
    return S([[p, h] for p, h in m.items()])


def _snapshot(g):
    return ([(n, sorted(d.items(), key=repr)) for n, d in g.nodes(data=True)],
            [(u, v, sorted(d.items(), key=repr)) for u, v, d in g.edges(data=True)])


# ------------------------------------------------------------------ implementation adapter

def impl(case):
    import networkx as nx
    from synkit.Graph.Matcher.subgraph_matcher import SubgraphSearchEngine as SSE
    H, P = G.to_nx(case["host"]), G.to_nx(case["pattern"])
    ordered = case.get("vf2") is not None
    out = []
    for cfg in case["cfgs"]:
        r = _call(H, P, case, cfg)
        q = SSE._quick_pre_filter(H, P, list(case["na"]), _thr(cfg[2]))
        ms = [_mp(m) for m in r]
        out.append([bool(q), ms if ordered else S(ms)])
    comps = lambda g: S([S(sorted(c)) for c in nx.connected_components(g)])
    obs = [comps(H), comps(P), out]
    # leading flags: the model evaluates the input premise gwf of the theorems (and, for ordered cases, the VF2
    # contract monitor table_ok); both must be true
    return [True] + (([True] + obs) if ordered else obs)


class record_vf2:
    """Context manager: wrap networkx GraphMatcher as seen by subgraph_matcher so that the COMPLETE enumeration of
    every subgraph_monomorphisms_iter call is recorded (keyed by the node lists of the two graphs)."""

    def __enter__(self):
        import synkit.Graph.Matcher.subgraph_matcher as SM
        self.SM = SM
        self.orig = SM.GraphMatcher
        rec = self.rec = []

        class RecGM(self.orig):
            def subgraph_monomorphisms_iter(self_):
                full = [dict(m) for m in super().subgraph_monomorphisms_iter()]
                rec.append((list(self_.G1.nodes), list(self_.G2.nodes), full))
                return iter(full)
        SM.GraphMatcher = RecGM
        return self

    def __exit__(self, *a):
        self.SM.GraphMatcher = self.orig

    def table(self):
        seen, out = set(), []
        for hn, pn, full in self.rec:
            k = (frozenset(hn), frozenset(pn))
            if k in seen:
                continue
            seen.add(k)
            out.append([sorted(hn), sorted(pn), [sorted([p, h] for h, p in iso.items()) for iso in full]])
        return out


def attach_vf2(case):
    """Record the VF2 enumerations the implementation can ask for on this (host, pattern, attrs)."""
    H, P = G.to_nx(case["host"]), G.to_nx(case["pattern"])
    with record_vf2() as r:
        for st in ("all", "comp"):
            try:
                _call(H, P, case, [st, None, 10 ** 9, False, False])
            except Exception:       # an implementation that raises is reported by impl()/oracle() on the case, not here
                pass
        case["vf2"] = r.table()
    return case


# ------------------------------------------------------------------ model encoder

def _vkey(v):
    if isinstance(v, (bool, int, float)):
        return ("n", float(v))
    if isinstance(v, str):
        return ("s", v)
    if isinstance(v, (list, tuple)):
        return ("t", tuple(_vkey(x) for x in v))
    raise TypeError("attribute value outside the model domain: %r" % (v,))


class _Codes:
    def __init__(self):
        self.t = {}

    def __call__(self, v):
        if v is None:
            return 0
        k = _vkey(v)
        if k not in self.t:
            self.t[k] = len(self.t) + 1
        return self.t[k]


def _coq_graph(g, na, ea, codes):
    def nl(n, a):
        hc = a.get("hcount", 0)
        if isinstance(hc, bool) or not isinstance(hc, int) or hc < 0:
            raise TypeError("hcount outside the model domain")
        return "(%s, %s)" % (clist([cN(codes(a.get(k))) for k in na]), cN(hc))

    def el(u, v, a):
        return clist([cN(codes(a.get(k))) for k in ea])
    return G.coq_lgraph(g, nl, el)


def _coq_cfg(cfg):
    st, mr, thr, strict, pref = cfg
    return "(Cfg %s %s %s %s %s)" % (cN(STRATS[st]), cN(mr or 0), cN(_thr(thr)), cbool(strict), cbool(pref))


def coq_case(case):
    codes = _Codes()
    try:
        h = _coq_graph(case["host"], case["na"], case["ea"], codes)
        p = _coq_graph(case["pattern"], case["na"], case["ea"], codes)
    except TypeError:
        return None
    if any(u == v for u, v, _ in case["host"]["edges"] + case["pattern"]["edges"]):
        return None
    cfgs = clist([_coq_cfg(c) for c in case["cfgs"]])
    if case.get("vf2") is None:
        return "run_set %s %s %s" % (h, p, cfgs)
    tab = clist(["(%s, %s, %s)" % (clist([cN(x) for x in hn]), clist([cN(x) for x in pn]),
                                    clist([clist(["(%s, %s)" % (cN(a), cN(b)) for a, b in m]) for m in ms]))
                 for hn, pn, ms in case["vf2"]])
    return "run_list %s %s %s %s" % (h, p, tab, cfgs)


# ------------------------------------------------------------------ independent property oracle

def _brute(H, P, na, ea, hnodes=None, pnodes=None):
    """All injective maps pattern -> host satisfying the property's three conditions."""
    hn = list(H.nodes) if hnodes is None else list(hnodes)
    pn = list(P.nodes) if pnodes is None else list(pnodes)
    pset = set(pn)
    pedges = [(u, v, d) for u, v, d in P.edges(data=True) if u in pset and v in pset]
    cand = []
    for p in pn:
        pd = P.nodes[p]
        cand.append([h for h in hn if all(H.nodes[h].get(a) == pd.get(a) for a in na)
                     and H.nodes[h].get("hcount", 0) >= pd.get("hcount", 0)])
    out = []
    for img in itertools.product(*cand):
        if len(set(img)) != len(img):
            continue
        m = dict(zip(pn, img))
        ok = True
        for u, v, d in pedges:
            if not H.has_edge(m[u], m[v]) or any(H[m[u]][m[v]].get(a) != d.get(a) for a in ea):
                ok = False
                break
        if ok:
            out.append(m)
    return out


def _components(g):
    """Own union-find (independent of networkx.connected_components)."""
    par = {n: n for n in g.nodes}

    def find(x):
        while par[x] != x:
            par[x] = par[par[x]]
            x = par[x]
        return x
    for u, v in g.edges():
        par[find(u)] = find(v)
    cls = {}
    for n in g.nodes:
        cls.setdefault(find(n), []).append(n)
    return list(cls.values())


def _fs(m):
    return frozenset(m.items())


def _estimate_guard(H, P, na, thr):
    """Documented guard of the cheap pre-filter: candidate product exceeds threshold * 1e4."""
    est = 1
    for p, pd in P.nodes(data=True):
        c = sum(1 for h, hd in H.nodes(data=True) if all(hd.get(a) == pd.get(a) for a in na)
                and hd.get("hcount", 0) >= pd.get("hcount", 0) and H.degree(h) >= P.degree(p))
        if c == 0:
            return False        # "no candidate" exit is sound: then there is no match at all
        est *= c
        if est > thr * 1e4:
            return True
    return False


def oracle(case):
    H, P = G.to_nx(case["host"]), G.to_nx(case["pattern"])
    na, ea = list(case["na"]), list(case["ea"])
    fails = []

    def bad(clause, detail):
        fails.append(dict(clause=clause, detail=detail))

    snapH, snapP = _snapshot(H), _snapshot(P)
    B = _brute(H, P, na, ea)
    Bset = {_fs(m) for m in B}
    hcs, pcs = _components(H), _components(P)
    hcc, pcc = len(hcs), len(pcs)
    hof = {n: i for i, c in enumerate(hcs) for n in c}
    pof = {n: i for i, c in enumerate(pcs) for n in c}

    def separates(m):
        img = {}
        for p, h in m.items():
            img.setdefault(pof[p], set()).add(hof[h])
        return all(len(s) == 1 for s in img.values()) and len({next(iter(s)) for s in img.values()}) == len(img)
    SEP = [m for m in B if separates(m)]
    SEPset = {_fs(m) for m in SEP}
    unl = {}

    def unlimited(st, strict):
        k = (st, strict)
        if k not in unl:
            unl[k] = _call(H, P, case, [st, None, 10 ** 9, strict, False])
        return unl[k]

    percc = None

    def percc_counts():
        nonlocal percc
        if percc is None:
            percc = []
            for pc in pcs:
                percc.append(sum(len(_brute(H, P, na, ea, hc, pc)) for hc in hcs if len(hc) >= len(pc)))
        return percc

    for cfg in case["cfgs"]:
        st, mr, thr, strict, pref = cfg
        T = _thr(thr)
        tag = "cfg=%r" % (cfg,)
        try:
            R = _call(H, P, case, cfg)
            unlimited(st, strict)
            unlimited("all", strict)
        except Exception as e:      # the search must return a list for every input of the domain
            bad("raises", "%s: %s: %s" % (tag, type(e).__name__, e))
            break
        if _snapshot(H) != snapH or _snapshot(P) != snapP:
            bad("inputs-unmodified", tag)
            break
        keys = [_fs(m) for m in R]
        if len(set(keys)) != len(keys):
            bad("no-duplicates", "%s: %d results, %d distinct" % (tag, len(keys), len(set(keys))))
        if not set(keys) <= Bset:
            bad("sound", "%s: returned a map that is not a label-preserving monomorphism: %r"
                % (tag, [dict(k) for k in set(keys) - Bset][:2]))
            continue
        # documented strict_cc_count guard: the COMPONENT strategy returns [] when the host has more components than the
        # pattern -- outside the property text, no demand on "comp" there.  It is NOT an excuse for "bt": the fallback clause
        # ("that set if non-empty and the exhaustive set otherwise") is checked in every configuration, against the
        # implementation's own comp / all results and against the brute-force sets.
        guard_region = strict and hcc > pcc and st == "comp"
        # ---- exactness of the unlimited result
        U = unlimited(st, strict)
        Uset = {_fs(m) for m in U}
        if st == "bt":
            Uc, Ua = unlimited("comp", strict), unlimited("all", strict)
            src, sname = (Uc, "its own component-aware result") if Uc else (Ua, "its own exhaustive result (component-aware result is empty)")
            if Uset != {_fs(m) for m in src} or len(U) != len(src):
                bad("fallback-dispatch", "%s: unlimited bt has %d maps but must equal %s with %d maps (comp %d, all %d)"
                    % (tag, len(U), sname, len(src), len(Uc), len(Ua)))
                continue
        if st == "all" or hcc < pcc:
            want, name = Bset, "exhaustive"
        elif st == "comp":
            want, name = SEPset, "component-separating"
        elif strict and hcc > pcc:
            # comp is [] by the documented parameter (or [{}] for an empty pattern): bt must give the exhaustive set
            want, name = Bset, "fallback(exhaustive, strict_cc_count guard)"
        else:
            want, name = (SEPset if SEPset else Bset), "fallback"
        if not guard_region:
            if Uset != want or len(U) != len(want):
                bad("exact-" + name, "%s: unlimited result has %d maps (%d distinct), the %s set has %d; missing %r extra %r"
                    % (tag, len(U), len(Uset), name, len(want), [dict(k) for k in want - Uset][:2], [dict(k) for k in Uset - want][:2]))
                continue
        # ---- limits only truncate / empty past the threshold; pre-filter neutral
        def E(Ux):
            k = min(mr, len(Ux)) if mr else len(Ux)
            return [] if k > T else Ux[:k]
        ok = [E(U)]
        if st == "bt" and not U:
            ok.append(E(unlimited("all", strict)))
        if st != "all" and hcc >= pcc and pcc >= 2 and not (strict and hcc > pcc) and any(c > T for c in percc_counts()):
            # documented enumeration guard: a per-component embedding list longer than the threshold empties the
            # component-aware result (bt then falls back to the exhaustive search)
            ok.append([] if st == "comp" else E(unlimited("all", strict)))
        if pref and _estimate_guard(H, P, na, T):
            ok.append([])
        if R not in ok:
            limited = bool(mr) or thr is not None
            bad("limits-only-truncate" if limited else ("prefilter-neutral" if pref else "deterministic"),
                "%s: got %d maps %r; unlimited list has %d; accepted: %r" % (tag, len(R), R[:3], len(U), [len(x) for x in ok]))
    return fails[:3]


# ------------------------------------------------------------------ evidence helpers

def nontrivial(case, obs):
    o = obs[2:] if case.get("vf2") is not None else obs[1:]
    first = o[2][0][1]
    n = len(first["__set__"]) if isinstance(first, dict) else len(first)
    h, p = len(case["host"]["nodes"]), len(case["pattern"]["nodes"])
    return 1 <= n < math.perm(h, p)


def distribution(cases, obss):
    d = dict(host_nodes={}, pattern_nodes={}, host_components={}, pattern_components={}, strategies={}, max_results={},
             threshold={}, strict={}, pre_filter={}, attr_selection={}, ordered_cases=0, results_empty=0, results_nonempty=0,
             limit_binds=0, prefilter_true=0, result_sizes={})

    def inc(t, k):
        t[str(k)] = t.get(str(k), 0) + 1
    for c, obs in zip(cases, obss):
        inc(d["host_nodes"], len(c["host"]["nodes"]))
        inc(d["pattern_nodes"], len(c["pattern"]["nodes"]))
        inc(d["attr_selection"], "/".join(c["na"]) + "|" + "/".join(c["ea"]))
        ordered = c.get("vf2") is not None
        d["ordered_cases"] += ordered
        if not isinstance(obs, list) or (obs and obs[0] == "EXC"):
            continue
        o = obs[2:] if ordered else obs[1:]
        try:
            inc(d["host_components"], len(o[0]["__set__"]))
            inc(d["pattern_components"], len(o[1]["__set__"]))
            full = None
            for cfg, (q, r) in zip(c["cfgs"], o[2]):
                inc(d["strategies"], cfg[0])
                inc(d["max_results"], cfg[1])
                inc(d["threshold"], cfg[2])
                inc(d["strict"], cfg[3])
                inc(d["pre_filter"], cfg[4])
                n = len(r["__set__"]) if isinstance(r, dict) else len(r)
                d["results_nonempty" if n else "results_empty"] += 1
                d["prefilter_true"] += bool(q)
                inc(d["result_sizes"], n if n < 10 else "10+")
                if full is None:
                    full = n
                elif (cfg[1] or cfg[2] is not None) and n < full:
                    d["limit_binds"] += 1
        except Exception:
            pass
    return d


def shrink(case, fl):
    """Greedy: drop configurations, then host/pattern nodes and edges, while the oracle still fails."""
    def fails(c):
        try:
            return bool(oracle(c))
        except Exception:
            return False

    def variants(c):
        if len(c["cfgs"]) > 1:
            for i in range(len(c["cfgs"])):
                yield dict(c, cfgs=[c["cfgs"][i]])
        for side in ("host", "pattern"):
            g = c[side]
            for n, _ in g["nodes"]:
                yield dict(c, **{side: {"nodes": [x for x in g["nodes"] if x[0] != n],
                                        "edges": [e for e in g["edges"] if n not in (e[0], e[1])]}})
            for i in range(len(g["edges"])):
                yield dict(c, **{side: {"nodes": g["nodes"], "edges": g["edges"][:i] + g["edges"][i + 1:]}})
    cur = dict(case)
    changed = True
    while changed:
        changed = False
        for v in variants(cur):
            if fails(v):
                cur, changed = v, True
                break
    if cur.get("vf2") is not None:
        attach_vf2(cur)
    cur["name"] = case.get("name", "") + "(shrunk)"
    return cur


def neighbours(case, rng):
    out = []
    seen = set()
    for cfg in case["cfgs"]:
        # the configuration itself, and the same limits under every strategy / strict flag (dispatch clauses such as the
        # fallback rule only show up for particular strategy x strict x component-layout combinations)
        for st in (cfg[0], "all", "comp", "bt"):
            for strict in (cfg[3], not cfg[3]):
                c2 = [st, cfg[1], cfg[2], strict, cfg[4]]
                if tuple(c2) not in seen:
                    seen.add(tuple(c2))
                    out.append(dict(case, cfgs=[c2], name="neighbour-cfg"))
    for side in ("host", "pattern"):
        g = case[side]
        for n, _ in g["nodes"]:
            c = dict(case, **{side: {"nodes": [x for x in g["nodes"] if x[0] != n],
                                     "edges": [e for e in g["edges"] if n not in (e[0], e[1])]}})
            c["name"] = "neighbour-del"
            if c.get("vf2") is not None:
                attach_vf2(c)
            out.append(c)
    return out


# ------------------------------------------------------------------ generators

SET_CFGS = [["all", None, None, False, False], ["comp", None, None, False, False], ["comp", None, None, True, False],
            ["bt", None, None, False, False], ["bt", None, None, True, False],
            ["all", None, None, False, True], ["comp", None, None, False, True], ["bt", None, None, True, True]]
NA_DEFAULT, EA_DEFAULT = ["element", "charge"], ["order"]


def _present(g, rng, hi_extra=5):
    """A class member under a PRNG-chosen relabelling and insertion order."""
    return G.shuffle_insertion(G.random_relabel(g, rng, 1, len(g["nodes"]) + hi_extra), rng)


def _classes(n):
    return G.iso_classes(n, G.MOL_NODE_LABELS, G.MOL_EDGE_LABELS)


def _disjoint(h, p, rng):
    """Shift pattern ids sometimes so that they overlap / do not overlap with the host ids."""
    if rng.random() < 0.5:
        off = max([n for n, _ in h["nodes"]] + [0]) + rng.randint(0, 3)
        p = G.relabel(p, {n: n + off for n, _ in p["nodes"]})
    return p


def _union(parts):
    nodes, edges, off = [], [], 0
    for g in parts:
        mp = {n: off + i + 1 for i, (n, _) in enumerate(g["nodes"])}
        r = G.relabel(g, mp)
        nodes += r["nodes"]
        edges += r["edges"]
        off += len(g["nodes"])
    return {"nodes": nodes, "edges": edges}


def _rand_mol(rng, n, multi=False):
    kw = dict(elements=("C", "C", "O", "N"), orders=(1, 1, 2, 1.5), charges=(0, 0, 0, 0, 1), hcounts=(0, 0, 1, 2))
    if not multi or n < 2:
        g = G.random_graph(rng, n, p_edge=rng.choice([0.15, 0.3, 0.5]), connected=rng.random() < 0.6, **kw)
    else:
        k = rng.randint(2, min(4, n))
        cuts = sorted(rng.sample(range(1, n), k - 1))
        sizes = [b - a for a, b in zip([0] + cuts, cuts + [n])]
        g = _union([G.random_graph(rng, s, p_edge=rng.choice([0.3, 0.6]), connected=True, **kw) for s in sizes])
    for _, a in g["nodes"]:
        a.pop("atom_map", None)
        if rng.random() < 0.1:
            a.pop("hcount", None)          # absent hcount = 0
    return g


def _planted(rng, host, k, multi):
    """Pattern cut out of the host: k nodes (connected growth, or scattered over components when multi), a random
    subset of the induced edges, hcounts lowered, then relabelled."""
    ids = [n for n, _ in host["nodes"]]
    adjm = {n: set() for n in ids}
    for u, v, _ in host["edges"]:
        adjm[u].add(v)
        adjm[v].add(u)
    k = min(k, len(ids))
    if multi:
        keep = set(rng.sample(ids, k))
    else:
        keep = {rng.choice(ids)}
        while len(keep) < k:
            fr = sorted(set().union(*[adjm[x] for x in keep]) - keep)
            if not fr:
                break
            keep.add(rng.choice(fr))
    nodes = []
    for n, a in host["nodes"]:
        if n in keep:
            a = dict(a)
            if "hcount" in a and rng.random() < 0.5:
                a["hcount"] = rng.randint(0, a["hcount"])
            nodes.append([n, a])
    edges = [[u, v, dict(a)] for u, v, a in host["edges"] if u in keep and v in keep and rng.random() < (0.6 if multi else 0.9)]
    p = {"nodes": nodes, "edges": edges}
    if rng.random() < 0.3 and p["edges"]:
        rng.choice(p["edges"])[2]["order"] = rng.choice([1, 2, 1.5])       # sometimes break the plant
    return _present(p, rng, hi_extra=12)


def _rand_pair(rng, hmax=9, pmax=4):
    multi = rng.random() < 0.5
    host = _rand_mol(rng, rng.randint(2, hmax), multi=multi)
    if rng.random() < 0.65:
        pat = _planted(rng, host, rng.randint(1, pmax), multi and rng.random() < 0.7)
    else:
        pat = _present(_rand_mol(rng, rng.randint(1, pmax), multi=rng.random() < 0.5), rng)
    na = rng.choice([NA_DEFAULT, NA_DEFAULT, ["element"], [], ["element", "charge", "aromatic"], ["element", "hcount"]])
    ea = rng.choice([EA_DEFAULT, EA_DEFAULT, []])
    return G.shuffle_insertion(host, rng), pat, list(na), list(ea)


def _limit_cfgs(rng, n_all):
    """Limit configurations around the actual number of matches n_all."""
    ks = [None, 1, 2, 4, 5] + [k for k in (n_all - 1, n_all, n_all + 1) if k and k > 0]
    ts = [None, 1, 3] + [t for t in (n_all - 1, n_all, n_all + 1) if t > 0]
    cfgs = [["all", None, None, False, False]]
    combos = [(2, 1), (4, 3), (1, 1), (1, None)]
    while len(combos) < 7:
        combos.append((rng.choice(ks), rng.choice(ts)))
    for mr, thr in combos:
        if mr is None and thr is None:
            continue
        for st in ("all", "comp", "bt"):
            cfgs.append([st, mr, thr, rng.random() < 0.3, rng.random() < 0.15])
    return cfgs


def _multi_comp_pattern_pair(rng):
    """Layouts where combination of per-component lists matters: pattern = 2-3 small components, host = 2-4 components."""
    small = _classes(1) + _classes(2) + rng.sample(_classes(3), 12)
    pk = rng.randint(2, 3)
    pat = _union([rng.choice(small[:34]) for _ in range(pk)])
    host = _union([rng.choice(small) for _ in range(rng.randint(pk - (rng.random() < 0.15), 4))])
    if rng.random() < 0.6:      # make the host contain copies of the pattern components
        host = _union([rng.choice(small) for _ in range(rng.randint(0, 2))] +
                      [{"nodes": [[n, dict(a)] for n, a in pat["nodes"]], "edges": [[u, v, dict(a)] for u, v, a in pat["edges"]]}])
    return _present(host, rng), _present(pat, rng, hi_extra=9), list(NA_DEFAULT), list(EA_DEFAULT)


def _ordered_case(rng, kind, h, p, na, ea):
    c = dict(kind=kind, host=h, pattern=p, na=na, ea=ea, cfgs=[], vf2=None)
    attach_vf2(c)
    if sum(len(ms) for _, _, ms in c["vf2"]) > 350:
        return None
    n_all = 0
    for hn, pn, ms in c["vf2"]:
        if len(hn) == len(h["nodes"]) and len(pn) == len(p["nodes"]):
            n_all = len(ms)
    c["cfgs"] = _limit_cfgs(rng, n_all)
    return c


def gen_cases(tier, rng):
    cases = []
    cls = {n: _classes(n) for n in (1, 2, 3, 4)}
    # ---- exhaustive iso-class scope, order-insensitive
    hosts = cls[1] + cls[2] + cls[3] + (cls[4] if tier == "thorough" else [])
    pats = cls[1] + cls[2]
    for h in hosts:
        for p in pats:
            hh = _present(h, rng)
            cases.append(dict(kind="exh", host=hh, pattern=_disjoint(hh, _present(p, rng), rng), na=NA_DEFAULT, ea=EA_DEFAULT,
                              cfgs=SET_CFGS, vf2=None))
    # ---- sampled hosts <= 4 x patterns <= 3
    big_h = cls[1] + cls[2] + cls[3] + cls[4]
    big_p = cls[1] + cls[2] + cls[3]
    n_samp = 1500 if tier == "quick" else 60000   # measured: lowest mutant-detection rate per case of all populations
    for _ in range(n_samp):
        # bias towards 4-node hosts / 3-node patterns (the part not covered exhaustively)
        h = rng.choice(cls[4]) if rng.random() < 0.8 else rng.choice(big_h)
        p = rng.choice(cls[3]) if rng.random() < 0.7 else rng.choice(big_p)
        hh = _present(h, rng)
        cases.append(dict(kind="samp43", host=hh, pattern=_disjoint(hh, _present(p, rng), rng), na=NA_DEFAULT, ea=EA_DEFAULT,
                          cfgs=SET_CFGS, vf2=None))
    # ---- random molecule-like graphs, order-insensitive
    for _ in range(1200 if tier == "quick" else 10000):
        h, p, na, ea = _rand_pair(rng)
        cases.append(dict(kind="mol-set", host=h, pattern=p, na=na, ea=ea, cfgs=SET_CFGS, vf2=None))
    # ---- limits (order-sensitive, VF2 order recorded)
    n_lim = 1200 if tier == "quick" else 6000
    k = 0
    while k < n_lim:
        if k % 2 == 0:
            h, p, na, ea = _multi_comp_pattern_pair(rng)
            kind = "limits-multicomp"
        else:
            h, p, na, ea = _rand_pair(rng, hmax=7, pmax=4)
            kind = "limits-mol"
        c = _ordered_case(rng, kind, h, p, na, ea)
        if c is not None:
            cases.append(c)
            k += 1
    return cases
