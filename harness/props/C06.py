"""C06 — SubgraphSearchEngine.find_subgraph_mappings = label-preserving monomorphisms.

Round 5: the model receives the graphs with their WHOLE attribute dictionaries and the selections as name lists
(run_tr_set / run_tr_list of model/C06_Trace.v, run_sel_api of model/C06_Attrs.v); history cases may carry "family" (targeted histories).

case = {"kind", "host": G, "pattern": G, "na": [node attrs], "ea": [edge attrs],
        "cfgs": [[strategy, max_results|None, threshold|None, strict_cc_count, pre_filter], ...],
        "vf2": None | [[host node list, pattern node list, [[[p, h], ...], ...]], ...]}
G = {"nodes": [[id, attrs], ...], "edges": [[u, v, attrs], ...]}  (harness/gen/graphs.py)

vf2 = None : order-insensitive case.  The model's VF2 oracle is the verified enumerator itself and
             results are compared as MULTISETS of mappings.
vf2 = table: order-sensitive case (result limits).  The complete enumeration of every
             GraphMatcher.subgraph_monomorphisms_iter call was recorded (by wrapping the networkx iterator)
             at generation time and is handed to the model as its oracle (lookup_or: recorded list, or the verified
             enumerator for a call that was never recorded); results are compared as LISTS, and the model first checks
             inside Coq that every recorded enumeration is a permutation of the verified enumerator's output (table_ok2,
             flag compared with the constant 1; proved to imply the VF2 premise of the theorems).
Observable: gwf flag, [table_ok flag,] components of host, components of pattern, per configuration (pre-filter verdict, result,
trace of VF2 calls = [host part, pattern part, number of monomorphisms pulled from the iterator] in call order).
"""
import itertools
import math

from ..coqrun import cN, cbool, clist, copt
from ..tok import SETMARK
from ..gen import graphs as G

PID = "C06"
COQ_HEADER = ("From Coq Require Import List NArith.\nFrom SK Require Import lib.Tok lib.LGraph model.C06_Model model.C06_Attrs model.C06_Trace model.C06_Hist.\n"
              "Import ListNotations.\n")
SHARD = 250
IMPL_TIMEOUT = 900
COQ_TIMEOUT = 900
DEFAULT_THRESHOLD = 5000
STRATS = {"all": 0, "comp": 1, "bt": 2}

RULE = ("(host, pattern, attribute selection, list of configurations); exhaustive iso-class scopes over 2 elements x hcount{0,1} "
        "x bond orders {1,2} under PRNG relabelling/insertion order + random molecule-like graphs <= 9 nodes with planted/"
        "unplanted, multi-component patterns + limit configurations; a case is non-trivial when the exhaustive strategy finds at "
        "least one match and fewer than all injective maps are matches; distinct = distinct case contents")
EXHAUSTIVE = {"quick": True, "thorough": True}
EXPLANATION = ("Exhaustive sub-space: quick = every iso class of hosts <= 3 nodes x patterns <= 2 nodes (13 532 pairs), thorough = hosts <= 4 x "
               "patterns <= 2 (317 050 pairs), all strategies, strict on/off, pre-filter on/off, no limits; the rest is sampled "
               "(quick: 1 500 host<=4 x pattern<=3 class pairs, 1 200 random molecule-like pairs, 1 200 ordered cases with limit "
               "configurations and recorded VF2 order). Theorems are about the Gallina model parameterised by the VF2 oracle (any "
               "duplicate-free listing of the valid monomorphisms); the correspondence compares result multisets (lists when limits "
               "are set), component partitions, pre-filter verdicts and the trace of VF2 calls.  One presentation per isomorphism class "
               "suffices for the exhaustive scopes: the sets of (separating) monomorphisms of two presentations correspond through the "
               "renaming (C06_all_presentation_invariant, C06_comp_presentation_invariant, C06_component_count_invariant).")
TRUSTED_BASE = [
    "Coq 8.16.1 kernel + vm_compute (no native_compute)",
    "hand-written model coq/model/C06_Model.v tied to synkit/Graph/Matcher/subgraph_matcher.py by the per-run correspondence",
    "harness encoder harness/props/C06.py: interning of attribute names and values (Python == classes; None = 0), numeric hcount "
    "next to the dictionary, threshold default 5000 for the non-api populations.  The projection onto node_attrs / edge_attrs, "
    "the dict.get defaults (None, hcount 0) and the node_match / edge_match closures are in the MODEL since round 5 "
    "(model/C06_Attrs.v; C06_sel_closures, C06_sel_projection)",
    "networkx VF2 subgraph_monomorphisms_iter returns a duplicate-free listing of exactly the label-preserving monomorphisms: a "
    "premise (vf2_contract / oracle_ok) of the all-inputs theorems, NOT assumed for the cases that are run: order-insensitive "
    "cases use the verified enumerator lib/Mono.v as the oracle (proved to satisfy the premise), order-sensitive cases use the "
    "recorded networkx enumerations and Coq evaluates table_ok2, which is proved to imply the premise (C06_run_list_premises); "
    "what is trusted is that the recorded table is what networkx returned to the implementation (iterator wrapper in attach_vf2)",
    "networkx Graph.copy / subgraph / connected_components (components are re-computed by the model, proved to be the "
    "connectivity classes (C06_components), and compared on every case)",
]
ASSUMPTIONS = ["graphs are simple undirected networkx Graphs without self-loops with distinct node ids (premise gwf of the theorems; "
               "evaluated by the model on every case: wfb, first flag of the observable; C06_input_premise_monitor)",
               "hcount, when present, is a non-negative int",
               "attribute values are JSON scalars compared with Python ==",
               "strict_cc_count=True with more host than pattern components is the documented guard (comp: [], bt: exhaustive): a "
               "deviation from the property text (C06_comp_strict_refuted, known finding C06:comp-strict-cc-guard); there the oracle "
               "accepts [] or the separating set, nothing else; stated as the first case of C06_comp_spec, pinned by the correspondence",
               "a per-component embedding list longer than the threshold empties the component-aware result even when the combined "
               "result would not be past the threshold (docstring: 'enumeration guard'); second alternative of C06_limits, witness "
               "C06_limits_guard_reachable / C06_limits_comp_refuted, known finding C06:per-component-threshold-guard; accepted by the "
               "oracle with exactly that condition (recomputed by brute force)"]
TESTED_NOT_PROVED = ["inputs are not modified (pure model; the adapter deep-compares host and pattern before/after every call)",
                     "absence of state between calls in the Python code (class/instance/module level): histories on one engine object and "
                     "shared graph objects with in-place edits and caller-mutated results; the MODEL of a history is the state machine "
                     "run_history of model/C06_Hist.v (the two objects as state, networkx edit semantics, pure searches), compared step "
                     "by step with the live objects, and the oracle compares every step with a fresh evaluation",
                     "call spellings that do not reach the model (instance vs class, host/pattern by keyword, tuples for attribute lists)",
                     "the VF2 contract for inputs that were not run (premise of the theorems; discharged inside Coq for every case that "
                     "is run, see TRUSTED_BASE)"]
LEVEL_TEXT = ("Machine-checked proof (Coq, all inputs, 58 theorems closed under the global context) over an executable, "
              "structure-following model of SubgraphSearchEngine.find_subgraph_mappings parameterised by the VF2 enumeration: "
              "ALL = exactly the label-preserving monomorphisms, duplicate-free (under the VF2 contract, which the verified enumerator "
              "provably meets); COMPONENT = exactly those sending different pattern components into different host components, duplicate-free, all of "
              "them when the host has fewer components, [] under the strict_cc_count guard; BACKTRACK = COMPONENT if non-empty else ALL; "
              "for every max_results/threshold the result is the prefix of length min of the unlimited list, emptied past the threshold, "
              "or (comp/bt) the per-component enumeration guard fired; the pre-filter skips only when there is provably no match or its documented estimate guard fired; the call interface (strategy spellings, option defaults) is modelled and specified; the attribute dictionaries, the selections node_attrs / edge_attrs and the two match closures are modelled (the exhaustive strategy is exact in terms of the caller's dictionaries; a selection is a set of names; a larger selection only removes matches; the component-aware and fallback clauses are stated on the caller's graphs as well); the VF2 calls of every search (host part, pattern part, number of monomorphisms pulled) are modelled and compared (closed form of the consumption; never more than threshold + 1 per call; the per-component lists are determined by the trace); histories are a state machine over the caller's two objects (in-place edits with networkx semantics, edits of non-selected attributes provably invisible); results are invariant under renaming of node ids and re-ordering of the node / edge lists.  Model tied to the code on every run by comparing result "
              "multisets/lists, component partitions and pre-filter verdicts on exhaustive small scopes and random populations.")
LEVEL_NOTE = ("Trusted: Coq kernel, the model, the harness encoder, the VF2 contract (monitored per case; networkx itself is not "
              "verified).  Not proved: input immutability of the Python code (monitored).  Two clauses of the property text are FALSE "
              "for the code as it is (documented behaviour, kept): 'component-aware = the separating monomorphisms' fails under the "
              "default strict_cc_count=True when the host has more components than the pattern (C06_comp_strict_refuted; the clause "
              "is proved for strict_cc_count=False and for hosts without more components), and 'limits only truncate / empty past "
              "the threshold' fails for comp/bt when one pattern component alone has more than threshold embeddings "
              "(C06_limits_comp_refuted; proved without exception for the exhaustive strategy).  Both are known findings with "
              "witnesses in corpus/regress/C06/known_deviations.json.")
TECHNIQUE = "Coq 8.16 proof about an executable Gallina model + per-run correspondence (vm_compute digest vs implementation) + independent brute-force property oracle"
DESIGN_REF = "DESIGN.md section 5 C06, Appendix A.1; notes/C06.md"


# ------------------------------------------------------------------ helpers

def _thr(t):
    return DEFAULT_THRESHOLD if t is None else t


STYLES = ("kw", "instance", "hostkw", "enum", "upper", "title", "defaults", "tuple")


def _call(H, P, case, cfg, style="kw", engine=None):
    """One call of the public entry point.  `style` varies HOW the same request is spelled (class vs instance, host/pattern by
    keyword, strategy as enum member / upper-case / title-case string, options equal to their default omitted, attribute
    selections as tuples); the request itself is `cfg`."""
    from synkit.Graph.Matcher.subgraph_matcher import SubgraphSearchEngine as SSE
    from synkit.Synthesis.Reactor.strategy import Strategy
    st, mr, thr, strict, pref = cfg
    na, ea = list(case["na"]), list(case["ea"])
    if style == "tuple":
        na, ea = tuple(na), tuple(ea)
    kw = dict(node_attrs=na, edge_attrs=ea, strategy=st, max_results=mr, strict_cc_count=strict, threshold=thr, pre_filter=pref)
    if style == "enum":
        kw["strategy"] = Strategy(st)
    elif style == "upper":
        kw["strategy"] = st.upper()
    elif style == "title":
        kw["strategy"] = st.title()
    elif style == "defaults":
        for k, d in (("strategy", "comp"), ("max_results", None), ("strict_cc_count", True), ("threshold", None), ("pre_filter", False)):
            if kw[k] == d and (kw[k] is d or k == "strategy"):
                del kw[k]
    f = (engine or SSE()).find_subgraph_mappings if style == "instance" or engine is not None else SSE.find_subgraph_mappings
    if style == "hostkw":
        return f(pattern=P, host=H, **kw)
    if style == "sameobj":          # host and pattern are ONE object (the case has equal values on both sides)
        return f(H, H, **kw)
    return f(H, P, **kw)


def S(xs):
    """An unordered collection inside an observable, in the COMPACT form of the tok image itself: a tuple that starts with the
    set mark (tok.obs_to_tok maps tuples to lists; tok.thash sums over the members of a marked list, so no sorting is
    needed).  The dict form tok.S() costs ~300 bytes per set; the thorough tier holds ~4 * 10^5 observables in the parent
    process (7.9 GB resident with dicts, measured 2026-09-29)."""
    return (SETMARK,) + tuple(xs)


def _mp(m):
    return S((p, h) for p, h in m.items())


def _snapshot(g):
    return ([(n, sorted(d.items(), key=repr)) for n, d in g.nodes(data=True)],
            [(u, v, sorted(d.items(), key=repr)) for u, v, d in g.edges(data=True)])


# ------------------------------------------------------------------ implementation adapter

def _srt(xs):
    """Canonical order of node ids (ints in the model domain; strings / mixed ids in the oracle-only population)."""
    try:
        return sorted(xs)
    except TypeError:
        return sorted(xs, key=repr)


def _comps_obs(g):
    import networkx as nx
    return S([S(_srt(c)) for c in nx.connected_components(g)])


def impl(case):
    kind = case.get("kind")
    if kind == "history":
        return _impl_history(case)
    if kind == "api":
        return _impl_api(case)
    from synkit.Graph.Matcher.subgraph_matcher import SubgraphSearchEngine as SSE
    H, P = G.to_nx(case["host"]), G.to_nx(case["pattern"])
    ordered = case.get("vf2") is not None
    styles = case.get("styles") or ["kw"] * len(case["cfgs"])
    out = []
    with record_vf2() as rec:
        for cfg, style in zip(case["cfgs"], styles):
            rec.clear()
            r = _call(H, P, case, cfg, style)
            tr = rec.trace()
            q = SSE._quick_pre_filter(H, P, list(case["na"]), _thr(cfg[2]))
            ms = [_mp(m) for m in r]
            out.append((bool(q), tuple(ms) if ordered else S(ms), tr))
    obs = [_comps_obs(H), _comps_obs(P), tuple(out)]
    # leading flags: the model evaluates the input premise gwf of the theorems (and, for ordered cases, the VF2
    # contract monitor table_ok); both must be true
    return tuple([True] + (([True] + obs) if ordered else obs))


# ---- call interface: what the user passes is handed over unchanged; the MODEL decides defaults and spellings

def _api_kwargs(call):
    from synkit.Synthesis.Reactor.strategy import Strategy
    kw = {}
    sa = call.get("strategy")
    if sa is not None:
        kw["strategy"] = Strategy(sa[1]) if sa[0] == "member" else sa[1]
    for k in ("max_results", "strict_cc_count", "threshold", "pre_filter"):
        if k in call:
            kw[k] = call[k]
    return kw


def _api_call(H, P, case, call):
    from synkit.Graph.Matcher.subgraph_matcher import SubgraphSearchEngine as SSE
    try:
        return SSE.find_subgraph_mappings(H, P, node_attrs=list(case["na"]), edge_attrs=list(case["ea"]), **_api_kwargs(call))
    except NotImplementedError:
        return 2
    except ValueError:
        return 1


def _impl_api(case):
    H, P = G.to_nx(case["host"]), G.to_nx(case["pattern"])
    out = []
    for call in case["calls"]:
        r = _api_call(H, P, case, call)
        out.append(r if isinstance(r, int) else [S([_mp(m) for m in r])])
    return [True, out]


# ---- histories: ONE engine object and ONE pair of graph objects shared by all steps of the case

def _edit_nx(g, e):
    op = e[0]
    if op == "set_node_attr":
        g.nodes[e[1]][e[2]] = e[3]
    elif op == "del_node_attr":
        g.nodes[e[1]].pop(e[2], None)
    elif op == "set_edge_attr":
        g[e[1]][e[2]][e[3]] = e[4]
    elif op == "add_edge":
        g.add_edge(e[1], e[2], **e[3])
    elif op == "remove_edge":
        g.remove_edge(e[1], e[2])
    elif op == "add_node":
        g.add_node(e[1], **e[2])
    elif op == "remove_node":
        g.remove_node(e[1])
    else:
        raise ValueError(op)


def _edit_dict(g, e):
    """The same edit on the JSON form (used at generation time to compute the snapshot every search step sees)."""
    op = e[0]
    nodes, edges = g["nodes"], g["edges"]
    if op == "set_node_attr":
        [a for n, a in nodes if n == e[1]][0][e[2]] = e[3]
    elif op == "del_node_attr":
        [a for n, a in nodes if n == e[1]][0].pop(e[2], None)
    elif op == "set_edge_attr":
        [a for u, v, a in edges if {u, v} == {e[1], e[2]}][0][e[3]] = e[4]
    elif op == "add_edge":          # networkx: an existing edge has its dictionary updated; missing end nodes are created
        ex = [a for u, v, a in edges if {u, v} == {e[1], e[2]}]
        if ex:
            ex[0].update(e[3])
        else:
            for x in (e[1], e[2]):
                if not any(n == x for n, _ in nodes):
                    nodes.append([x, {}])
            edges.append([e[1], e[2], dict(e[3])])
    elif op == "remove_edge":
        g["edges"] = [x for x in edges if {x[0], x[1]} != {e[1], e[2]}]
    elif op == "add_node":          # networkx: an existing node has its dictionary updated
        ex = [a for n, a in nodes if n == e[1]]
        if ex:
            ex[0].update(e[2])
        else:
            nodes.append([e[1], dict(e[2])])
    elif op == "remove_node":
        g["nodes"] = [x for x in nodes if x[0] != e[1]]
        g["edges"] = [x for x in edges if e[1] not in (x[0], x[1])]
    else:
        raise ValueError(op)


def _run_history(case):
    """Run the script on shared objects; returns [(H snapshot graph, P snapshot graph, result list)] per search step."""
    from synkit.Graph.Matcher.subgraph_matcher import SubgraphSearchEngine as SSE
    obj = {"host": G.to_nx(case["host"]), "pattern": G.to_nx(case["pattern"])}
    eng = SSE()
    results, out = [], []
    with record_vf2() as rec:
        return _run_history_steps(case, obj, eng, results, out, rec)


def _run_history_steps(case, obj, eng, results, out, rec):
    from synkit.Graph.Matcher.subgraph_matcher import SubgraphSearchEngine as SSE
    for st in case["steps"]:
        if st["op"] == "edit":
            _edit_nx(obj[st["side"]], st["edit"])
        elif st["op"] == "mutate_result":
            r = results[st["idx"] % len(results)] if results else None
            if r is not None:
                for m in r:
                    for k in list(m):
                        m[k] = -1
                    m[-7] = -7
                r.append({-1: -1})
                r.reverse()
        else:
            Hh, Pp = (obj["pattern"], obj["host"]) if st.get("swap") else (obj["host"], obj["pattern"])
            sub = dict(na=st["na"], ea=st["ea"])
            rec.clear()
            r = _call(Hh, Pp, sub, st["cfg"], st.get("style", "kw"), engine=eng)
            results.append(r)
            tr = rec.trace()
            # components and pre-filter verdict of the LIVE objects at this moment (the implementation's state, networkx
            # edit semantics) - the model carries its own state through the script (model/C06_Hist.v)
            live = [_comps_obs(Hh), _comps_obs(Pp), bool(SSE._quick_pre_filter(Hh, Pp, list(st["na"]), _thr(st["cfg"][2])))]
            out.append((Hh, Pp, [dict(m) for m in r], sub, st["cfg"], tr, live))
    return out


def _impl_history(case):
    steps = [True]      # premise monitor of the history theorems (one entry per key in every dictionary): evaluated by the model
    for Hh, Pp, r, sub, cfg, tr, live in _run_history(case):
        steps.append((True, live[0], live[1], ((live[2], S(_mp(m) for m in r), tr),)))
    return steps


class record_vf2:
    """Context manager: wrap networkx GraphMatcher as seen by subgraph_matcher so that the COMPLETE enumeration of
    every subgraph_monomorphisms_iter call is recorded (keyed by the node lists of the two graphs), together with the
    number of monomorphisms the search actually pulled from the iterator (the trace of the call)."""

    def __enter__(self):
        import synkit.Graph.Matcher.subgraph_matcher as SM
        self.SM = SM
        self.orig = SM.GraphMatcher
        rec = self.rec = []

        class RecGM(self.orig):
            def subgraph_monomorphisms_iter(self_):
                full = [dict(m) for m in super().subgraph_monomorphisms_iter()]
                entry = [list(self_.G1.nodes), list(self_.G2.nodes), full, 0]
                rec.append(entry)

                def pull():
                    for m in full:
                        entry[3] += 1
                        yield m
                return pull()
        SM.GraphMatcher = RecGM
        return self

    def __exit__(self, *a):
        self.SM.GraphMatcher = self.orig

    def table(self):
        seen, out = set(), []
        for hn, pn, full, _ in self.rec:
            k = (frozenset(hn), frozenset(pn))
            if k in seen:
                continue
            seen.add(k)
            out.append([_srt(hn), _srt(pn), [_srt([p, h] for h, p in iso.items()) for iso in full]])
        return out

    def trace(self):
        """The VF2 calls made since the last clear(), in order: [host part, pattern part, items pulled]."""
        return tuple((S(_srt(hn)), S(_srt(pn)), k) for hn, pn, _, k in self.rec)

    def clear(self):
        del self.rec[:]


def attach_vf2(case):
    """Record the VF2 enumerations the implementation can ask for on this (host, pattern, attrs)."""
    H, P = G.to_nx(case["host"]), G.to_nx(case["pattern"])
    with record_vf2() as r:
        for st in ("all", "comp"):
            try:
                _call(H, P, case, [st, None, 10 ** 9, False, False])
            except Exception:       # an implementation that raises is reported by impl()/oracle() on the case, not here
                pass
        case["vf2"] = r.table()
    return case


# ------------------------------------------------------------------ model encoder

def _vkey(v):
    if isinstance(v, (bool, int, float)):
        return ("n", float(v))
    if isinstance(v, str):
        return ("s", v)
    if isinstance(v, (list, tuple)):
        return ("t", tuple(_vkey(x) for x in v))
    raise TypeError("attribute value outside the model domain: %r" % (v,))


class _Codes:
    def __init__(self):
        self.t = {}

    def __call__(self, v):
        if v is None:
            return 0
        k = _vkey(v)
        if k not in self.t:
            self.t[k] = len(self.t) + 1
        return self.t[k]


class _Names:
    """Attribute NAMES -> key codes (any hashable name; the same table for node and edge attributes)."""

    def __init__(self):
        self.t = {"hcount": 1}          # HCOUNT_KEY of model/C06_Hist.v

    def __call__(self, k):
        if not isinstance(k, str):
            raise TypeError("attribute name outside the model domain: %r" % (k,))
        if k not in self.t:
            self.t[k] = len(self.t) + 1
        return self.t[k]


def _coq_dict(a, names, codes):
    return clist(["(%s, %s)" % (cN(names(k)), cN(codes(v))) for k, v in a.items()])


def _coq_rgraph(g, names, codes):
    """The graph as the caller hands it over: every node / edge with its WHOLE attribute dictionary (names and values
    interned; value None = 0), plus the numeric hcount when the key is present (it is compared with >=).  The projection
    onto the selection and the defaults of dict.get are the model's business (model/C06_Attrs.v)."""
    def nl(n, a):
        hc = None
        if "hcount" in a:
            hc = a["hcount"]
            if not isinstance(hc, int) or hc < 0:          # bool is an int in Python (True >= False)
                raise TypeError("hcount outside the model domain")
        return "(%s, %s)" % (_coq_dict(a, names, codes), copt(None if hc is None else cN(int(hc))))

    def el(u, v, a):
        return _coq_dict(a, names, codes)
    return G.coq_lgraph(g, nl, el)


def _coq_cfg(cfg):
    st, mr, thr, strict, pref = cfg
    return "(Cfg %s %s %s %s %s)" % (cN(STRATS[st]), cN(mr or 0), cN(_thr(thr)), cbool(strict), cbool(pref))


def _ids_in_domain(*graphs):
    """Node ids of the model are natural numbers; anything else (strings, negative numbers) is judged by the oracle only."""
    return all(isinstance(n, int) and not isinstance(n, bool) and n >= 0 for g in graphs for n, _ in g["nodes"])


def _coq_pair(host, pattern, na, ea):
    """-> (selection of node names, selection of edge names, host, pattern) as Gallina literals, or None."""
    names, codes = _Names(), _Codes()
    if not _ids_in_domain(host, pattern):
        return None
    try:
        h = _coq_rgraph(host, names, codes)
        p = _coq_rgraph(pattern, names, codes)
        sel = clist([cN(names(k)) for k in na]), clist([cN(names(k)) for k in ea])
    except TypeError:
        return None
    if any(u == v for u, v, _ in host["edges"] + pattern["edges"]):
        return None
    return "%s %s %s %s" % (sel[0], sel[1], h, p)


def _hc_num(v):
    if not isinstance(v, int) or v < 0:
        raise TypeError("hcount outside the model domain")
    return int(v)


def _coq_nlab(a, names, codes):
    return "(%s, %s)" % (_coq_dict(a, names, codes), copt(cN(_hc_num(a["hcount"])) if "hcount" in a else None))


def _coq_edit(e, names, codes):
    op = e[0]
    if op == "set_node_attr":
        return "(ESetNodeAttr %s %s %s %s)" % (cN(e[1]), cN(names(e[2])), cN(codes(e[3])), cN(_hc_num(e[3]) if e[2] == "hcount" else 0))
    if op == "del_node_attr":
        return "(EDelNodeAttr %s %s)" % (cN(e[1]), cN(names(e[2])))
    if op == "set_edge_attr":
        return "(ESetEdgeAttr %s %s %s %s)" % (cN(e[1]), cN(e[2]), cN(names(e[3])), cN(codes(e[4])))
    if op == "add_edge":
        if e[1] == e[2]:
            raise TypeError("self-loop")
        return "(EAddEdge %s %s %s)" % (cN(e[1]), cN(e[2]), _coq_dict(e[3], names, codes))
    if op == "remove_edge":
        return "(ERemoveEdge %s %s)" % (cN(e[1]), cN(e[2]))
    if op == "add_node":
        return "(EAddNode %s %s)" % (cN(e[1]), _coq_nlab(e[2], names, codes))
    if op == "remove_node":
        return "(ERemoveNode %s)" % cN(e[1])
    raise ValueError(op)


def _coq_history(case):
    """The script itself goes to the model (initial objects + edits + searches): model/C06_Hist.v carries the state."""
    names, codes = _Names(), _Codes()
    if any(u == v for u, v, _ in case["host"]["edges"] + case["pattern"]["edges"]) or not _ids_in_domain(case["host"], case["pattern"]):
        return None
    try:
        h = _coq_rgraph(case["host"], names, codes)
        p = _coq_rgraph(case["pattern"], names, codes)
        steps = []
        for st in case["steps"]:
            if st["op"] == "edit":
                steps.append("HEdit %s %s" % (cbool(st["side"] == "host"), _coq_edit(st["edit"], names, codes)))
            elif st["op"] == "mutate_result":
                steps.append("HMutateResult")
            else:
                steps.append("HSearch %s %s %s %s" % (cbool(bool(st.get("swap"))), clist([cN(names(k)) for k in st["na"]]),
                                                      clist([cN(names(k)) for k in st["ea"]]), _coq_cfg(st["cfg"])))
    except TypeError:
        return None
    return "run_history %s %s %s" % (h, p, clist(steps))


def _coq_sarg(sa):
    if sa is None:
        return "SDefault"
    if sa[0] == "member":
        return "(SMember %s)" % cN(dict(STRATS, partial=3)[sa[1]])
    if not all(ord(c) < 128 for c in sa[1]):
        raise TypeError("non-ASCII strategy string")
    return "(SStr %s)" % clist([cN(ord(c)) for c in sa[1]])


def coq_case(case):
    kind = case.get("kind")
    if kind == "history":
        return _coq_history(case)
    hp = _coq_pair(case["host"], case["pattern"], case["na"], case["ea"])
    if hp is None:
        return None
    if kind == "api":
        try:
            calls = clist(["(%s, %s, %s, %s, %s)" % (
                _coq_sarg(c.get("strategy")),
                copt(cN(c["max_results"])) if c.get("max_results") is not None else "None",
                copt(cbool(c["strict_cc_count"])) if "strict_cc_count" in c else "None",
                copt(cN(c["threshold"])) if c.get("threshold") is not None else "None",
                copt(cbool(c["pre_filter"])) if "pre_filter" in c else "None") for c in case["calls"]])
        except TypeError:
            return None
        return "run_sel_api %s %s" % (hp, calls)
    cfgs = clist([_coq_cfg(c) for c in case["cfgs"]])
    if case.get("vf2") is None:
        return "run_tr_set %s %s" % (hp, cfgs)
    tab = clist(["(%s, %s, %s)" % (clist([cN(x) for x in hn]), clist([cN(x) for x in pn]),
                                    clist([clist(["(%s, %s)" % (cN(a), cN(b)) for a, b in m]) for m in ms]))
                 for hn, pn, ms in case["vf2"]])
    return "run_tr_list %s %s %s" % (hp, tab, cfgs)


# ------------------------------------------------------------------ independent property oracle

def _brute(H, P, na, ea, hnodes=None, pnodes=None):
    """All injective maps pattern -> host satisfying the property's three conditions (plain back-tracking straight from the
    statement: pattern nodes are assigned one by one, a partial assignment is dropped as soon as it repeats a host node or
    puts a pattern bond on a missing / differently labelled host bond; same output order as the Cartesian-product form)."""
    hn = list(H.nodes) if hnodes is None else list(hnodes)
    pn = list(P.nodes) if pnodes is None else list(pnodes)
    pos = {p: i for i, p in enumerate(pn)}
    back = [[] for _ in pn]                  # back[i] = [(j < i, pattern edge data)]: bonds to already assigned pattern nodes
    for u, v, d in P.edges(data=True):
        if u in pos and v in pos:
            i, j = max(pos[u], pos[v]), min(pos[u], pos[v])
            back[i].append((j, d))
    cand = []
    for p in pn:
        pd = P.nodes[p]
        cand.append([h for h in hn if all(H.nodes[h].get(a) == pd.get(a) for a in na)
                     and H.nodes[h].get("hcount", 0) >= pd.get("hcount", 0)])
    out, img = [], []

    def go(i):
        if i == len(pn):
            out.append(dict(zip(pn, img)))
            return
        for h in cand[i]:
            if h in img:
                continue
            ok = True
            for j, d in back[i]:
                if not H.has_edge(img[j], h) or any(H[img[j]][h].get(a) != d.get(a) for a in ea):
                    ok = False
                    break
            if ok:
                img.append(h)
                go(i + 1)
                img.pop()
    go(0)
    return out


def _count_upto(H, P, na, ea, cap):
    """Number of label-preserving monomorphisms, counting stops at `cap` (generators use it to bound enumeration sizes)."""
    hn, pn = list(H.nodes), list(P.nodes)
    pos = {p: i for i, p in enumerate(pn)}
    back = [[] for _ in pn]
    for u, v, d in P.edges(data=True):
        i, j = max(pos[u], pos[v]), min(pos[u], pos[v])
        back[i].append((j, d))
    cand = [[h for h in hn if all(H.nodes[h].get(a) == P.nodes[p].get(a) for a in na)
             and H.nodes[h].get("hcount", 0) >= P.nodes[p].get("hcount", 0)] for p in pn]
    img, n = [], [0]

    def go(i):
        if n[0] >= cap:
            return
        if i == len(pn):
            n[0] += 1
            return
        for h in cand[i]:
            if h in img:
                continue
            if all(H.has_edge(img[j], h) and all(H[img[j]][h].get(a) == d.get(a) for a in ea) for j, d in back[i]):
                img.append(h)
                go(i + 1)
                img.pop()
    go(0)
    return n[0]


def _brute_product(H, P, na, ea, hnodes=None, pnodes=None):
    """The same set by filtering the full candidate product (round-1 form; kept as a cross-check of _brute on small inputs)."""
    hn = list(H.nodes) if hnodes is None else list(hnodes)
    pn = list(P.nodes) if pnodes is None else list(pnodes)
    pset = set(pn)
    pedges = [(u, v, d) for u, v, d in P.edges(data=True) if u in pset and v in pset]
    cand = []
    for p in pn:
        pd = P.nodes[p]
        cand.append([h for h in hn if all(H.nodes[h].get(a) == pd.get(a) for a in na)
                     and H.nodes[h].get("hcount", 0) >= pd.get("hcount", 0)])
    out = []
    for img in itertools.product(*cand):
        if len(set(img)) != len(img):
            continue
        m = dict(zip(pn, img))
        ok = True
        for u, v, d in pedges:
            if not H.has_edge(m[u], m[v]) or any(H[m[u]][m[v]].get(a) != d.get(a) for a in ea):
                ok = False
                break
        if ok:
            out.append(m)
    return out


def _components(g):
    """Own union-find (independent of networkx.connected_components)."""
    par = {n: n for n in g.nodes}

    def find(x):
        while par[x] != x:
            par[x] = par[par[x]]
            x = par[x]
        return x
    for u, v in g.edges():
        par[find(u)] = find(v)
    cls = {}
    for n in g.nodes:
        cls.setdefault(find(n), []).append(n)
    return list(cls.values())


def _fs(m):
    return frozenset(m.items())


def _estimate_guard(H, P, na, thr):
    """Documented guard of the cheap pre-filter: candidate product exceeds threshold * 1e4."""
    est = 1
    for p, pd in P.nodes(data=True):
        c = sum(1 for h, hd in H.nodes(data=True) if all(hd.get(a) == pd.get(a) for a in na)
                and hd.get("hcount", 0) >= pd.get("hcount", 0) and H.degree(h) >= P.degree(p))
        if c == 0:
            return False        # "no candidate" exit is sound: then there is no match at all
        est *= c
        if est > thr * 1e4:
            return True
    return False


def _oracle_history(case):
    """Every search step of the script (shared engine, shared graph objects, edits in place, caller-mutated results) must
    return what a fresh evaluation of the same request on fresh copies returns, and that fresh evaluation must itself satisfy
    the property (full oracle on the step's snapshot)."""
    fails = []
    try:
        run = _run_history(case)
    except Exception as e:
        return [dict(clause="raises", detail="history: %s: %s" % (type(e).__name__, e))]
    for i, ((Hh, Pp, r, sub, cfg, _tr, _live), snap) in enumerate(zip(run, case["snaps"])):
        fresh = _call(G.to_nx(snap["host"]), G.to_nx(snap["pattern"]), snap, snap["cfg"])
        if sorted(sorted(m.items()) for m in r) != sorted(sorted(m.items()) for m in fresh):
            fails.append(dict(clause="history-step-differs-from-fresh",
                              detail="step %d cfg=%r na=%r ea=%r: shared objects gave %d maps, fresh evaluation %d"
                                     % (i, cfg, snap["na"], snap["ea"], len(r), len(fresh))))
            continue
        fails += oracle(dict(kind="hist-step", host=snap["host"], pattern=snap["pattern"], na=snap["na"], ea=snap["ea"],
                             cfgs=[snap["cfg"]], vf2=None))
    return fails[:3]


def _oracle_api(case):
    """Spelling and defaults: each call must behave as the canonical keyword call it abbreviates (documented defaults:
    strategy comp, max_results None, strict_cc_count True, threshold None, pre_filter False; strategy strings are
    case-insensitive; 'partial' is NotImplementedError, anything else ValueError)."""
    H, P = G.to_nx(case["host"]), G.to_nx(case["pattern"])
    fails = []
    names = {"all": "all", "comp": "comp", "bt": "bt", "partial": "partial"}
    for call in case["calls"]:
        try:
            got = _api_call(H, P, case, call)
        except Exception as e:
            fails.append(dict(clause="raises", detail="%r: %s: %s" % (call, type(e).__name__, e)))
            continue
        sa = call.get("strategy")
        st = "comp" if sa is None else names.get(sa[1].lower())
        if st is None or st == "partial":
            want = 1 if st is None else 2
            if got != want:
                fails.append(dict(clause="strategy-spelling", detail="%r: expected error code %d, got %r" % (call, want, got if isinstance(got, int) else len(got))))
            continue
        cfg = [st, call.get("max_results"), call.get("threshold"), call.get("strict_cc_count", True), call.get("pre_filter", False)]
        ref = _call(G.to_nx(case["host"]), G.to_nx(case["pattern"]), case, cfg)
        if isinstance(got, int) or sorted(sorted(m.items()) for m in got) != sorted(sorted(m.items()) for m in ref):
            fails.append(dict(clause="call-spelling", detail="%r: differs from the canonical call %r (%s vs %d maps)"
                              % (call, cfg, got if isinstance(got, int) else len(got), len(ref))))
    if not fails:
        cfgs = []
        for call in case["calls"]:
            sa = call.get("strategy")
            st = "comp" if sa is None else names.get(sa[1].lower())
            if st in STRATS:
                c = [st, call.get("max_results"), call.get("threshold"), call.get("strict_cc_count", True), call.get("pre_filter", False)]
                if c not in cfgs:
                    cfgs.append(c)
        fails += oracle(dict(kind="api-canon", host=case["host"], pattern=case["pattern"], na=case["na"], ea=case["ea"], cfgs=cfgs, vf2=None))
    return fails[:3]


def oracle(case):
    if case.get("kind") == "history":
        return _oracle_history(case)
    if case.get("kind") == "api":
        return _oracle_api(case)
    H, P = G.to_nx(case["host"]), G.to_nx(case["pattern"])
    na, ea = list(case["na"]), list(case["ea"])
    fails = []
    styles = dict((i, st) for i, st in enumerate(case.get("styles") or []))

    def bad(clause, detail):
        fails.append(dict(clause=clause, detail=detail))

    known_dev = case.get("deviation") if case.get("kind") == "known-deviation" else None
    snapH, snapP = _snapshot(H), _snapshot(P)
    B = _brute(H, P, na, ea)
    Bset = {_fs(m) for m in B}
    hcs, pcs = _components(H), _components(P)
    hcc, pcc = len(hcs), len(pcs)
    hof = {n: i for i, c in enumerate(hcs) for n in c}
    pof = {n: i for i, c in enumerate(pcs) for n in c}

    def separates(m):
        img = {}
        for p, h in m.items():
            img.setdefault(pof[p], set()).add(hof[h])
        return all(len(s) == 1 for s in img.values()) and len({next(iter(s)) for s in img.values()}) == len(img)
    SEP = [m for m in B if separates(m)]
    SEPset = {_fs(m) for m in SEP}
    unl = {}

    def unlimited(st, strict):
        k = (st, strict)
        if k not in unl:
            unl[k] = _call(H, P, case, [st, None, 10 ** 9, strict, False])
        return unl[k]

    percc = None

    def percc_counts():
        nonlocal percc
        if percc is None:
            percc = []
            for pc in pcs:
                percc.append(sum(len(_brute(H, P, na, ea, hc, pc)) for hc in hcs if len(hc) >= len(pc)))
        return percc

    for ci, cfg in enumerate(case["cfgs"]):
        st, mr, thr, strict, pref = cfg
        T = _thr(thr)
        tag = "cfg=%r style=%s" % (cfg, styles.get(ci, "kw"))
        try:
            R = _call(H, P, case, cfg, styles.get(ci, "kw"))
            unlimited(st, strict)
            unlimited("all", strict)
        except Exception as e:      # the search must return a list for every input of the domain
            bad("raises", "%s: %s: %s" % (tag, type(e).__name__, e))
            break
        if _snapshot(H) != snapH or _snapshot(P) != snapP:
            bad("inputs-unmodified", tag)
            break
        keys = [_fs(m) for m in R]
        if len(set(keys)) != len(keys):
            bad("no-duplicates", "%s: %d results, %d distinct" % (tag, len(keys), len(set(keys))))
        if not set(keys) <= Bset:
            bad("sound", "%s: returned a map that is not a label-preserving monomorphism: %r"
                % (tag, [dict(k) for k in set(keys) - Bset][:2]))
            continue
        # documented strict_cc_count guard: the COMPONENT strategy returns [] when the host has more components than the
        # pattern -- outside the property text, no demand on "comp" there.  It is NOT an excuse for "bt": the fallback clause
        # ("that set if non-empty and the exhaustive set otherwise") is checked in every configuration, against the
        # implementation's own comp / all results and against the brute-force sets.
        guard_region = strict and hcc > pcc and st == "comp"
        # ---- exactness of the unlimited result
        U = unlimited(st, strict)
        Uset = {_fs(m) for m in U}
        if st == "bt":
            Uc, Ua = unlimited("comp", strict), unlimited("all", strict)
            src, sname = (Uc, "its own component-aware result") if Uc else (Ua, "its own exhaustive result (component-aware result is empty)")
            if Uset != {_fs(m) for m in src} or len(U) != len(src):
                bad("fallback-dispatch", "%s: unlimited bt has %d maps but must equal %s with %d maps (comp %d, all %d)"
                    % (tag, len(U), sname, len(src), len(Uc), len(Ua)))
                continue
        if st == "all" or hcc < pcc:
            want, name = Bset, "exhaustive"
        elif st == "comp":
            want, name = SEPset, "component-separating"
        elif strict and hcc > pcc:
            # comp is [] by the documented parameter (or [{}] for an empty pattern): bt must give the exhaustive set
            want, name = Bset, "fallback(exhaustive, strict_cc_count guard)"
        else:
            want, name = (SEPset if SEPset else Bset), "fallback"
        if guard_region:
            # the documented parameter gives [] here ([{}] for the empty pattern); the property text would give the separating
            # set.  Either is accepted, nothing else (theorem C06_comp_strict_refuted; known finding C06:comp-strict-cc-guard).
            if U and (Uset != SEPset or len(U) != len(SEPset)):
                bad("strict-guard", "%s: more host than pattern components with strict_cc_count: expected [] (documented) or the %d "
                    "separating maps (property text), got %d maps" % (tag, len(SEPset), len(U)))
                continue
            if known_dev == "comp-strict-cc-guard" and not U and SEPset:
                fails.append(dict(clause="comp-strict-cc-guard", key="C06:comp-strict-cc-guard",
                                  detail="%s: %d separating monomorphisms exist, the component-aware search returns [] because the host "
                                         "has %d components and the pattern %d (strict_cc_count)" % (tag, len(SEPset), hcc, pcc)))
        if not guard_region:
            if Uset != want or len(U) != len(want):
                bad("exact-" + name, "%s: unlimited result has %d maps (%d distinct), the %s set has %d; missing %r extra %r"
                    % (tag, len(U), len(Uset), name, len(want), [dict(k) for k in want - Uset][:2], [dict(k) for k in Uset - want][:2]))
                continue
        # ---- limits only truncate / empty past the threshold; pre-filter neutral
        def E(Ux):
            k = min(mr, len(Ux)) if mr else len(Ux)
            return [] if k > T else Ux[:k]
        ok = [E(U)]
        if st == "bt" and not U:
            ok.append(E(unlimited("all", strict)))
        if st != "all" and hcc >= pcc and pcc >= 2 and not (strict and hcc > pcc) and any(c > T for c in percc_counts()):
            # documented enumeration guard: a per-component embedding list longer than the threshold empties the
            # component-aware result (bt then falls back to the exhaustive search)
            ok.append([] if st == "comp" else E(unlimited("all", strict)))
        if pref and _estimate_guard(H, P, na, T):
            ok.append([])
        if (known_dev == "per-component-threshold-guard" and st != "all" and R == [] and E(U) != [] and R in ok):
            fails.append(dict(clause="per-component-threshold-guard", key="C06:per-component-threshold-guard",
                              detail="%s: the unlimited result has %d maps (within the threshold %d) but [] is returned: one pattern "
                                     "component has more than %d embeddings (per-component counts %r)" % (tag, len(U), T, T, percc_counts())))
        if R not in ok:
            limited = bool(mr) or thr is not None
            bad("limits-only-truncate" if limited else ("prefilter-neutral" if pref else "deterministic"),
                "%s: got %d maps %r; unlimited list has %d; accepted: %r" % (tag, len(R), R[:3], len(U), [len(x) for x in ok]))
    return fails[:3]


# ------------------------------------------------------------------ evidence helpers

def _is_set(r):
    return isinstance(r, (list, tuple)) and len(r) > 0 and isinstance(r[0], int) and not isinstance(r[0], bool) and r[0] == SETMARK


def _len(r):
    if isinstance(r, dict):
        return len(r["__set__"])
    return len(r) - 1 if _is_set(r) else len(r)


def nontrivial(case, obs):
    kind = case.get("kind")
    if kind == "api":
        return any(isinstance(x, list) and _len(x[0]) > 0 for x in obs[1])
    if kind == "history":
        return any(_len(step[3][0][1]) > 0 for step in obs[1:])
    o = obs[2:] if case.get("vf2") is not None else obs[1:]
    n = _len(o[2][0][1])
    h, p = len(case["host"]["nodes"]), len(case["pattern"]["nodes"])
    return 1 <= n < math.perm(h, p)


def distribution(cases, obss):
    d = dict(host_nodes={}, pattern_nodes={}, host_components={}, pattern_components={}, strategies={}, max_results={},
             threshold={}, strict={}, pre_filter={}, attr_selection={}, ordered_cases=0, results_empty=0, results_nonempty=0,
             limit_binds=0, prefilter_true=0, result_sizes={})

    def inc(t, k):
        t[str(k)] = t.get(str(k), 0) + 1
    d.update(kinds={}, call_styles={}, history_steps={}, history_ops={}, api_calls=0, api_errors=0)
    for c, obs in zip(cases, obss):
        inc(d["kinds"], c.get("kind"))
        for st in c.get("styles") or []:
            inc(d["call_styles"], st)
        if c.get("kind") == "history":
            inc(d.setdefault("history_families", {}), c.get("family", "random"))
            inc(d["history_steps"], len(c["steps"]))
            for st in c["steps"]:
                inc(d["history_ops"], st["op"] if st["op"] != "edit" else "edit:" + st["edit"][0])
            continue
        if c.get("kind") == "api":
            d["api_calls"] += len(c["calls"])
            if isinstance(obs, list) and len(obs) == 2 and isinstance(obs[1], list):
                d["api_errors"] += sum(1 for x in obs[1] if isinstance(x, int))
            continue
        inc(d["host_nodes"], len(c["host"]["nodes"]))
        inc(d["pattern_nodes"], len(c["pattern"]["nodes"]))
        inc(d["attr_selection"], "/".join(c["na"]) + "|" + "/".join(c["ea"]))
        ordered = c.get("vf2") is not None
        d["ordered_cases"] += ordered
        if not isinstance(obs, (list, tuple)) or (obs and obs[0] == "EXC"):
            continue
        o = obs[2:] if ordered else obs[1:]
        try:
            inc(d["host_components"], _len(o[0]))
            inc(d["pattern_components"], _len(o[1]))
            full = None
            for cfg, (q, r, _tr) in zip(c["cfgs"], o[2]):
                inc(d["strategies"], cfg[0])
                inc(d["max_results"], cfg[1])
                inc(d["threshold"], cfg[2])
                inc(d["strict"], cfg[3])
                inc(d["pre_filter"], cfg[4])
                n = _len(r)
                d["results_nonempty" if n else "results_empty"] += 1
                d["prefilter_true"] += bool(q)
                inc(d["result_sizes"], n if n < 10 else "10+")
                if full is None:
                    full = n
                elif (cfg[1] or cfg[2] is not None) and n < full:
                    d["limit_binds"] += 1
        except Exception:
            pass
    return d


def _shrink_history(case):
    """Shorter failing script: cut everything after the first failing search, then drop earlier SEARCH steps (and result
    mutations) one at a time while the oracle still fails.  Edits stay (they define the state)."""
    def fails(c):
        try:
            return bool(_oracle_history(c))
        except Exception:
            return False

    def without(c, si):
        """The case without step number si (a search: its snapshot goes too; a result mutation: nothing else changes)."""
        k = sum(1 for st in c["steps"][:si] if st["op"] == "search")
        snaps = c["snaps"][:k] + c["snaps"][k + 1:] if c["steps"][si]["op"] == "search" else c["snaps"]
        return dict(c, steps=c["steps"][:si] + c["steps"][si + 1:], snaps=snaps)
    if not fails(case):
        return case
    cur = dict(case)
    # shortest failing prefix (ending with a search)
    idx = [i for i, st in enumerate(cur["steps"]) if st["op"] == "search"]
    for n, i in enumerate(idx):
        c = dict(cur, steps=cur["steps"][:i + 1], snaps=cur["snaps"][:n + 1])
        if fails(c):
            cur = c
            break
    changed = True
    while changed:
        changed = False
        for si, st in enumerate(cur["steps"][:-1]):
            if st["op"] in ("search", "mutate_result"):
                c = without(cur, si)
                if any(x["op"] == "search" for x in c["steps"]) and fails(c):
                    cur, changed = c, True
                    break
    cur["name"] = case.get("name", "") + "(shrunk)"
    return cur


def shrink(case, fl):
    """Greedy: drop configurations, then host/pattern nodes and edges, while the oracle still fails."""
    if case.get("kind") == "history":
        return _shrink_history(case)
    if case.get("kind") == "api":
        return case

    def fails(c):
        try:
            return bool(oracle(c))
        except Exception:
            return False

    def variants(c):
        if len(c["cfgs"]) > 1:
            for i in range(len(c["cfgs"])):
                yield dict(c, cfgs=[c["cfgs"][i]])
        for side in ("host", "pattern"):
            g = c[side]
            for n, _ in g["nodes"]:
                yield dict(c, **{side: {"nodes": [x for x in g["nodes"] if x[0] != n],
                                        "edges": [e for e in g["edges"] if n not in (e[0], e[1])]}})
            for i in range(len(g["edges"])):
                yield dict(c, **{side: {"nodes": g["nodes"], "edges": g["edges"][:i] + g["edges"][i + 1:]}})
    cur = dict(case)
    changed = True
    while changed:
        changed = False
        for v in variants(cur):
            if fails(v):
                cur, changed = v, True
                break
    if cur.get("vf2") is not None:
        attach_vf2(cur)
    cur["name"] = case.get("name", "") + "(shrunk)"
    return cur


def neighbours(case, rng):
    if case.get("kind") in ("history", "api"):
        return []
    out = []
    seen = set()
    for cfg in case["cfgs"]:
        # the configuration itself, and the same limits under every strategy / strict flag (dispatch clauses such as the
        # fallback rule only show up for particular strategy x strict x component-layout combinations)
        for st in (cfg[0], "all", "comp", "bt"):
            for strict in (cfg[3], not cfg[3]):
                c2 = [st, cfg[1], cfg[2], strict, cfg[4]]
                if tuple(c2) not in seen:
                    seen.add(tuple(c2))
                    out.append(dict(case, cfgs=[c2], name="neighbour-cfg"))
    for side in ("host", "pattern"):
        g = case[side]
        for n, _ in g["nodes"]:
            c = dict(case, **{side: {"nodes": [x for x in g["nodes"] if x[0] != n],
                                     "edges": [e for e in g["edges"] if n not in (e[0], e[1])]}})
            c["name"] = "neighbour-del"
            if c.get("vf2") is not None:
                attach_vf2(c)
            out.append(c)
    return out


# ------------------------------------------------------------------ generators

SET_CFGS = [["all", None, None, False, False], ["comp", None, None, False, False], ["comp", None, None, True, False],
            ["bt", None, None, False, False], ["bt", None, None, True, False],
            ["all", None, None, False, True], ["comp", None, None, False, True], ["bt", None, None, True, True]]
NA_DEFAULT, EA_DEFAULT = ["element", "charge"], ["order"]


def _present(g, rng, hi_extra=5):
    """A class member under a PRNG-chosen relabelling and insertion order."""
    return G.shuffle_insertion(G.random_relabel(g, rng, 1, len(g["nodes"]) + hi_extra), rng)


def _classes(n):
    return G.iso_classes(n, G.MOL_NODE_LABELS, G.MOL_EDGE_LABELS)


def _disjoint(h, p, rng):
    """Shift pattern ids sometimes so that they overlap / do not overlap with the host ids."""
    if rng.random() < 0.5:
        off = max([n for n, _ in h["nodes"]] + [0]) + rng.randint(0, 3)
        p = G.relabel(p, {n: n + off for n, _ in p["nodes"]})
    return p


def _union(parts):
    nodes, edges, off = [], [], 0
    for g in parts:
        mp = {n: off + i + 1 for i, (n, _) in enumerate(g["nodes"])}
        r = G.relabel(g, mp)
        nodes += r["nodes"]
        edges += r["edges"]
        off += len(g["nodes"])
    return {"nodes": nodes, "edges": edges}


def _rand_mol(rng, n, multi=False):
    kw = dict(elements=("C", "C", "O", "N"), orders=(1, 1, 2, 1.5), charges=(0, 0, 0, 0, 1), hcounts=(0, 0, 1, 2))
    if not multi or n < 2:
        g = G.random_graph(rng, n, p_edge=rng.choice([0.15, 0.3, 0.5]), connected=rng.random() < 0.6, **kw)
    else:
        k = rng.randint(2, min(4, n))
        cuts = sorted(rng.sample(range(1, n), k - 1))
        sizes = [b - a for a, b in zip([0] + cuts, cuts + [n])]
        g = _union([G.random_graph(rng, s, p_edge=rng.choice([0.3, 0.6]), connected=True, **kw) for s in sizes])
    for _, a in g["nodes"]:
        a.pop("atom_map", None)
        if rng.random() < 0.1:
            a.pop("hcount", None)          # absent hcount = 0
    return g


def _planted(rng, host, k, multi):
    """Pattern cut out of the host: k nodes (connected growth, or scattered over components when multi), a random
    subset of the induced edges, hcounts lowered, then relabelled."""
    ids = [n for n, _ in host["nodes"]]
    adjm = {n: set() for n in ids}
    for u, v, _ in host["edges"]:
        adjm[u].add(v)
        adjm[v].add(u)
    k = min(k, len(ids))
    if multi:
        keep = set(rng.sample(ids, k))
    else:
        keep = {rng.choice(ids)}
        while len(keep) < k:
            fr = sorted(set().union(*[adjm[x] for x in keep]) - keep)
            if not fr:
                break
            keep.add(rng.choice(fr))
    nodes = []
    for n, a in host["nodes"]:
        if n in keep:
            a = dict(a)
            if "hcount" in a and rng.random() < 0.5:
                a["hcount"] = rng.randint(0, a["hcount"])
            nodes.append([n, a])
    edges = [[u, v, dict(a)] for u, v, a in host["edges"] if u in keep and v in keep and rng.random() < (0.6 if multi else 0.9)]
    p = {"nodes": nodes, "edges": edges}
    if rng.random() < 0.3 and p["edges"]:
        rng.choice(p["edges"])[2]["order"] = rng.choice([1, 2, 1.5])       # sometimes break the plant
    return _present(p, rng, hi_extra=12)


def _rand_pair(rng, hmax=9, pmax=4):
    multi = rng.random() < 0.5
    host = _rand_mol(rng, rng.randint(2, hmax), multi=multi)
    if rng.random() < 0.65:
        pat = _planted(rng, host, rng.randint(1, pmax), multi and rng.random() < 0.7)
    else:
        pat = _present(_rand_mol(rng, rng.randint(1, pmax), multi=rng.random() < 0.5), rng)
    na = rng.choice([NA_DEFAULT, NA_DEFAULT, ["element"], [], ["element", "charge", "aromatic"], ["element", "hcount"]])
    ea = rng.choice([EA_DEFAULT, EA_DEFAULT, []])
    return G.shuffle_insertion(host, rng), pat, list(na), list(ea)


def _limit_cfgs(rng, n_all):
    """Limit configurations around the actual number of matches n_all."""
    ks = [None, 1, 2, 4, 5] + [k for k in (n_all - 1, n_all, n_all + 1) if k and k > 0]
    ts = [None, 1, 3] + [t for t in (n_all - 1, n_all, n_all + 1) if t > 0]
    cfgs = [["all", None, None, False, False]]
    combos = [(2, 1), (4, 3), (1, 1), (1, None)]
    while len(combos) < 7:
        combos.append((rng.choice(ks), rng.choice(ts)))
    for mr, thr in combos:
        if mr is None and thr is None:
            continue
        for st in ("all", "comp", "bt"):
            cfgs.append([st, mr, thr, rng.random() < 0.3, rng.random() < 0.15])
    return cfgs


def _multi_comp_pattern_pair(rng):
    """Layouts where combination of per-component lists matters: pattern = 2-3 small components, host = 2-4 components."""
    small = _classes(1) + _classes(2) + rng.sample(_classes(3), 12)
    pk = rng.randint(2, 3)
    pat = _union([rng.choice(small[:34]) for _ in range(pk)])
    host = _union([rng.choice(small) for _ in range(rng.randint(pk - (rng.random() < 0.15), 4))])
    if rng.random() < 0.6:      # make the host contain copies of the pattern components
        host = _union([rng.choice(small) for _ in range(rng.randint(0, 2))] +
                      [{"nodes": [[n, dict(a)] for n, a in pat["nodes"]], "edges": [[u, v, dict(a)] for u, v, a in pat["edges"]]}])
    return _present(host, rng), _present(pat, rng, hi_extra=9), list(NA_DEFAULT), list(EA_DEFAULT)


def _ordered_case(rng, kind, h, p, na, ea):
    c = dict(kind=kind, host=h, pattern=p, na=na, ea=ea, cfgs=[], vf2=None)
    attach_vf2(c)
    if sum(len(ms) for _, _, ms in c["vf2"]) > 350:
        return None
    n_all = 0
    for hn, pn, ms in c["vf2"]:
        if len(hn) == len(h["nodes"]) and len(pn) == len(p["nodes"]):
            n_all = len(ms)
    c["cfgs"] = _limit_cfgs(rng, n_all)
    return c


# ---- round 3 populations: call interface, attribute selections, histories, degenerate values, sizes >= 10

ATTR_SELECTIONS = [
    (["charge", "element"], ["order"]),                       # permuted
    (["element", "element", "charge"], ["order", "order"]),   # duplicates
    (["charge"], ["order"]),                                  # reduced, no "element"
    (["aromatic"], []),                                       # only an attribute that most nodes lack
    (["element", "charge", "no_such_attribute"], ["order", "no_such_attribute"]),   # extended by absent names
    ([], ["order"]), (["element"], []), ([], []),
    (["hcount"], ["order"]),                                  # hcount also as an equality attribute
    (["element", "charge", "aromatic", "hcount"], ["order", "standard_order"]),
]


def _gen_attrs(rng, n):
    out = []
    for k in range(n):
        h, p, _, _ = _rand_pair(rng, hmax=7, pmax=3)
        if rng.random() < 0.5:          # give the graphs the rarely used attributes, on some nodes / edges only
            for g in (h, p):
                for _, a in g["nodes"]:
                    if rng.random() < 0.5:
                        a["aromatic"] = rng.random() < 0.5
                for _, _, a in g["edges"]:
                    if rng.random() < 0.5:
                        a["standard_order"] = rng.choice([0, 1, -1, 0.5])
        na, ea = ATTR_SELECTIONS[k % len(ATTR_SELECTIONS)]
        cfgs = [["all", None, None, False, False], ["comp", None, None, False, False], ["bt", None, None, True, False],
                ["comp", None, None, True, True]]
        out.append(dict(kind="attrs", host=h, pattern=p, na=list(na), ea=list(ea), cfgs=cfgs, vf2=None))
    return out


def _gen_styles(rng, n):
    """The same requests spelled in every supported way; several spellings per case on the same objects."""
    out = []
    for k in range(n):
        h, p, na, ea = _rand_pair(rng, hmax=6, pmax=3)
        cfgs, styles = [], []
        for st in STYLES:
            cfg = [rng.choice(["all", "comp", "bt"]), rng.choice([None, None, 1, 2]), rng.choice([None, None, 2, 50]),
                   rng.random() < 0.5, rng.random() < 0.3]
            if st == "defaults":
                cfg = rng.choice([["comp", None, None, True, False], ["comp", 1, None, True, False], ["bt", None, None, True, False],
                                  ["comp", None, None, False, False], ["comp", None, 3, True, True]])
            cfgs.append(cfg)
            styles.append(st)
        out.append(dict(kind="styles", host=h, pattern=p, na=na, ea=ea, cfgs=cfgs, styles=styles, vf2=None))
    return out


def _gen_api(rng, n):
    spell = [None, ["str", "all"], ["str", "ALL"], ["str", "All"], ["str", "comp"], ["str", "COMP"], ["str", "cOmP"], ["str", "bt"],
             ["str", "BT"], ["str", "Bt"], ["member", "all"], ["member", "comp"], ["member", "bt"], ["member", "partial"],
             ["str", "partial"], ["str", "PARTIAL"], ["str", "component"], ["str", ""], ["str", "al"], ["str", "all "], ["str", "b t"],
             ["str", "backtrack"], ["str", "ALLL"]]
    out = []
    for k in range(n):
        h, p, na, ea = _rand_pair(rng, hmax=6, pmax=3)
        calls = []
        for j in range(8):
            c = {}
            sa = spell[(k * 8 + j) % len(spell)]
            if sa is not None:
                c["strategy"] = sa
            if rng.random() < 0.4:
                c["max_results"] = rng.choice([None, 0, 5000])       # order-insensitive values only (compared as multisets)
            if rng.random() < 0.4:
                c["strict_cc_count"] = rng.random() < 0.5
            if rng.random() < 0.4:
                c["threshold"] = rng.choice([None, 0, 1, 3, 5000])
            if rng.random() < 0.3:
                c["pre_filter"] = rng.random() < 0.5
            calls.append(c)
        out.append(dict(kind="api", host=h, pattern=p, na=na, ea=ea, calls=calls, vf2=None))
    return out


FALSY = [0, 0.0, "", None, False, -1, 10 ** 12, "0", 1, True, 1.0]


def _gen_degenerate(rng, n):
    empty = {"nodes": [], "edges": []}
    out = []
    cfgs = [["all", None, None, False, False], ["comp", None, None, True, False], ["comp", None, None, False, False],
            ["bt", None, None, True, False], ["bt", None, None, False, True], ["all", 0, None, False, False],
            ["comp", 1, None, False, False], ["bt", None, 0, False, False], ["all", None, 1, True, True]]

    def add(h, p, na=NA_DEFAULT, ea=EA_DEFAULT):
        out.append(dict(kind="degenerate", host=h, pattern=p, na=list(na), ea=list(ea), cfgs=cfgs, vf2=None))
    one = lambda i, **a: {"nodes": [[i, dict(a)]], "edges": []}
    # empty / single / larger-than-host
    add(empty, empty)
    add(one(1, element="C", charge=0, hcount=0), empty)
    add(empty, one(1, element="C", charge=0, hcount=0))
    add(one(1, element="C", charge=0, hcount=1), one(7, element="C", charge=0, hcount=1))
    add(one(1, element="C", charge=0), one(1, element="C", charge=0, hcount=0))          # hcount absent on one side only
    add(one(1, element="C", charge=0, hcount=0), one(1, element="C"))                    # charge absent on the pattern only
    add(one(0, element="C", charge=0, hcount=0), one(0, element="C", charge=0, hcount=0))    # node id 0
    # absent attribute vs the "natural default" value: None != 1, None != 0, None != "" (no default is substituted)
    cc = lambda o1, **kw: {"nodes": [[1, dict(element="C", charge=0, hcount=0)], [2, dict(element="C", charge=0, hcount=0)]],
                           "edges": [[1, 2, ({} if o1 is None else {"order": o1})]]}
    for ho, po in ((1, None), (None, 1), (None, None), (0, None), ("", None), (1, 1.0), (2, 1)):
        add(cc(ho), cc(po))
    for hv, pv in ((0, None), (None, 0), ("", None), (None, None), (False, 0), (0, "")):
        hn = dict(element="C", hcount=0); pn = dict(element="C", hcount=0)
        if hv is not None or (hv, pv) == (None, None):
            pass
        if hv is not None:
            hn["charge"] = hv
        if pv is not None:
            pn["charge"] = pv
        add({"nodes": [[1, hn]], "edges": []}, {"nodes": [[1, pn]], "edges": []})
    while len(out) < n:
        r = len(out) % 4
        if r == 0:      # pattern larger than host / than every host component
            h = _rand_mol(rng, rng.randint(1, 3), multi=rng.random() < 0.5)
            p = _present(_rand_mol(rng, rng.randint(len(h["nodes"]) + 1, 5), multi=rng.random() < 0.5), rng)
            add(G.shuffle_insertion(h, rng), p)
        elif r == 1:    # falsy / odd attribute VALUES (compared with ==: 0 == 0.0 == False, "" != None, 1 == True)
            h, p, _, _ = _rand_pair(rng, hmax=5, pmax=3)
            for g in (h, p):
                for _, a in g["nodes"]:
                    a["element"] = rng.choice(FALSY)
                    a["charge"] = rng.choice(FALSY)
                    if rng.random() < 0.3:
                        a["hcount"] = rng.choice([0, False, True, 1, 2])
                for _, _, a in g["edges"]:
                    a["order"] = rng.choice(FALSY)
            add(h, p)
        elif r == 2:    # attributes absent on SOME nodes / edges only (absent == None on both sides matches)
            h, p, _, _ = _rand_pair(rng, hmax=6, pmax=3)
            for g in (h, p):
                for _, a in g["nodes"]:
                    for k in ("element", "charge", "hcount"):
                        if rng.random() < 0.35:
                            a.pop(k, None)
                for _, _, a in g["edges"]:
                    if rng.random() < 0.4:
                        a.pop("order", None)
            add(h, p)
        elif r == 3 and len(out) % 8 == 3:    # two- and three-digit hcounts / charges (numeric, not lexicographic, comparison)
            h, p, _, _ = _rand_pair(rng, hmax=5, pmax=3)
            for g in (h, p):
                for _, a in g["nodes"]:
                    a["hcount"] = rng.choice([0, 2, 9, 10, 11, 19, 100])
                    a["charge"] = rng.choice([0, 0, 10, -10, 12])
            add(h, p, na=rng.choice([NA_DEFAULT, ["element"]]))
        else:           # isolated nodes only / node ids 0 and large
            k = rng.randint(1, 5)
            h = {"nodes": [[i * 10 ** rng.randint(0, 6), dict(element=rng.choice("CO"), charge=0, hcount=rng.randint(0, 1))] for i in range(k)], "edges": []}
            p = {"nodes": [[i, dict(element=rng.choice("CO"), charge=0, hcount=0)] for i in range(rng.randint(0, 3))], "edges": []}
            add(h, p)
    return out[:max(n, 20)]


def _gen_big(rng, n):
    """Hosts with 10-16 nodes (two-digit ids), patterns up to 4 nodes; plus a few hosts with >= 100 nodes and tiny patterns."""
    out = []
    cfgs = [["all", None, None, False, False], ["comp", None, None, False, False], ["bt", None, None, True, False],
            ["comp", 3, None, False, False], ["all", None, 4, False, True]]
    while len(out) < n:
        h = _rand_mol(rng, rng.randint(10, 16), multi=rng.random() < 0.5)
        h = G.relabel(h, {nid: 10 + 7 * i for i, (nid, _) in enumerate(h["nodes"])})
        p = _planted(rng, h, rng.randint(2, 4), rng.random() < 0.4) if rng.random() < 0.7 else _present(_rand_mol(rng, rng.randint(1, 4)), rng)
        out.append(dict(kind="big", host=G.shuffle_insertion(h, rng), pattern=p, na=NA_DEFAULT, ea=EA_DEFAULT, cfgs=cfgs, vf2=None))
    for size in (100, 128):
        # a long chain C-C-O-C-C-O... with a side component; pattern C-O / C.O
        nodes = [[i, dict(element="O" if i % 3 == 2 else "C", charge=0, hcount=i % 2)] for i in range(1, size + 1)]
        edges = [[i, i + 1, dict(order=1)] for i in range(1, size - 10)] + [[i, i + 1, dict(order=2)] for i in range(size - 8, size)]
        h = {"nodes": nodes, "edges": edges}
        for p in ({"nodes": [[1, dict(element="C", charge=0, hcount=0)], [2, dict(element="O", charge=0, hcount=0)]], "edges": [[1, 2, dict(order=1)]]},
                  {"nodes": [[500, dict(element="O", charge=0, hcount=1)], [2, dict(element="O", charge=0, hcount=0)]], "edges": []}):
            out.append(dict(kind="big100", host=G.shuffle_insertion(h, rng), pattern=p, na=NA_DEFAULT, ea=EA_DEFAULT,
                            cfgs=[["all", None, None, False, False], ["comp", None, None, False, False], ["bt", 5, None, True, False]], vf2=None))
    return out


def _gen_manycomp(rng, n):
    """Two-digit counts: hosts that are mixtures of 10-14 small molecules (so the candidate lists of the component-aware
    search have >= 10 entries) with 1-3-component patterns cut out of them, and patterns with 10-12 atoms (chains with a
    branch) in hosts of 12-15 atoms."""
    small = _classes(1) + _classes(2) + rng.sample(_classes(3), 10)
    out = []
    cfgs = [["all", None, None, False, False], ["comp", None, None, False, False], ["comp", None, None, True, False],
            ["bt", None, None, True, False], ["comp", None, 40, False, True]]
    while len(out) < n:
        parts = [rng.choice(small) for _ in range(rng.randint(10, 14))]
        host = _present(_union(parts), rng)
        pk = rng.randint(1, 3)
        pat = _present(_union([rng.choice(parts) for _ in range(pk)]), rng, hi_extra=9) if rng.random() < 0.8 else \
            _present(_union([rng.choice(small) for _ in range(pk)]), rng, hi_extra=9)
        # the verified enumerator of the model lists ALL monomorphisms (so does the recording GraphMatcher wrapper): keep the
        # exhaustive result small (a pattern of several lone atoms in a 30-atom mixture has millions of embeddings)
        if _count_upto(G.to_nx(host), G.to_nx(pat), NA_DEFAULT, EA_DEFAULT, 801) > 800:
            continue
        out.append(dict(kind="manycomp", host=host, pattern=pat, na=list(NA_DEFAULT), ea=list(EA_DEFAULT), cfgs=cfgs, vf2=None))
    for k in range(max(2, n // 4)):
        m = rng.randint(12, 15)
        nodes = [[i, dict(element=rng.choice("CCCON"), charge=0, hcount=rng.randint(0, 2))] for i in range(1, m + 1)]
        edges = [[i, i + 1, dict(order=rng.choice([1, 1, 2]))] for i in range(1, m)] + [[3, m, dict(order=1)]]
        h = {"nodes": nodes, "edges": edges}
        keep = set(range(2, 2 + rng.randint(10, 12)))
        p = {"nodes": [[i + 100, dict(a, hcount=0)] for i, a in nodes if i in keep],
             "edges": [[u + 100, v + 100, dict(a)] for u, v, a in edges if u in keep and v in keep]}
        if k % 2:
            p["nodes"][0][1]["element"] = "N"           # sometimes break the plant
        out.append(dict(kind="bigpattern", host=G.shuffle_insertion(h, rng), pattern=G.shuffle_insertion(p, rng), na=list(NA_DEFAULT),
                        ea=list(EA_DEFAULT), cfgs=[["all", None, None, False, False], ["comp", None, None, True, False],
                                                   ["bt", None, None, False, True]], vf2=None))
    return out


def _gen_oddids(rng, n):
    """(a) node ids that are not natural numbers - strings, negative numbers, a mix - are outside the model domain
    (coq_case gives None) and judged by the oracle only: a search that used ids as array indices, sorted them, or compared
    them with numbers would show here; (b) host and pattern passed as ONE object (equal values on both sides)."""
    out = []
    cfgs = [["all", None, None, False, False], ["comp", None, None, False, False], ["comp", None, None, True, True],
            ["bt", None, None, True, False], ["bt", 2, 3, False, False]]
    while len(out) < n:
        h, p, na, ea = _rand_pair(rng, hmax=6, pmax=3)
        mode = len(out) % 4
        if mode == 3:
            out.append(dict(kind="sameobj", host=h, pattern={"nodes": [[u, dict(a)] for u, a in h["nodes"]],
                                                            "edges": [[u, v, dict(a)] for u, v, a in h["edges"]]},
                            na=na, ea=ea, cfgs=[c for c in cfgs if c[1] is None], styles=["sameobj"] * 4, vf2=None))
            continue
        ren = {0: lambda u: "a%d" % u, 1: lambda u: -u - 1, 2: lambda u: ("n%d" % u) if u % 2 else u * 1000}[mode]
        hh = G.relabel(h, {u: ren(u) for u, _ in h["nodes"]})
        pren = {0: lambda u: "p%d" % u, 1: lambda u: -u - 50, 2: lambda u: ("n%d" % u) if u % 2 else u}[mode]
        pp = G.relabel(p, {u: pren(u) for u, _ in p["nodes"]})
        out.append(dict(kind="oddids", host=hh, pattern=pp, na=na, ea=ea, cfgs=[c for c in cfgs if c[1] is None], vf2=None))
    return out


def _rand_edit(rng, g):
    """An in-place edit of the JSON graph `g` (returned as an edit command); half of them keep node and edge counts."""
    ids = [n for n, _ in g["nodes"]]
    r = rng.random()
    if ids and r < 0.30:
        return ["set_node_attr", rng.choice(ids), rng.choice(["element", "charge", "hcount"]), None]   # value filled below
    if g["edges"] and r < 0.45:
        u, v, _ = rng.choice(g["edges"])
        return ["set_edge_attr", u, v, "order", rng.choice([1, 2, 1.5])]
    if ids and r < 0.55:
        return ["del_node_attr", rng.choice(ids), rng.choice(["charge", "hcount"])]
    if g["edges"] and r < 0.68:
        u, v, _ = rng.choice(g["edges"])
        return ["remove_edge", u, v]
    if len(ids) >= 2 and r < 0.82:
        u, v = rng.sample(ids, 2)
        if not any({a, b} == {u, v} for a, b, _ in g["edges"]):
            return ["add_edge", u, v, {"order": rng.choice([1, 2])}]
    if len(ids) >= 2 and r < 0.89:
        return ["remove_node", rng.choice(ids)]
    if g["edges"] and r < 0.92:       # add_edge on an existing bond: the dictionary is updated
        u, v, _ = rng.choice(g["edges"])
        return ["add_edge", v, u, rng.choice([{"order": 2}, {"order": 1, "standard_order": 0}, {}])]
    if ids and r < 0.94:              # add_edge to a node that does not exist yet: it is created without attributes
        return ["add_edge", rng.choice(ids), max(ids) + rng.randint(1, 2), {"order": 1}]
    if ids and r < 0.96:              # add_node on an existing node: the dictionary is updated
        return ["add_node", rng.choice(ids), rng.choice([dict(element="O"), dict(hcount=rng.randint(0, 2)), dict(charge=1, aromatic=True)])]
    return ["add_node", max(ids + [0]) + rng.randint(1, 3), dict(element=rng.choice("CON"), charge=0, hcount=rng.randint(0, 2))]


def _gen_history(rng, n):
    """2-5 searches on ONE engine object and ONE pair of graph objects, interleaved with in-place edits of the graphs,
    changes of the attribute selection / strategy / limits, swapped arguments and caller-side mutation of earlier results."""
    import copy
    sel = [(NA_DEFAULT, EA_DEFAULT), (["element"], []), ([], []), (["element", "charge"], []), (["charge"], ["order"]),
           (["element", "hcount"], ["order"]), (NA_DEFAULT, EA_DEFAULT)]
    out = []
    while len(out) < n:
        h, p, _, _ = _rand_pair(rng, hmax=6, pmax=3)
        cur = {"host": copy.deepcopy(h), "pattern": copy.deepcopy(p)}
        steps, snaps = [], []
        nsearch = rng.randint(2, 5)
        mode = len(out) % 4       # 0: attribute selections vary, 1: edits in place, 2: mutate results + repeat, 3: everything
        while len(snaps) < nsearch:
            r = rng.random()
            if snaps and mode in (1, 3) and r < 0.45:
                side = rng.choice(["host", "pattern"])
                e = _rand_edit(rng, cur[side])
                if e[0] == "set_node_attr":
                    e[3] = {"element": rng.choice(["C", "O", "N"]), "charge": rng.choice([0, 1]), "hcount": rng.randint(0, 2)}[e[2]]
                if e[0] == "remove_node" and len(cur[side]["nodes"]) <= 1:
                    continue
                _edit_dict(cur[side], e)
                steps.append(dict(op="edit", side=side, edit=e))
                continue
            if snaps and mode in (2, 3) and r < 0.6:
                steps.append(dict(op="mutate_result", idx=rng.randint(0, len(snaps) - 1)))
                continue
            na, ea = rng.choice(sel) if mode in (0, 3) else (NA_DEFAULT, EA_DEFAULT)
            cfg = [rng.choice(["all", "comp", "bt"]), None, rng.choice([None, None, None, 2, 0]),
                   rng.random() < 0.5, rng.random() < 0.2]        # no max_results: a history step is compared as a multiset
            swap = mode in (0, 3) and rng.random() < 0.2
            if steps and steps[-1]["op"] in ("mutate_result", "edit") and rng.random() < 0.7:
                # repeat an earlier request verbatim: a memo of results / of per-graph data would answer from stale state
                prev = rng.choice([x for x in steps if x["op"] == "search"])
                na, ea, cfg, swap = prev["na"], prev["ea"], list(prev["cfg"]), prev["swap"]
            steps.append(dict(op="search", cfg=cfg, na=list(na), ea=list(ea), swap=swap, style=rng.choice(["kw", "instance", "enum", "upper"])))
            Hh, Pp = (cur["pattern"], cur["host"]) if swap else (cur["host"], cur["pattern"])
            snaps.append(dict(host=copy.deepcopy(Hh), pattern=copy.deepcopy(Pp), na=list(na), ea=list(ea), cfg=cfg))
        out.append(dict(kind="history", host=h, pattern=p, na=snaps[0]["na"], ea=snaps[0]["ea"], steps=steps, snaps=snaps, vf2=None))
    return out


# ---- round 4: targeted histories.  One family per quantity that a search could memoise per host / pattern OBJECT; the
# in-place edit changes THAT quantity and keeps the cheap validators (node count, edge count, label multiset, degree multiset,
# number of components where possible) unchanged.  Script: searches, edit A->B, the same searches, edit back B->A, the same
# searches again (so both orders of the two states occur on one pair of objects).

def _components_of(g):
    par = {n: n for n, _ in g["nodes"]}

    def find(x):
        while par[x] != x:
            par[x] = par[par[x]]
            x = par[x]
        return x
    for u, v, _ in g["edges"]:
        par[find(u)] = find(v)
    cls = {}
    for n, _ in g["nodes"]:
        cls.setdefault(find(n), []).append(n)
    return list(cls.values())


def _rand_component(rng, ids, elements=("C", "C", "C", "O"), hmax=1):
    """A random tree on the given ids (chain / star / random attachment)."""
    nodes = [[i, dict(element=rng.choice(elements), charge=0, hcount=rng.randint(0, hmax))] for i in ids]
    edges = []
    for k in range(1, len(ids)):
        edges.append([ids[rng.randrange(k) if rng.random() < 0.5 else k - 1], ids[k], dict(order=rng.choice([1, 1, 2]))])
    return nodes, edges


def _rand_forest(rng, sizes, **kw):
    nodes, edges, nxt = [], [], 1
    for s in sizes:
        n, e = _rand_component(rng, list(range(nxt, nxt + s)), **kw)
        nodes += n
        edges += e
        nxt += s
    return {"nodes": nodes, "edges": edges}


def _fragment(rng, g, comp, k, keep_h=False, seeds=()):
    """Connected fragment (<= k nodes, induced edges) of the component `comp` of g; it contains the nodes `seeds` of the
    component (grown towards each other first: a shortest path between consecutive seeds is included)."""
    adjm = {n: set() for n in comp}
    for u, v, _ in g["edges"]:
        if u in adjm and v in adjm:
            adjm[u].add(v)
            adjm[v].add(u)
    seeds = [x for x in seeds if x in adjm]
    keep = {seeds[0] if seeds else rng.choice(comp)}
    for x in seeds[1:]:                       # breadth-first path from the kept set to the next seed
        prev, frontier = {y: None for y in keep}, list(keep)
        while frontier and x not in prev:
            nxt = []
            for y in frontier:
                for z in sorted(adjm[y]):
                    if z not in prev:
                        prev[z] = y
                        nxt.append(z)
            frontier = nxt
        while x is not None and x in prev:
            keep.add(x)
            x = prev[x]
    while len(keep) < k:
        fr = sorted(set().union(*[adjm[x] for x in keep]) - keep)
        if not fr:
            break
        keep.add(rng.choice(fr))
    nodes = [[n, dict(a, hcount=(a.get("hcount", 0) if keep_h else 0))] for n, a in g["nodes"] if n in keep]
    edges = [[u, v, dict(a)] for u, v, a in g["edges"] if u in keep and v in keep]
    return {"nodes": nodes, "edges": edges}


def _multi_pattern(rng, g, ncomp, k=3, keep_h=False, focus=()):
    """Pattern with `ncomp` components, each a fragment of a different component of g (ids shifted by 100); components of g
    that contain a `focus` node (a node the in-place edit touches) come first and their fragments contain the focus nodes."""
    comps = _components_of(g)
    rng.shuffle(comps)
    comps.sort(key=lambda c: not any(x in c for x in focus))
    parts = [_fragment(rng, g, c, rng.randint(1, k), keep_h, [x for x in focus if x in c]) for c in comps[:ncomp]]
    nodes, edges = [], []
    for i, part in enumerate(parts):
        mp = {n: 100 + 10 * i + j for j, (n, _) in enumerate(part["nodes"])}
        r = G.relabel(part, mp)
        nodes += r["nodes"]
        edges += r["edges"]
    return G.shuffle_insertion({"nodes": nodes, "edges": edges}, rng)


def _apply(g, edits):
    import copy
    g = copy.deepcopy(g)
    for e in edits:
        _edit_dict(g, e)
    return g


def _inverse(g, edits):
    """Inverse edit list (g = the graph BEFORE the edits)."""
    import copy
    g = copy.deepcopy(g)
    inv = []
    for e in edits:
        if e[0] == "remove_edge":
            a = [x for x in g["edges"] if {x[0], x[1]} == {e[1], e[2]}][0][2]
            inv.append(["add_edge", e[1], e[2], dict(a)])
        elif e[0] == "add_edge":
            inv.append(["remove_edge", e[1], e[2]])
        elif e[0] == "set_node_attr":
            old = [a for n, a in g["nodes"] if n == e[1]][0].get(e[2])
            inv.append(["set_node_attr", e[1], e[2], old] if old is not None else ["del_node_attr", e[1], e[2]])
        elif e[0] == "set_edge_attr":
            old = [a for u, v, a in g["edges"] if {u, v} == {e[1], e[2]}][0].get(e[3])
            inv.append(["set_edge_attr", e[1], e[2], e[3], old])
        else:
            raise ValueError(e[0])
        _edit_dict(g, e)
    return inv[::-1]


HIST_FAMILIES = ("cc_move_across", "cc_split_merge", "label_swap", "hcount_swap", "order_swap", "degree_move",
                 "pattern_cc_move", "pattern_label_swap")


def _family_instance(rng, fam):
    """-> (host, pattern, side, edits, wants_prefilter) or None.  The edits keep node and edge counts (and the label / order
    multisets); the pattern (host for the pattern-side families) is cut out of one of the two states around the edited
    nodes, so that the edit decides whether / how it matches."""
    def degrees(g):
        deg = {n: 0 for n, _ in g["nodes"]}
        for u, v, _ in g["edges"]:
            deg[u] += 1
            deg[v] += 1
        return deg

    def either(g, edits):
        return g if rng.random() < 0.5 else _apply(g, edits)

    if fam in ("cc_move_across", "cc_split_merge", "pattern_cc_move"):
        pat_side = fam == "pattern_cc_move"
        sizes = [rng.randint(2, 3 if pat_side else 4)] + [rng.randint(1, 2 if pat_side else 3)
                                                          for _ in range(rng.randint(1, 2) + (fam == "cc_split_merge"))]
        g = _rand_forest(rng, sizes, elements=("C", "C", "C", "O") if rng.random() < 0.6 else ("C",))
        comps = _components_of(g)
        a_comp = [c for c in comps if len(c) >= 2][0]
        others = [c for c in comps if c is not a_comp]
        u, v, attrs = rng.choice([e for e in g["edges"] if e[0] in a_comp])
        if fam == "cc_split_merge":
            # a component splits while two other components merge (component COUNT unchanged as well)
            b, c = rng.sample(others, 2)
            w1, w2 = rng.choice(b), rng.choice(c)
            edits = [["remove_edge", u, v], ["add_edge", w1, w2, dict(attrs)]]
            focus = [u, v, w1, w2]
        else:
            # the bond u-v is moved to v-w, w in another component
            w = rng.choice(rng.choice(others))
            edits = [["remove_edge", u, v], ["add_edge", v, w, dict(attrs)]]
            focus = [v, w, u]
        if pat_side:
            pat = G.relabel(g, {n: n + 100 for n, _ in g["nodes"]})
            pedits = [[e[0], e[1] + 100, e[2] + 100] + e[3:] for e in edits]
            # host: a copy of ONE of the two states of the pattern graph (+ sometimes a further component), hcounts raised
            host = _union([either(g, edits)] + ([_rand_forest(rng, [rng.randint(1, 3)])] if rng.random() < 0.5 else []))
            for _, x in host["nodes"]:
                x["hcount"] = 2
            return host, pat, "pattern", pedits, False
        state = either(g, edits)
        ncomp = rng.randint(2, min(3, len(_components_of(state))))
        return g, _multi_pattern(rng, state, ncomp, focus=focus if rng.random() < 0.7 else ()), "host", edits, False
    if fam in ("label_swap", "hcount_swap", "pattern_label_swap"):
        key = "hcount" if fam == "hcount_swap" else "element"
        pat_side = fam == "pattern_label_swap"
        g = _rand_forest(rng, [rng.randint(2, 3 if pat_side else 4) for _ in range(rng.randint(1, 3))],
                         elements=("C", "C", "C", "O", "N") if rng.random() < 0.6 else ("C", "O", "N"), hmax=2)
        cof = {n: i for i, c in enumerate(_components_of(g)) for n in c}
        pairs = [(a, b) for a in g["nodes"] for b in g["nodes"] if a[0] < b[0] and a[1].get(key) != b[1].get(key)]
        across = [(a, b) for a, b in pairs if cof[a[0]] != cof[b[0]]]
        if across and rng.random() < 0.7:      # across components: the per-component label multisets change as well
            pairs = across
        if not pairs:
            return None
        (a, aa), (b, ba) = rng.choice(pairs)
        edits = [["set_node_attr", a, key, ba.get(key)], ["set_node_attr", b, key, aa.get(key)]]
        if pat_side:
            pat = G.relabel(g, {n: n + 100 for n, _ in g["nodes"]})
            for _, x in pat["nodes"]:
                x["hcount"] = 0
            pedits = [[e[0], e[1] + 100] + e[2:] for e in edits]
            host = _union([either(g, edits), _rand_forest(rng, [rng.randint(1, 3)], elements=("C", "O", "N"), hmax=2)])
            for _, x in host["nodes"]:      # hcounts raised so that the plant fits
                x["hcount"] = 2
            return host, pat, "pattern", pedits, False
        state = either(g, edits)
        return (g, _multi_pattern(rng, state, rng.randint(1, len(_components_of(state))), keep_h=(key == "hcount"), focus=[a, b]),
                "host", edits, False)
    if fam == "order_swap":
        g = _rand_forest(rng, [rng.randint(3, 5)] + [rng.randint(1, 3) for _ in range(rng.randint(0, 1))])
        pairs = [(e, f) for e in g["edges"] for f in g["edges"] if (e[0], e[1]) < (f[0], f[1]) and e[2]["order"] != f[2]["order"]]
        if not pairs:
            return None
        e, f = rng.choice(pairs)
        edits = [["set_edge_attr", e[0], e[1], "order", f[2]["order"]], ["set_edge_attr", f[0], f[1], "order", e[2]["order"]]]
        state = either(g, edits)
        x = rng.choice([e, f])
        return g, _multi_pattern(rng, state, rng.randint(1, len(_components_of(state))), focus=[x[0], x[1]]), "host", edits, False
    if fam == "degree_move":
        # a leaf is re-attached elsewhere inside its component: counts, labels, components unchanged, degrees move.  The
        # pattern is the new hub with ALL its neighbours in the state where its degree is larger (degree pruning of the
        # pre-filter: the host has a candidate of that degree in one state only)
        g = _rand_forest(rng, [rng.randint(4, 6)] + [rng.randint(1, 2) for _ in range(rng.randint(0, 1))])
        deg = degrees(g)
        comp = _components_of(g)[0]
        cands = [(u, v) for u, v, _ in g["edges"] if u in comp and (deg[u] == 1 or deg[v] == 1)]
        if not cands:
            return None
        u, v = rng.choice(cands)
        leaf, hub = (u, v) if deg[u] == 1 else (v, u)
        targets = [w for w in comp if w not in (leaf, hub)]
        if not targets:
            return None
        tgt = rng.choice(targets)
        attrs = [a for x, y, a in g["edges"] if {x, y} == {u, v}][0]
        edits = [["remove_edge", u, v], ["add_edge", leaf, tgt, dict(attrs)]]
        if rng.random() < 0.7:
            state, centre = (g, hub) if rng.random() < 0.3 else (_apply(g, edits), tgt)
            star = [centre] + sorted({y if x == centre else x for x, y, _ in state["edges"] if centre in (x, y)})
            pat = _multi_pattern(rng, state, 1, k=len(star), focus=star)
        else:
            state = either(g, edits)
            pat = _multi_pattern(rng, state, rng.randint(1, len(_components_of(state))), k=4, focus=[leaf])
        return g, pat, "host", edits, True
    raise ValueError(fam)


def _gen_history_targeted(rng, n):
    """Script: the searches, edit A->B, the same searches, edit back B->A, the same searches (both orders of the two states on
    ONE pair of objects and one engine); every search step carries the JSON snapshot it should see."""
    import copy
    cfg_pool = [["comp", None, None, False, False], ["bt", None, None, False, False], ["comp", None, None, True, False],
                ["bt", None, None, True, False], ["comp", None, None, False, True], ["bt", None, None, True, True],
                ["all", None, None, False, True], ["all", None, None, False, False]]
    out = []
    k = 0
    while len(out) < n:
        fam = HIST_FAMILIES[k % len(HIST_FAMILIES)]
        k += 1
        inst = _family_instance(rng, fam)
        if inst is None:
            continue
        h, p, side, edits, want_pref = inst
        h = G.shuffle_insertion(h, rng)
        base = {"host": h, "pattern": p}
        inv = _inverse(base[side], edits)
        cfgs = [cfg_pool[0 if rng.random() < 0.5 else 1]] + rng.sample(cfg_pool[2:], rng.randint(1, 2))
        if want_pref and not any(c[4] for c in cfgs):
            cfgs.append(rng.choice([c for c in cfg_pool if c[4]]))
        rng.shuffle(cfgs)
        cur = {"host": copy.deepcopy(h), "pattern": copy.deepcopy(p)}
        steps, snaps = [], []

        def searches():
            for cfg in cfgs:
                steps.append(dict(op="search", cfg=list(cfg), na=list(NA_DEFAULT), ea=list(EA_DEFAULT), swap=False, style="kw"))
                snaps.append(dict(host=copy.deepcopy(cur["host"]), pattern=copy.deepcopy(cur["pattern"]), na=list(NA_DEFAULT),
                                  ea=list(EA_DEFAULT), cfg=list(cfg)))
        searches()
        for phase in (edits, inv):
            for e in phase:
                _edit_dict(cur[side], e)
                steps.append(dict(op="edit", side=side, edit=e))
            searches()
        out.append(dict(kind="history", family=fam, host=h, pattern=p, na=list(NA_DEFAULT), ea=list(EA_DEFAULT), steps=steps,
                        snaps=snaps, vf2=None))
    return out


def gen_cases(tier, rng):
    cases = []
    q = tier == "quick"
    cases += _gen_api(rng, 40 if q else 400)
    cases += _gen_attrs(rng, 150 if q else 1500)
    cases += _gen_history(rng, 200 if q else 2000)
    # these carry max_results settings: the result is a prefix in VF2 order, so they are order-sensitive cases (VF2 order recorded)
    cases += [attach_vf2(c) for c in _gen_styles(rng, 40 if q else 400) + _gen_degenerate(rng, 160 if q else 1500)
              + _gen_big(rng, 60 if q else 300)]
    cls = {n: _classes(n) for n in (1, 2, 3, 4)}
    # ---- exhaustive iso-class scope, order-insensitive
    hosts = cls[1] + cls[2] + cls[3] + (cls[4] if tier == "thorough" else [])
    pats = cls[1] + cls[2]
    for h in hosts:
        hshared = _present(h, rng) if not q else None     # thorough: one presentation per host class (memory: 329 426 cases)
        for p in pats:
            hh = hshared or _present(h, rng)
            cases.append(dict(kind="exh", host=hh, pattern=_disjoint(hh, _present(p, rng), rng), na=NA_DEFAULT, ea=EA_DEFAULT,
                              cfgs=SET_CFGS, vf2=None))
    # ---- sampled hosts <= 4 x patterns <= 3
    big_h = cls[1] + cls[2] + cls[3] + cls[4]
    big_p = cls[1] + cls[2] + cls[3]
    n_samp = 1500 if tier == "quick" else 30000   # measured: lowest mutant-detection rate per case of all populations
    for _ in range(n_samp):
        # bias towards 4-node hosts / 3-node patterns (the part not covered exhaustively)
        h = rng.choice(cls[4]) if rng.random() < 0.8 else rng.choice(big_h)
        p = rng.choice(cls[3]) if rng.random() < 0.7 else rng.choice(big_p)
        hh = _present(h, rng)
        cases.append(dict(kind="samp43", host=hh, pattern=_disjoint(hh, _present(p, rng), rng), na=NA_DEFAULT, ea=EA_DEFAULT,
                          cfgs=SET_CFGS, vf2=None))
    # ---- random molecule-like graphs, order-insensitive
    for _ in range(1200 if tier == "quick" else 6000):
        h, p, na, ea = _rand_pair(rng)
        cases.append(dict(kind="mol-set", host=h, pattern=p, na=na, ea=ea, cfgs=SET_CFGS, vf2=None))
    # ---- limits (order-sensitive, VF2 order recorded)
    n_lim = 1200 if tier == "quick" else 4000
    k = 0
    while k < n_lim:
        if k % 2 == 0:
            h, p, na, ea = _multi_comp_pattern_pair(rng)
            kind = "limits-multicomp"
        else:
            h, p, na, ea = _rand_pair(rng, hmax=7, pmax=4)
            kind = "limits-mol"
        c = _ordered_case(rng, kind, h, p, na, ea)
        if c is not None:
            cases.append(c)
            k += 1
    # ---- round 5: two-digit component counts / pattern sizes
    cases += _gen_manycomp(rng, 16 if q else 100)
    # ---- round 4/5: targeted histories (per-object memo classes; generated last so that the populations above are unchanged)
    cases += _gen_history_targeted(rng, 120 if q else 1600)
    # ---- round 5: ids outside the model domain (oracle only), host and pattern as one object
    cases += _gen_oddids(rng, 24 if q else 400)
    return _spread(cases, ("manycomp", "bigpattern", "big100"))


def _spread(cases, heavy_kinds):
    """The few cases that cost seconds in the model (hundreds of monomorphisms, enumerated once more for the trace) are
    distributed evenly over the list, so that no 250-case shard collects them all (one shard of 200 manycomp cases cost 14
    CPU-minutes in the thorough run of 2026-09-29 and held the whole run back)."""
    heavy = [c for c in cases if c.get("kind") in heavy_kinds]
    light = [c for c in cases if c.get("kind") not in heavy_kinds]
    if not heavy or not light:
        return cases
    step = len(light) / float(len(heavy))
    out, k = [], 0
    for i, c in enumerate(light):
        while k < len(heavy) and i >= (k + 0.5) * step:
            out.append(heavy[k])
            k += 1
        out.append(c)
    out += heavy[k:]
    return out
