"""C19 — complexes, linkage classes, weak reversibility and deficiency (synkit/CRN/Props/deficiency.py).

case = network case of gen/c17_nets.py (+ optional "delta"/"wr" labels of textbook networks).

Observable:  [0, complexes (in creation order, vectors over the sorted species), complex-graph arcs (set),
              linkage classes (in networkx discovery order = by smallest complex index; each a set),
              [n_species, n_reactions, n_complexes, n_linkage, rank, deficiency, weakly_reversible],
              linkage deficiencies (same order as the classes), certificate-checker flag (True on the implementation side),
              regular, check_deficiency_zero, check_deficiency_one, deficiency-one hypotheses_satisfied]            or [2] on ValueError (no reaction).
Ranks are numpy float ranks on the implementation side and certificate-checked exact ranks on the model side.
"""
from ..coqrun import cZ, cnat, clist
from ..gen import c17_exact as X
from ..gen import c17_nets as G
from .C17 import build, view_of, cnet, _cstr, crcert, ref_matrix
from ..tok import S as SET

PID = "C19"
COQ_HEADER = ("From Coq Require Import List NArith ZArith.\nImport ListNotations.\n"
              "From SK Require Import lib.Tok lib.C17_Farkas model.C17_Model model.C19_Model.\n")
SHARD = 250
IMPL_TIMEOUT = 2400
COQ_TIMEOUT = 1500
RULE = ("reaction networks (explicit ids/rules, optional isolated species, hypergraph or bipartite view); non-trivial = at least two "
        "distinct complexes; distinct = distinct case content")
EXHAUSTIVE = {"quick": True, "thorough": True}
EXPLANATION = ("quick: ALL sets of 1..2 reactions over the 90 reactions between the 10 complexes of molecularity <= 2 on 3 species (4095); "
               "thorough: ALL sets of 1..3 such reactions (121 575) and ALL sets of 1..2 reactions with coefficients in {0,1,2} over 3 species "
               "up to species permutation (~4.5e4).  Plus seeded random networks <= 6-7 species x 6 reactions, mass-balanced random networks, "
               "textbook networks with known deficiency (A+B<->C: 0, Edelstein: 1, futile cycles: 1 and 2, Horn-Jackson: 2, ...) and the regression corpus.  "
               "Theorems: complexes = distinct reactant/product vectors (NoDup, complete), linkage classes = connected components, weak "
               "reversibility <-> every class strongly connected, deficiency formula with the certified rank; delta >= 0 and sum of class "
               "deficiencies <= delta are checked per input with exact ranks.")
TRUSTED_BASE = [
    "Coq 8.16.1 kernel + vm_compute (no native_compute)",
    "MathComp 1.15 (\\rank over rat) + mathcomp.zify for lib/RankBridge.v, axiom-free",
    "hand-written model coq/model/C19_Model.v (on top of model/C17_Model.v) tied to deficiency.py by the per-run correspondence",
    "harness encoders harness/props/C19.py and the tok digest",
    "numpy matrix_rank and networkx connected_components / is_strongly_connected are NOT trusted: their results are compared per input with the model (lib/Reach.v closure, certified ranks)",
    "the rank-certificate finder (harness/gen/c17_exact.py) is untrusted; only the Coq checker is",
]
ASSUMPTIONS = ["species labels, rule labels and edge ids are printable ASCII strings",
               "network given as CRNHyperGraph (or its directed hypergraph_to_bipartite export); edge ids unique; sides are dicts with positive integer counts"]
TESTED_NOT_PROVED = [
    "deficiency >= 0 for every generated network (exact ranks; CRNT theorem, not proved in Coq)",
    "sum of linkage-class deficiencies <= network deficiency for every generated network (exact ranks; not proved in Coq)",
    "numpy float ranks equal the certified exact ranks (per input)",
    "textbook deficiencies equal the literature values (per network)",
]
LEVEL_TEXT = ("Machine-checked proof (Coq) about an executable model of DeficiencyAnalyzer: the complex list is duplicate free and consists "
              "exactly of the reactant and product vectors of the reactions, the linkage classes are the connected components of the complex "
              "graph, the weak-reversibility flag is true exactly when every class is strongly connected, and the reported deficiency is "
              "n - l - rank with the rank justified by a certificate checked against MathComp's rank. The model is compared with the Python "
              "code (complex list, arcs, classes, all integers and flags) on every run over an exhaustive small scope, random and textbook "
              "networks. The CRNT inequalities (deficiency >= 0, class deficiencies sum <= deficiency) are checked per input with exact ranks.")
LEVEL_NOTE = ("Universal: model theorems and checker soundness. Per input: float ranks vs certified ranks; the two CRNT inequalities. Trusted: "
              "Coq kernel, MathComp, model + encoders. networkx/numpy results are compared, not trusted.")


# ------------------------------------------------------------------ implementation adapter

def _analyze(Xv):
    import warnings
    warnings.filterwarnings("ignore")
    from synkit.CRN.Props.deficiency import DeficiencyAnalyzer
    return DeficiencyAnalyzer(Xv).compute_crn_deficiency()


def impl(case):
    import networkx as nx
    H = build(case)
    Xv = view_of(case, H)
    try:
        a = _analyze(Xv)
    except ValueError:
        return [2]
    su = a.summary
    d = a.as_dict()
    CG = a._complex_graph
    classes = [sorted(c) for c in nx.connected_components(CG.to_undirected())]
    one = a.deficiency_one_structural
    assert d["deficiency"] == su.deficiency and one["deficiency"] == su.deficiency
    assert list(one["linkage_deficiencies"]) == list(a.linkage_deficiencies) == list(d["linkage_deficiencies"])
    return [0,
            [list(map(int, c)) for c in a._complexes],
            SET([[int(u), int(v)] for u, v in CG.edges()]),
            [SET(c) for c in classes],
            [su.n_species, su.n_reactions, su.n_complexes, su.n_linkage_classes, su.stoich_rank, su.deficiency, bool(su.weakly_reversible)],
            [int(x) for x in a.linkage_deficiencies],
            True,
            bool(one["regular"]), bool(a.check_deficiency_zero()), bool(a.check_deficiency_one()), bool(one["hypotheses_satisfied"])]


# ------------------------------------------------------------------ reference structures from the case alone

def ref_complexes(case):
    """Complex list / arcs / classes in the order the (repaired) code creates them; used to FIND rank certificates and by
    the oracle as an independent reference (written from the definitions, not from deficiency.py)."""
    species = sorted({s for _, _, l, r in case["rxns"] for s, _ in l + r} | set(case.get("iso", [])))
    rx = sorted(case["rxns"], key=lambda t: t[0])               # reaction nodes are created in sorted-id order
    cx, arcs = [], []
    for _, _, l, r in rx:
        y = tuple(sum(c for x, c in l if x == s) for s in species)
        yp = tuple(sum(c for x, c in r if x == s) for s in species)
        for v in (y, yp):
            if v not in cx:
                cx.append(v)
        a = (cx.index(y), cx.index(yp))
        if a not in arcs:
            arcs.append(a)
    # linkage classes by union-find, ordered by smallest member
    par = list(range(len(cx)))

    def find(x):
        while par[x] != x:
            x = par[x]
        return x
    for u, v in arcs:
        ru, rv = find(u), find(v)
        if ru != rv:
            par[max(ru, rv)] = min(ru, rv)
    groups = {}
    for k in range(len(cx)):
        groups.setdefault(find(k), []).append(k)
    classes = [groups[k] for k in sorted(groups)]
    return species, cx, arcs, classes


def class_diffs(cx, arcs, cl):
    s = set(cl)
    out = []
    for u, v in arcs:
        if u in s and v in s:
            d = [b - a for a, b in zip(cx[u], cx[v])]
            if any(d):
                out.append(d)
    return out


def _reach(adj, u):
    seen = {u}
    st = [u]
    while st:
        x = st.pop()
        for y in adj.get(x, ()):
            if y not in seen:
                seen.add(y)
                st.append(y)
    return seen


def coq_case(case):
    species, rx, S = ref_matrix(case)
    m, n = len(species), len(rx)
    if n == 0:
        return "run19 %s %s %s []" % (cnet(case), clist([_cstr(z) for z in case.get("iso", [])]),
                                      crcert(dict(r=0, A=[], B=[], A2=[], B2=[], d=1)))
    rc = X.rank_cert(S, m, n)
    _, cx, arcs, classes = ref_complexes(case)
    ccs = []
    for cl in classes:
        D = class_diffs(cx, arcs, cl)
        ccs.append(crcert(X.rank_cert(D, len(D), m)))
    return "run19 %s %s %s %s" % (cnet(case), clist([_cstr(z) for z in case.get("iso", [])]), crcert(rc), clist(ccs))


# ------------------------------------------------------------------ property oracle

def oracle(case):
    H = build(case)
    Xv = view_of(case, H)
    fails = []

    def bad(clause, detail):
        fails.append(dict(clause=clause, detail=detail))
    try:
        a = _analyze(Xv)
    except ValueError as e:
        if H.edges:
            bad("complexes", "analysis raised ValueError on a network with reactions: %s" % e)
        return fails
    su = a.summary
    species = sorted(H.species)
    edges = list(H.edges.values())
    vec = lambda side: tuple(int(side.get(s, 0)) for s in species)
    # --- complexes = distinct reactant and product multisets
    want = set()
    pairs = []
    for e in edges:
        y, yp = vec(e.reactants), vec(e.products)
        want |= {y, yp}
        pairs.append((y, yp))
    got = [tuple(int(x) for x in c) for c in a._complexes]
    if len(set(got)) != len(got) or set(got) != want or su.n_complexes != len(want):
        bad("complexes", "complexes %r (n_complexes=%d), expected the %d distinct reactant/product vectors %r over %r"
            % (got, su.n_complexes, len(want), sorted(want), species))
        return fails
    # --- linkage classes = connected components of the complex graph (reference: own union/closure code)
    und, fwd = {}, {}
    for y, yp in pairs:
        und.setdefault(y, set()).add(yp)
        und.setdefault(yp, set()).add(y)
        fwd.setdefault(y, set()).add(yp)
    classes = []
    seen = set()
    for c in sorted(want):
        if c not in seen:
            comp = _reach(und, c)
            seen |= comp
            classes.append(comp)
    if su.n_linkage_classes != len(classes):
        bad("linkage", "n_linkage_classes=%d, the complex graph has %d connected components" % (su.n_linkage_classes, len(classes)))
    import networkx as nx
    got_classes = {frozenset(got[k] for k in comp) for comp in nx.connected_components(a._complex_graph.to_undirected())}
    if got_classes != {frozenset(c) for c in classes}:
        bad("linkage", "components of the stored complex graph differ from the reference classes")
    # --- weak reversibility <-> every class strongly connected
    wr = all(all(comp <= _reach(fwd, u) for u in comp) for comp in classes)
    if bool(su.weakly_reversible) != wr:
        bad("weakly-reversible", "weakly_reversible=%r, reference %r" % (su.weakly_reversible, wr))
    # --- deficiency = n - l - exact rank, never negative
    Smat = [[int(e.products.get(s, 0)) - int(e.reactants.get(s, 0)) for e in edges] for s in species]
    rk = X.rank_frac(Smat)
    delta = len(want) - len(classes) - rk
    if su.stoich_rank != rk:
        bad("rank", "stoich_rank=%d exact=%d" % (su.stoich_rank, rk))
    if su.deficiency != delta or a.as_dict().get("deficiency") != delta:
        bad("deficiency", "deficiency=%r, expected %d - %d - %d = %d" % (su.deficiency, len(want), len(classes), rk, delta))
    if su.deficiency < 0:
        bad("deficiency-nonneg", "negative deficiency %d" % su.deficiency)
    if (su.n_species, su.n_reactions) != (len(species), len(edges)):
        bad("counts", "n_species/n_reactions %r, expected %r" % ((su.n_species, su.n_reactions), (len(species), len(edges))))
    # --- linkage-class deficiencies
    ref_ld = []
    for comp in classes:
        D = [[b - x for x, b in zip(y, yp)] for (y, yp) in set(pairs) if y in comp and yp in comp and y != yp]
        ref_ld.append(len(comp) - 1 - X.rank_frac(D))
    ld = [int(x) for x in (a.linkage_deficiencies or [])]
    if sorted(ld) != sorted(ref_ld):
        bad("linkage-deficiencies", "linkage deficiencies %r, reference %r" % (ld, ref_ld))
    if sum(ld) > su.deficiency:
        bad("linkage-sum", "sum of linkage deficiencies %d > deficiency %d" % (sum(ld), su.deficiency))
    # --- textbook values
    if "delta" in case and su.deficiency != case["delta"]:
        bad("textbook-deficiency", "deficiency %d, literature value %d" % (su.deficiency, case["delta"]))
    if "wr" in case and bool(su.weakly_reversible) != case["wr"]:
        bad("textbook-weakly-reversible", "weakly_reversible %r, literature value %r" % (su.weakly_reversible, case["wr"]))
    return fails[:4]


def shrink(case, fl):
    cur = dict(case)
    cur.pop("delta", None)
    cur.pop("wr", None)
    clause = fl.get("clause")
    if clause.startswith("textbook"):
        return case

    def still(c):
        try:
            return any(f.get("clause") == clause for f in oracle(c))
        except Exception:
            return False
    changed = True
    while changed:
        changed = False
        for k in range(len(cur["rxns"])):
            cand = dict(cur, rxns=cur["rxns"][:k] + cur["rxns"][k + 1:])
            if cand["rxns"] and still(cand):
                cur, changed = cand, True
                break
        if not changed and cur.get("view", "hyper") != "hyper":
            cand = dict(cur, view="hyper")
            if still(cand):
                cur, changed = cand, True
    cur["name"] = case.get("name", "") + "(shrunk)"
    return cur


def neighbours(case, rng):
    out = []
    for k in range(len(case["rxns"])):
        out.append(dict(case, rxns=case["rxns"][:k] + case["rxns"][k + 1:], name="drop-rxn"))
    return [c for c in out if c["rxns"]]


def nontrivial(case, obs):
    return isinstance(obs, list) and len(obs) > 4 and len(obs[1]) >= 2


def distribution(cases, obss):
    nc, nl, dl, wr, reg = {}, {}, {}, {}, {}
    err = 0
    ldpos = 0
    for c, o in zip(cases, obss):
        if not (isinstance(o, list) and len(o) == 11):
            err += 1
            continue
        s = o[4]
        nc[str(s[2])] = nc.get(str(s[2]), 0) + 1
        nl[str(s[3])] = nl.get(str(s[3]), 0) + 1
        dl[str(s[5])] = dl.get(str(s[5]), 0) + 1
        wr[str(s[6])] = wr.get(str(s[6]), 0) + 1
        reg[str(o[7])] = reg.get(str(o[7]), 0) + 1
        if any(x > 0 for x in o[5]):
            ldpos += 1
    return dict(n_complexes=nc, n_linkage_classes=nl, deficiency=dl, weakly_reversible=wr, regular=reg,
                some_class_deficiency_positive=ldpos, errors=err)


# ------------------------------------------------------------------ generators

def gen_cases(tier, rng):
    cases = []
    cases += G.textbook()
    if tier == "quick":
        cases += G.exhaustive_alphabet(2, rng, "exh-alphabet<=2")
        cases += G.sample_alphabet(3, 600, rng, "sample-alphabet-3")
        cases += G.coeff_sweep(2, rng, "coeff-sweep-sample", limit=400)
        nrand, ncons = 500, 150
    else:
        cases += G.exhaustive_alphabet(3, rng, "exh-alphabet<=3")
        cases += G.coeff_sweep(2, rng, "exh-coeff{0,1,2}<=2")
        nrand, ncons = 6000, 1500
    for _ in range(nrand):
        cases.append(G.random_net(rng, max_s=rng.choice([6, 6, 7]), max_r=6, maxc=rng.choice([2, 2, 3])))
    for _ in range(ncons):
        cases.append(G.conservative_net(rng))
    cases.append(dict(kind="degenerate", rxns=[], iso=[], view="hyper"))
    return cases
