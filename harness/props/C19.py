"""C19 — complexes, linkage classes, weak reversibility and deficiency (synkit/CRN/Props/deficiency.py).

case = network case of gen/c17_nets.py (+ optional "delta"/"wr" labels of textbook networks), optionally with
    "edits" + "style"   a call history on one analyzer (gen/c19_adv.py; model run19_sm),
    "api"               one of the alternative entry routes (gen/c19_adv.py API_VARIANTS),
    "script" + "opts"   a script of arbitrary public calls with edits in between (gen/c19_api.py; model run19_ops),
    "mut" (+ "und", "par")  a raw attributed bipartite graph (gen/c19_api.py; model run19_nodes).

Plain observable:  [0, complexes (in creation order, vectors over the sorted species), complex-graph arcs (set),
              linkage classes (in networkx discovery order = by smallest complex index; each a set),
              [n_species, n_reactions, n_complexes, n_linkage, rank, deficiency, weakly_reversible],
              linkage deficiencies (same order as the classes), certificate-checker flag (True on the implementation side),
              regular, check_deficiency_zero, check_deficiency_one, deficiency-one hypotheses_satisfied,
              [nullity, max_complex_size] of a probing nondegeneracy_test]            or [2] on ValueError (no reaction).
Ranks are numpy float ranks on the implementation side and certificate-checked exact ranks on the model side.
"""
from ..coqrun import cZ, cnat, clist
from ..gen import c17_exact as X
from ..gen import c17_nets as G
from ..gen import c19_adv as ADV
from ..gen import c19_api as API
from ..gen import c19_exact as XF
from .C17 import build, view_of, cnet, _cstr, crcert, ref_matrix
from ..tok import S as SET

PID = "C19"
COQ_HEADER = ("From Coq Require Import List NArith ZArith.\nImport ListNotations.\n"
              "From SK Require Import lib.Tok lib.C17_Farkas model.C17_Model model.C19_Model model.C19_Fast model.C19_Api model.C17_NodeModel model.C19_Nodes.\n")
SHARD = 250
IMPL_TIMEOUT = 2400
COQ_TIMEOUT = 1500
RULE = ("reaction networks (explicit ids/rules, optional isolated species, hypergraph or bipartite view); non-trivial = at least two "
        "distinct complexes; distinct = distinct case content")
EXHAUSTIVE = {"quick": True, "thorough": True}
EXPLANATION = ("quick: ALL sets of 1..2 reactions over the 90 reactions between the 10 complexes of molecularity <= 2 on 3 species (4095); "
               "thorough: ALL sets of 1..3 such reactions (121 575) and 20 000 sampled sets of 1..2 reactions with coefficients in {0,1,2} over 3 species "
               "up to species permutation (of ~4.6e4).  Plus seeded random networks <= 6-7 species x 6 reactions, mass-balanced random networks, "
               "textbook networks with known deficiency (A+B<->C: 0, Edelstein: 1, futile cycles: 1 and 2, Horn-Jackson: 2, ...), bridged-cycle networks (>= 5 reactions, "
               "one-way / two-way bridges), networks with 10-13 species and 10-12 reactions (multi-digit names / ids), chains with 24 and 100 species (thorough: up to 128), "
               "call histories on ONE analyzer object with the hypergraph edited between the analyses (every answer compared with a fresh analyzer), scripts of arbitrary "
               "public calls on one analyzer with edits in between (result / error code and every stored field after every call; ALL sequences of 3 calls over 6 call kinds with an edit, "
               "ALL pairs over the 10 call kinds), raw attributed bipartite graphs (ALL kind x bipartite-flag combinations on a species and on a reaction node; "
               "missing / odd kind, bipartite flag, label, role, stoich; reversed arcs; undirected, multigraph and directed-multigraph inputs), disjoint multi-class networks, "
               "ill-conditioned stoichiometry (multi-digit coefficients, near-singular and exactly singular blocks), and the regression corpus.  "
               "Theorems (all inputs, closed under the global context): complexes = the distinct reactant/product vectors (NoDup, complete, vectors equal iff "
               "multisets equal), complex-graph arcs, linkage classes = connected components (partition, same class iff undirected path; fuel suffices), weak "
               "reversibility <-> every class strongly connected <-> every arc has a return path, deficiency = n - l - exact (MathComp) rank, "
               "rank S + l <= n hence deficiency >= 0, sum of class deficiencies <= deficiency and every class deficiency >= 0 (ranks certified by the proved checker), "
               "regularity / deficiency-zero / deficiency-one front ends, the public API as a state machine (coherence of the stored fields after ANY call sequence, "
               "API-level linkage sum, error codes), the identifier / attribute level of _complex_vectors and the undirected-input conversion refine the label-level model.")
TRUSTED_BASE = [
    "Coq 8.16.1 kernel + vm_compute (no native_compute)",
    "MathComp 1.15 (\\rank, kermx over rat) + mathcomp.zify for lib/RankBridge.v and lib/C19_FastRank.v, axiom-free",
    "hand-written models coq/model/C19_Model.v (label level, on top of model/C17_Model.v), model/C19_Api.v (public API state machine, logic part of nondegeneracy_test), "
    "model/C19_Nodes.v (identifier / attribute level, undirected-input conversion) tied to deficiency.py / utils.py / conversion.py by the per-run correspondence; "
    "model/C19_Fast.v is NOT trusted (proved equal to C19_Model: C19_fast_eval)",
    "harness encoders harness/props/C19.py (networks, raw graphs: node identifiers -> numbers, int(stoich) applied by the encoder) and the tok digest",
    "adapter and oracle read the PRIVATE fields DeficiencyAnalyzer._complexes / ._complex_graph / ._idx_map (the only place where the complex list and the complex graph are exposed), next to the public accessors",
    "numpy matrix_rank and networkx connected_components / is_strongly_connected are NOT trusted: their results are compared per input with the model (lib/Reach.v closure, certified ranks)",
    "the rank-certificate finders (harness/gen/c17_exact.py, c19_exact.py) are untrusted; only the Coq checkers are (check_rank_f implies check_rank: proved)",
    "float facts of nondegeneracy_test (numpy SVD: rank of S^T with cut-off 1e-9, position of the largest entry of each left-kernel basis vector) are oracle inputs of the model / compared per input",
]
ASSUMPTIONS = ["species labels, rule labels and edge ids are printable ASCII strings",
               "network given as CRNHyperGraph, as its directed hypergraph_to_bipartite export, or as an (un)directed (multi)graph with the documented node / edge attributes; "
               "edge ids unique; sides are dicts with positive integer counts (raw graphs with missing / odd attributes: correspondence only, the reading rules ARE the definition)",
               "rank_fn=None (rank := 0 by design) is outside the property: correspondence only",
               "the analyzer answers for the network it saw at its last compute_summary (stages are documented as building on it); compute_crn_deficiency always describes the current network"]
TESTED_NOT_PROVED = [
    "numpy float ranks (matrix_rank of S and of each class's difference vectors; SVD rank of S^T in nondegeneracy_test) equal the certified exact ranks (per input)",
    "networkx connected_components / is_strongly_connected / strongly_connected_components agree with the model's closures (per input)",
    "textbook deficiencies equal the literature values (per network)",
    "deficiency >= 0 and sum of class deficiencies <= deficiency are PROVED for the model (C19_nonneg, C19_linkage_sum, C19_api_linkage_sum); the oracle also checks them per input on the implementation's numbers",
    "as_dict() key sets and the equality of the access paths (properties, as_dict(), private fields): asserted per input in the adapter",
]
LEVEL_TEXT = ("Machine-checked proof (Coq) about executable models of DeficiencyAnalyzer, for every network: the complex list is duplicate free "
              "and consists exactly of the reactant and product vectors of the reactions (equal vectors iff equal multisets), the linkage classes "
              "are exactly the connected components of the complex graph (a partition; same class iff joined by an undirected path), the "
              "weak-reversibility flag is true exactly when every class is strongly connected (iff every reaction arc has a directed return path), "
              "the deficiency is n - l - rank with the exact rank over the rationals (MathComp) justified by a checked certificate, it is never "
              "negative (rank S + l <= n proved from S = Y*Ia), and the linkage-class deficiencies never sum to more than it — also at the level of the "
              "public API: after ANY sequence of public calls with ANY edits of the network in between, every stored field describes the one network of the "
              "last compute_summary and the reported class deficiencies never exceed the reported deficiency. The identifier / attribute level of the complex "
              "builder and the undirected-input conversion are proved to refine the label-level model. The models are compared with the Python code "
              "(complex list, arcs, classes, all integers and flags, class deficiencies, result / error code and every stored field after every call, raw attributed "
              "graphs) on every run over an exhaustive small scope, random, textbook, large and adversarial networks; numpy's float ranks are compared with the certified exact ranks per input.")
LEVEL_NOTE = ("Universal: all 52 model theorems and checker soundness. Per input: float ranks vs certified ranks; networkx component routines vs "
              "the model's closures; float part of nondegeneracy_test (oracle inputs). Trusted: Coq kernel, MathComp, models + encoders. "
              "networkx/numpy results are compared, not trusted.")
TECHNIQUE = ("Coq proof about Gallina models (stdlib lists: walk invariant, lib/Reach saturation, API state-machine invariant, identifier-level refinement; MathComp: rank of Y*Ia, kernel of the incidence "
             "matrix, block-rank bound, kermx) + per-run vm_compute correspondence + independent Python oracle")


# ------------------------------------------------------------------ implementation adapter

def _analyze(Xv):
    import warnings
    warnings.filterwarnings("ignore")
    from synkit.CRN.Props.deficiency import DeficiencyAnalyzer
    return DeficiencyAnalyzer(Xv).compute_crn_deficiency()


_SUMMARY_KEYS = ("n_species", "n_reactions", "n_complexes", "n_linkage_classes", "stoich_rank", "deficiency", "weakly_reversible")


def _obs(a):
    """Everything the analyzer object currently stores / answers."""
    import networkx as nx
    su = a.summary
    d = a.as_dict()
    CG = a._complex_graph
    classes = [sorted(c) for c in nx.connected_components(CG.to_undirected())]
    one = a.deficiency_one_structural
    assert d["deficiency"] == su.deficiency and one["deficiency"] == su.deficiency
    assert list(one["linkage_deficiencies"]) == list(a.linkage_deficiencies) == list(d["linkage_deficiencies"])
    # the two observation points (summary dataclass, as_dict()) must tell ONE story, field by field
    for k in _SUMMARY_KEYS:
        assert d[k] == getattr(su, k), "as_dict()[%r] = %r, summary.%s = %r" % (k, d[k], k, getattr(su, k))
    assert dict(d["deficiency_one_structural"]) == dict(one)
    assert a.as_dict() == d and a.summary == su                  # repeated reads
    # derived views
    assert a.explain() == "Deficiency=%s, Linkage-classes=%s, Weakly-reversible=%s" % (su.deficiency, su.n_linkage_classes, su.weakly_reversible), a.explain()
    assert repr(a) == "<DeficiencyAnalyzer deficiency=%s>" % su.deficiency, repr(a)
    assert type(a)._is_weakly_reversible(CG) == su.weakly_reversible and a.check_regularity() == one["regular"]
    assert len(a._complexes) == su.n_complexes == CG.number_of_nodes() and len(classes) == su.n_linkage_classes
    return [0,
            [list(map(int, c)) for c in a._complexes],
            SET([[int(u), int(v)] for u, v in CG.edges()]),
            [SET(c) for c in classes],
            [su.n_species, su.n_reactions, su.n_complexes, su.n_linkage_classes, su.stoich_rank, su.deficiency, bool(su.weakly_reversible)],
            [int(x) for x in a.linkage_deficiencies],
            True,
            bool(one["regular"]), bool(a.check_deficiency_zero()), bool(a.check_deficiency_one()), bool(one["hypotheses_satisfied"]),
            _nondeg(a)]


def _nondeg(a):
    """nondegeneracy_test: the two exact outputs — nullity of S^T (the model: n_species - certified rank) and the largest
    complex size.  Run as a probe on the analyzer (its stored result is put back); shapes of the float part asserted."""
    from synkit.CRN.Props.deficiency import DeficiencyAnalyzer
    keep = a._nondegeneracy
    try:
        if a._stoich_fn is None:                       # built without a matrix function: the test refuses to run
            try:
                a.nondegeneracy_test()
                raise AssertionError("nondegeneracy_test ran without stoich_fn")
            except RuntimeError:
                pass
            nd = DeficiencyAnalyzer(a._crn).compute_summary().nondegeneracy_test().nondegeneracy_result
        else:
            nd = a.nondegeneracy_test().nondegeneracy_result
            assert a.as_dict().get("nondegeneracy") == nd
    finally:
        a._nondegeneracy = keep
    assert set(nd) == {"nullity", "basis", "per_basis", "largest_relevant_present", "max_complex_size", "tolerance"}, sorted(nd)
    assert nd["tolerance"] == 1e-9 and len(nd["basis"]) == len(nd["per_basis"]) == nd["nullity"]
    assert all(len(v) == a.summary.n_species for v in nd["basis"])
    return [int(nd["nullity"]), int(nd["max_complex_size"])]


def _apply_edit(H, e):
    if e[0] == "del":
        H.remove_rxn(e[1])
    elif e[0] == "rmsp":
        H.remove_species(e[1])
    elif e[0] == "rmsp0":
        H.remove_species(e[1], prune_orphans=False)
    elif e[0] == "repl":                      # same id, other content
        eid, rule, l, r = e[1]
        H.remove_rxn(eid)
        H.add_rxn({s: c for s, c in l}, {s: c for s, c in r}, rule=rule, edge_id=eid)
    elif e[0] == "probe":                     # other routes / non-default options on the same object; the network is unchanged
        _probe(H, e[1])
    elif e[0] == "coef":                      # in-place edit of a stored coefficient
        side = H.edges[e[1]].reactants if e[2] == "l" else H.edges[e[1]].products
        assert e[3] in side.data
        side[e[3]] = e[4]
    else:
        eid, rule, l, r = e[1]
        H.add_rxn({s: c for s, c in l}, {s: c for s, c in r}, rule=rule, edge_id=eid)


def _probe(X, k):
    """Calls that must not influence later default analyses of the same object (non-default export options, loose tolerance,
    an analyzer without rank function, a caller editing returned values)."""
    import warnings
    warnings.filterwarnings("ignore")
    from synkit.CRN.Hypergraph.conversion import _as_bipartite, hypergraph_to_bipartite
    from synkit.CRN.Hypergraph.hypergraph import CRNHyperGraph
    from synkit.CRN.Props.stoich import stoichiometric_matrix, stoichiometric_rank
    from synkit.CRN.Props.deficiency import DeficiencyAnalyzer
    if k == 0:
        _as_bipartite(X, integer_ids=False, include_stoich=False)
        if isinstance(X, CRNHyperGraph):
            hypergraph_to_bipartite(X, include_role=False, include_isolated_species=False)
    elif k == 1:
        try:
            stoichiometric_rank(X, tol=1.0)
            S = stoichiometric_matrix(X)
        except ValueError:                    # the network has no reaction at this point of the script
            return
        try:
            S[:] = 0
        except Exception:
            pass
    elif k == 2:
        try:
            b = DeficiencyAnalyzer(X, rank_fn=None).compute_crn_deficiency()
            b.linkage_deficiencies.append(7)
            b._complexes.reverse()
        except ValueError:
            pass
    else:
        G = _as_bipartite(X)
        if G is not X:                        # the caller edits the returned export
            for _, _, d in G.edges(data=True):
                d["stoich"] = 5


def _apply_edit_bip(G, e):
    """In-place edit of a bipartite INPUT graph (only coefficient edits): the arc between the species labelled e[3] and the
    reaction node carrying edge_id e[1], in the direction of the role."""
    assert e[0] == "coef"
    rn = [n for n, d in G.nodes(data=True) if d.get("kind") == "reaction" and d.get("edge_id") == e[1]]
    sn = [n for n, d in G.nodes(data=True) if d.get("kind") == "species" and d.get("label") == e[3]]
    assert len(rn) == 1 and len(sn) == 1
    u, v = (sn[0], rn[0]) if e[2] == "l" else (rn[0], sn[0])
    assert G.has_edge(u, v)
    G[u][v]["stoich"] = e[4]


def _reanalyze(a, style):
    """One full analysis on an EXISTING analyzer object (the two documented routes)."""
    if style == 0:
        a.compute_crn_deficiency()
    elif style == 2:                          # the summary stage re-run; the front end computes whatever is missing
        a.compute_summary()
        a.run_deficiency_one_algorithm()
    else:
        a.compute_summary()
        a.compute_linkage_deficiencies()
        a.run_deficiency_one_algorithm()


def _history(case):
    """Run the history in THIS process on shared objects.  Yields per step
    (step network as a plain case, hypergraph holding the truth, re-used analyzer after re-analysis | None on ValueError,
     brand-new analyzer on the SAME (edited) input object | None)."""
    import warnings
    warnings.filterwarnings("ignore")
    from synkit.CRN.Props.deficiency import DeficiencyAnalyzer
    from synkit.CRN.Hypergraph.conversion import hypergraph_to_bipartite
    H = build(case)
    view = case.get("view", "hyper")
    if view == "hyper":
        Xv = H
    else:
        Xv = hypergraph_to_bipartite(H, integer_ids=(view == "bip_int"), include_edge_id_attr=True)
    a = DeficiencyAnalyzer(Xv)
    nets = ADV.apply_edits2(case["rxns"], case["edits"], case.get("iso", []))
    for k, e in enumerate([None] + list(case["edits"])):
        if e is not None:
            _apply_edit(H, e)
            if Xv is not H:
                if e[0] == "probe":
                    _probe(Xv, e[1])
                else:
                    _apply_edit_bip(Xv, e)
        try:
            _reanalyze(a, case.get("style", 0))
            reused = a
        except ValueError:
            reused = None
        try:
            fresh = DeficiencyAnalyzer(Xv).compute_crn_deficiency()
        except ValueError:
            fresh = None
        yield dict(kind="history-step", rxns=nets[k][0], iso=nets[k][1], view="hyper"), H, reused, fresh


def _undirected_view(G, multi):
    """The export as an UNDIRECTED bipartite graph (same nodes, same incidences with role / stoich).  A plain nx.Graph cannot
    hold a species that is reactant AND product of one reaction (one edge per pair): those networks need the multigraph."""
    import networkx as nx
    U = nx.MultiGraph() if multi else nx.Graph()
    U.add_nodes_from(G.nodes(data=True))
    for u, v, d in G.edges(data=True):
        if not multi and U.has_edge(u, v):
            return None
        U.add_edge(u, v, **d)
    return U


def _analyze_api(case, Xv):
    """Every public route to the same answers (API-surface inventory, notes/C19.md)."""
    import warnings
    warnings.filterwarnings("ignore")
    from synkit.CRN.Props.deficiency import DeficiencyAnalyzer
    from synkit.CRN.Props.stoich import stoichiometric_matrix, stoichiometric_rank
    v = case["api"]
    if v == "pos":
        return DeficiencyAnalyzer(Xv, stoichiometric_matrix, stoichiometric_rank).compute_crn_deficiency()
    if v == "kw":
        return DeficiencyAnalyzer(crn=Xv, rank_fn=stoichiometric_rank, stoich_fn=stoichiometric_matrix).compute_crn_deficiency(run_nondegeneracy=False)
    if v == "nostoich":                      # counts from the node split instead of the matrix shape
        return DeficiencyAnalyzer(Xv, stoich_fn=None).compute_crn_deficiency()
    if v == "nondeg":
        return DeficiencyAnalyzer(Xv).compute_crn_deficiency(run_nondegeneracy=True)
    if v == "listfn":                        # user functions: the matrix as nested lists, the rank as a float
        return DeficiencyAnalyzer(Xv, stoich_fn=lambda g: stoichiometric_matrix(g).tolist(),
                                  rank_fn=lambda g: float(stoichiometric_rank(g))).compute_crn_deficiency(run_nondegeneracy=True)
    if v == "staged":
        return DeficiencyAnalyzer(Xv).compute_summary().compute_linkage_deficiencies().run_deficiency_one_algorithm()
    if v == "lazy":                          # run_deficiency_one_algorithm computes the missing stages itself
        return DeficiencyAnalyzer(Xv).run_deficiency_one_algorithm()
    if v == "twice":                         # idempotence on an unchanged network
        a = DeficiencyAnalyzer(Xv).compute_crn_deficiency()
        a.as_dict()["linkage_deficiencies"].append(99)          # the caller edits returned lists / dicts / the dataclass
        a.as_dict()["deficiency_one_structural"]["regular"] = "x"
        a.linkage_deficiencies.append(5)
        a.deficiency_one_structural["regular"] = "y"
        a.summary.n_complexes = 99
        return a.compute_crn_deficiency()
    if v in ("multidi", "multidi-stoich", "multidi-mixed", "multi-mixed"):
        # the SAME network in the other accepted encodings: a multigraph in which a coefficient c is written as c parallel unit arcs
        # (one arc per molecule, every second one without a stoich attribute), as one arc with stoich c, or mixed (c - 1 and 1):
        # parallel incidences ADD UP in _complex_vectors and in build_S_minus_plus (lhs[idx] += coeff per arc)
        import networkx as nx
        M = nx.MultiGraph() if v == "multi-mixed" else nx.MultiDiGraph()
        M.add_nodes_from(Xv.nodes(data=True))
        for u, w, d in Xv.edges(data=True):
            c = int(d.get("stoich", 1))
            parts = [c] if v == "multidi-stoich" or c == 1 else [1] * c if v == "multidi" else [c - 1, 1]
            for j, pc in enumerate(parts):
                dd = dict(d, stoich=pc)
                if pc == 1 and j % 2:
                    dd.pop("stoich")         # the default coefficient
                if v == "multi-mixed" and j % 2:
                    M.add_edge(w, u, **dd)   # an undirected edge may be listed from either end
                else:
                    M.add_edge(u, w, **dd)
        return DeficiencyAnalyzer(M).compute_crn_deficiency(run_nondegeneracy=True)
    if v in ("und", "multi"):
        U = _undirected_view(Xv, v == "multi")
        if U is None:
            U = _undirected_view(Xv, True)
        return DeficiencyAnalyzer(U).compute_crn_deficiency()
    raise KeyError(v)


def impl(case):
    if "mut" in case:
        return _impl_raw(case)
    if "script" in case:
        return _impl_script(case)
    if "api" in case:
        H = build(case)
        try:
            return _obs(_analyze_api(case, view_of(case, H)))
        except ValueError:
            return [2]
    if "edits" in case:
        out = []
        for _, _, a, b in _history(case):               # re-used analyzer, then a brand-new analyzer on the same edited input
            out.append(_obs(a) if a is not None else [2])
            out.append(_obs(b) if b is not None else [2])
        return out
    H = build(case)
    Xv = view_of(case, H)
    try:
        a = _analyze(Xv)
    except ValueError:
        return [2]
    return _obs(a)


# ------------------------------------------------------------------ scripts of public API calls on one analyzer (round 5)

_RT = {"compute_summary() must be called before linkage computations.": 1,
       "compute_summary() must be called before compute_linkage_deficiencies().": 2,
       "compute_summary() must be called before check_deficiency_zero().": 3,
       "compute_summary() must be called before check_deficiency_one().": 4,
       "compute_linkage_deficiencies() must be called before check_deficiency_one().": 5,
       "compute_summary() must be called before check_regularity().": 6,
       "nondegeneracy_test requires a stoich_fn to compute S.": 7,
       "Call compute_summary() before nondegeneracy_test().": 8}


def _float_argmax(a, tol=1e-9):
    """The float part of nondegeneracy_test that the model does not contain: for every basis vector of the left kernel (numpy SVD
    of S^T, absolute cut-off 1e-9) the position of its largest absolute entry.  Same numpy calls on the same input as the method
    itself (deterministic); asserted equal to the method's own per_basis when the method succeeds.  None when S cannot be built."""
    import numpy as np
    from synkit.CRN.Hypergraph.conversion import _as_bipartite
    if a._stoich_fn is None:
        return None
    try:
        N = np.asarray(a._stoich_fn(_as_bipartite(a._crn)), dtype=float)
    except ValueError:
        return None
    n_species = N.shape[0]
    _U, svals, Vh = np.linalg.svd(N.T, full_matrices=True)
    zero_idx = [i for i, sv in enumerate(svals) if sv <= tol] + list(range(len(svals), n_species))
    if n_species - int((svals > tol).sum()) <= 0:
        return []
    return [int(np.argmax(np.abs(Vh.T[:, i]))) for i in zero_idx]


def _call(a, name):
    """One public call -> (result / error code, float argmax positions used by it or None)."""
    mis = _float_argmax(a, 1e-12 if name == "nondegt" else 1e-9) if name in ("nondeg", "nondegt", "crn1") else None
    try:
        if name == "summary":
            assert a.compute_summary() is a
        elif name == "linkage":
            assert a.compute_linkage_deficiencies() is a
        elif name == "one":
            assert a.run_deficiency_one_algorithm() is a
        elif name == "nondeg":
            assert a.nondegeneracy_test() is a
        elif name == "nondegt":               # a tighter tolerance, by keyword: same exact answers, the tolerance is echoed
            assert a.nondegeneracy_test(tol=1e-12) is a
            assert a.nondegeneracy_result["tolerance"] == 1e-12
        elif name == "crn0":
            assert a.compute_crn_deficiency() is a
        elif name == "crn1":
            assert a.compute_crn_deficiency(run_nondegeneracy=True) is a
        elif name == "check0":
            return [1, bool(a.check_deficiency_zero())], mis
        elif name == "check1":
            return [1, bool(a.check_deficiency_one())], mis
        elif name == "reg":
            return [1, bool(a.check_regularity())], mis
        else:
            raise KeyError(name)
    except ValueError:
        return [2], mis
    except RuntimeError as e:
        return [3, _RT[str(e)]], mis
    except IndexError:
        return [4], mis
    if name in ("nondeg", "nondegt", "crn1"):
        assert [p["max_index"] for p in a.nondegeneracy_result["per_basis"]] == mis, (a.nondegeneracy_result, mis)
    return [0], mis


def _some(x):
    return [x]


def _dump(a):
    """Everything the object stores, read through the public accessors AND the private fields (they must tell one story)."""
    import networkx as nx
    d = a.as_dict()
    su, ld, one, nd = a.summary, a.linkage_deficiencies, a.deficiency_one_structural, a.nondegeneracy_result
    assert (su is None) == ("deficiency" not in d) == (a._complexes is None) == (a._complex_graph is None) == (a._idx_map is None)
    assert (ld is None) == ("linkage_deficiencies" not in d) and (one is None) == ("deficiency_one_structural" not in d)
    assert (nd is None) == ("nondegeneracy" not in d)
    assert set(d) <= set(_SUMMARY_KEYS) | {"linkage_deficiencies", "deficiency_one_structural", "nondegeneracy"}
    if su is None:
        assert a.explain() == "No computations performed yet. Call compute_summary()." and repr(a) == "<DeficiencyAnalyzer deficiency=NA>"
        o_su = None
    else:
        for k in _SUMMARY_KEYS:
            assert d[k] == getattr(su, k)
        assert a.explain() == "Deficiency=%s, Linkage-classes=%s, Weakly-reversible=%s" % (su.deficiency, su.n_linkage_classes, su.weakly_reversible)
        assert repr(a) == "<DeficiencyAnalyzer deficiency=%s>" % su.deficiency
        CG = a._complex_graph
        classes = [sorted(c) for c in nx.connected_components(CG.to_undirected())]
        assert a._idx_map == {tuple(c): k for k, c in enumerate(a._complexes)}
        assert len(a._complexes) == su.n_complexes == CG.number_of_nodes() and len(classes) == su.n_linkage_classes
        assert type(a)._is_weakly_reversible(CG) == su.weakly_reversible
        o_su = _some([[list(map(int, c)) for c in a._complexes], SET([[int(u), int(v)] for u, v in CG.edges()]), [SET(c) for c in classes],
                      [su.n_species, su.n_reactions, su.n_complexes, su.n_linkage_classes, su.stoich_rank, su.deficiency, bool(su.weakly_reversible)],
                      True])
    if ld is not None:
        assert list(d["linkage_deficiencies"]) == list(ld)
    o_one = None
    if one is not None:
        assert dict(d["deficiency_one_structural"]) == dict(one)
        assert set(one) == {"hypotheses_satisfied", "deficiency", "linkage_deficiencies", "regular", "conclusion"}
        assert one["conclusion"].startswith("Deficiency One hypotheses (Feinberg, 1987, 1988) are satisfied") == bool(one["hypotheses_satisfied"])
        assert one["conclusion"].startswith("Deficiency One hypotheses are not satisfied") == (not one["hypotheses_satisfied"])
        o_one = _some([bool(one["hypotheses_satisfied"]), int(one["deficiency"]), [int(x) for x in one["linkage_deficiencies"]], bool(one["regular"]),
                       str(one["conclusion"])])
    o_nd = None
    if nd is not None:
        assert dict(d["nondegeneracy"]) == dict(nd)
        assert set(nd) == {"nullity", "basis", "per_basis", "largest_relevant_present", "max_complex_size", "tolerance"}, sorted(nd)
        assert nd["tolerance"] in (1e-9, 1e-12) and len(nd["basis"]) == len(nd["per_basis"])
        assert all(set(p) == {"max_index", "max_value", "matches_max_complex"} and p["max_value"] == 1.0 for p in nd["per_basis"])
        o_nd = _some([int(nd["nullity"]), [[int(p["max_index"]), bool(p["matches_max_complex"])] for p in nd["per_basis"]],
                      bool(nd["largest_relevant_present"]), int(nd["max_complex_size"]), len(nd["basis"]) == nd["nullity"]])
    return [o_su, _some([int(x) for x in ld]) if ld is not None else None, o_one, o_nd, a.explain(), repr(a)]     # + the two text views


def _tamper(a):
    """as_dict() promises a serialisable COPY: editing its top-level values must not reach the object."""
    d = a.as_dict()
    for k in list(d):
        if isinstance(d[k], list):
            d[k].append(99)
        elif isinstance(d[k], dict):
            d[k]["regular"] = "x"
            d[k]["nullity"] = -1
            d[k].pop("deficiency", None)
        else:
            d[k] = 77
    d["extra"] = 1


def _script(case):
    """Run the script in THIS process on shared objects.  Yields per call (name, index of the network in the edit sequence,
    hypergraph holding the truth, analyzer, result code, float argmax positions)."""
    import warnings
    warnings.filterwarnings("ignore")
    from synkit.CRN.Props.deficiency import DeficiencyAnalyzer
    from synkit.CRN.Hypergraph.conversion import hypergraph_to_bipartite
    H = build(case)
    view = case.get("view", "hyper")
    Xv = H if view == "hyper" else hypergraph_to_bipartite(H, integer_ids=(view == "bip_int"), include_edge_id_attr=True)
    kw = {}
    if not case["opts"][0]:
        kw["stoich_fn"] = None
    if not case["opts"][1]:
        kw["rank_fn"] = None
    a = DeficiencyAnalyzer(Xv, **kw)
    k = 0
    for s in case["script"]:
        if s[0] == "e":
            if s[1] == ["probe", 4]:                 # the caller edits everything as_dict() returned: copies, the object must not change
                _tamper(a)
            elif s[1][0] == "probe":                 # non-default options / other routes on the same input object: the network is unchanged
                _probe(Xv, s[1][1])
            else:
                _apply_edit(H, s[1])
                if Xv is not H:
                    _apply_edit_bip(Xv, s[1])
            k += 1
            continue
        res, mis = _call(a, s[1])
        yield s[1], k, H, a, res, mis


def _impl_script(case):
    return [[res, _dump(a)] for _, _, _, a, res, _ in _script(case)]


def _coq_script(case):
    mis_all = [mis for _, _, _, _, _, mis in _script(case)]
    calls = [s[1] for s in case["script"] if s[0] == "c"]
    nets = API.networks_at_calls(case)
    defs, seen = [], {}
    items = []
    for name, (k, (rxns, iso)), mis in zip(calls, nets, mis_all):
        if k not in seen:
            seen[k] = "x%d" % k
            defs.append("let x%d : hist_step := (%s) in" % (k, ", ".join(_split_args(_coq_args(dict(rxns=rxns, iso=iso, view="hyper"))))))
        items.append("(%s, %s, %s)" % (API.COQ_OP[name], seen[k], clist([cnat(i) for i in (mis or [])])))
    return "(%s run19_ops (Opts %s %s) %s)" % (" ".join(defs), "true" if case["opts"][0] else "false",
                                              "true" if case["opts"][1] else "false", clist(items))


# ------------------------------------------------------------------ raw attributed graphs (identifier / attribute level, round 5)

def _impl_raw(case):
    """The graph-only answers of the analyzer on a raw bipartite DiGraph (no matrix / rank function: the stoichiometric matrix
    of a graph with missing roles is another property's business)."""
    import warnings
    warnings.filterwarnings("ignore")
    import networkx as nx
    from synkit.CRN.Props.deficiency import DeficiencyAnalyzer
    from synkit.CRN.Props.utils import _species_order
    Gr = API.raw_input(case)
    try:
        a = DeficiencyAnalyzer(Gr, stoich_fn=None, rank_fn=None).compute_summary()
    except ValueError:
        return [2]
    su, CG = a.summary, a._complex_graph
    classes = [sorted(c) for c in nx.connected_components(CG.to_undirected())]
    assert su.stoich_rank == 0 and su.deficiency == su.n_complexes - su.n_linkage_classes
    return [0, [str(x) for x in _species_order(Gr)[1]], [list(map(int, c)) for c in a._complexes],
            SET([[int(u), int(v)] for u, v in CG.edges()]), [SET(c) for c in classes],
            [su.n_species, su.n_reactions, su.n_complexes, su.n_linkage_classes, bool(su.weakly_reversible)],
            bool(a.check_regularity())]


def _copt(x, f):
    return "None" if x is None else "(Some %s)" % f(x)


def _coq_raw(case):
    """Encode the raw graph: node identifiers become numbers (only their equality matters), str(node) is kept for the label
    fall-back; int(stoich) is applied here (the model has integer coefficients)."""
    from ..coqrun import cN
    Gr = API.raw_input(case)
    num = {}
    for n in Gr.nodes:
        num[n] = n if isinstance(n, int) and not isinstance(n, bool) and 0 <= n < 10 ** 6 else 10 ** 6 + len(num)
    kinds = {"species": 0, "reaction": 1}
    nodes = []
    for n, d in Gr.nodes(data=True):
        k = None if "kind" not in d or d["kind"] is None else kinds.get(d["kind"], 2)
        b = d.get("bipartite")
        assert b is None or isinstance(b, int)
        nodes.append("(RNode %s %s %s %s %s)" % (cN(num[n]), _copt(k, cnat), _copt(b, cZ),
                                                _copt(str(d["label"]) if "label" in d else None, _cstr), _cstr(str(n))))
    arcs = []
    for u, v, d in Gr.edges(data=True):
        ro = {"reactant": "Reactant", "product": "Product"}.get(d.get("role"))
        arcs.append("(RArc %s %s %s %s)" % (cN(num[u]), cN(num[v]), _copt(ro, str), _copt(int(d["stoich"]) if "stoich" in d else None, cZ)))
    if case.get("und") in ("graph", "multi"):          # the edges as networkx lists them (each once, either orientation); the model orients them
        return "run19_nodes (as_bipartite_undirected (RG %s %s))" % (clist(nodes), clist(arcs))
    return "run19_nodes (RG %s %s)" % (clist(nodes), clist(arcs))


# ------------------------------------------------------------------ reference structures from the case alone

def ref_complexes(case):
    """Complex list / arcs / classes in the order the (repaired) code creates them; used to FIND rank certificates and by
    the oracle as an independent reference (written from the definitions, not from deficiency.py)."""
    species = sorted({s for _, _, l, r in case["rxns"] for s, _ in l + r} | set(case.get("iso", [])))
    rx = sorted(case["rxns"], key=lambda t: t[0])               # reaction nodes are created in sorted-id order
    cx, arcs = [], []
    for _, _, l, r in rx:
        y = tuple(sum(c for x, c in l if x == s) for s in species)
        yp = tuple(sum(c for x, c in r if x == s) for s in species)
        for v in (y, yp):
            if v not in cx:
                cx.append(v)
        a = (cx.index(y), cx.index(yp))
        if a not in arcs:
            arcs.append(a)
    # linkage classes by union-find, ordered by smallest member
    par = list(range(len(cx)))

    def find(x):
        while par[x] != x:
            x = par[x]
        return x
    for u, v in arcs:
        ru, rv = find(u), find(v)
        if ru != rv:
            par[max(ru, rv)] = min(ru, rv)
    groups = {}
    for k in range(len(cx)):
        groups.setdefault(find(k), []).append(k)
    classes = [groups[k] for k in sorted(groups)]
    return species, cx, arcs, classes


def class_diffs(cx, arcs, cl):
    s = set(cl)
    out = []
    for u, v in arcs:
        if u in s and v in s:
            d = [b - a for a, b in zip(cx[u], cx[v])]
            if any(d):
                out.append(d)
    return out


def _reach(adj, u):
    seen = {u}
    st = [u]
    while st:
        x = st.pop()
        for y in adj.get(x, ()):
            if y not in seen:
                seen.add(y)
                st.append(y)
    return seen


def _coq_args(case):
    species, rx, S = ref_matrix(case)
    m, n = len(species), len(rx)
    if n == 0:
        return "%s %s %s []" % (cnet(case), clist([_cstr(z) for z in case.get("iso", [])]),
                                crcert(dict(r=0, A=[], B=[], A2=[], B2=[], d=1)))
    rc = XF.rank_cert(S, m, n)
    _, cx, arcs, classes = ref_complexes(case)
    ccs = []
    for cl in classes:
        D = class_diffs(cx, arcs, cl)
        ccs.append(crcert(XF.rank_cert(D, len(D), m)))
    return "%s %s %s %s" % (cnet(case), clist([_cstr(z) for z in case.get("iso", [])]), crcert(rc), clist(ccs))


def coq_case(case):
    if "mut" in case:
        return _coq_raw(case)
    if "script" in case:
        return _coq_script(case)
    if "edits" in case:
        steps = []
        for rxns, iso in ADV.apply_edits2(case["rxns"], case["edits"], case.get("iso", [])):
            a = _coq_args(dict(rxns=rxns, iso=iso, view="hyper"))
            st = "(%s)" % ", ".join(_split_args(a))
            steps.append("(%s, %s)" % (cnat(case.get("style", 0)), st))
        return "run19_sm %s" % clist(steps)          # the staged state machine: per step re-used analyzer (route = style), new analyzer
    return "run19f " + _coq_args(case)          # = run19 (C19_fast_eval)


def _split_args(a):
    """The four top-level arguments of a run19 argument string (each is a bracketed list or a parenthesised term)."""
    out, depth, cur = [], 0, ""
    for ch in a:
        if ch in "([":
            depth += 1
        elif ch in ")]":
            depth -= 1
        if ch == " " and depth == 0:
            if cur:
                out.append(cur)
            cur = ""
        else:
            cur += ch
    if cur:
        out.append(cur)
    assert len(out) == 4, len(out)
    return out


# ------------------------------------------------------------------ property oracle

def oracle(case):
    if "mut" in case:
        return _oracle_raw(case)
    if "script" in case:
        return _oracle_script(case)
    if "edits" in case:
        return _oracle_history(case)
    H = build(case)
    Xv = view_of(case, H)
    try:
        a = _analyze_api(case, Xv) if "api" in case else _analyze(Xv)
    except ValueError as e:
        if H.edges:
            return [dict(clause="complexes", detail="analysis raised ValueError on a network with reactions: %s" % e)]
        return []
    return _oracle_on(a, H, case)


def _oracle_raw(case):
    """Raw graphs: the network a graph with missing / odd attributes denotes is defined by the reading rules themselves, so most
    of these cases are correspondence-only.  Independent of the attribute rules: whatever complexes and arcs were built, the
    linkage classes are the connected components of the complex graph and weak reversibility is strong connectivity of every
    component (own closure code); an unmutated export must give the answers of the hypergraph."""
    o = _impl_raw(case)
    if o == [2]:
        return []
    fails = []
    n = len(o[2])
    arcs = [tuple(x) for x in o[3]["__set__"]]
    und, fwd = {}, {}
    for u, v in arcs:
        und.setdefault(u, set()).add(v)
        und.setdefault(v, set()).add(u)
        fwd.setdefault(u, set()).add(v)
    comps, seen = [], set()
    for k in range(n):
        if k not in seen:
            c = _reach(und, k)
            seen |= c
            comps.append(c)
    if [sorted(c) for c in comps] != [sorted(c["__set__"]) for c in o[4]] or o[5][3] != len(comps) or o[5][2] != n:
        fails.append(dict(clause="raw-linkage", detail="classes %r, components of the complex graph %r" % (o[4], comps)))
    wr = all(all(c <= _reach(fwd, u) for u in c) for c in comps)
    if wr != o[5][4]:
        fails.append(dict(clause="raw-weakly-reversible", detail="weakly_reversible=%r, reference %r" % (o[5][4], wr)))
    if len({tuple(c) for c in o[2]}) != n:
        fails.append(dict(clause="raw-complexes", detail="duplicate complex in %r" % (o[2],)))
    from .C17 import has_catalyst
    if case["mut"] == ["none"] and all(p[1] in ("reactant", "product") for p in case.get("par", [])) \
            and not (case.get("und") == "graph" and has_catalyst(case)):
        # a fully attributed graph IS a reaction network whatever its networkx class: the complexes are the reactant / product
        # multisets read off its incidences (parallel incidences of a multigraph = one arc per molecule or per batch: they add up)
        Gi = API.raw_input(case)
        sp = sorted((str(d["label"]), n) for n, d in Gi.nodes(data=True) if d.get("kind") == "species")
        pos = {n: k for k, (_, n) in enumerate(sp)}
        want = set()
        for r, d in Gi.nodes(data=True):
            if d.get("kind") != "reaction":
                continue
            lhs, rhs = [0] * len(sp), [0] * len(sp)
            for u, v, ed in Gi.edges(data=True):
                if r not in (u, v):
                    continue
                x = v if u == r else u
                if x in pos:
                    (lhs if ed["role"] == "reactant" else rhs)[pos[x]] += int(ed.get("stoich", 1))
            want |= {tuple(lhs), tuple(rhs)}
        if {tuple(c) for c in o[2]} != want or o[1] != [l for l, _ in sp]:
            fails.append(dict(clause="raw-complexes-multiset", detail="complexes %r over %r, the incidences of the %s give %r"
                              % (o[2], o[1], type(Gi).__name__, sorted(want))))
    if case["mut"] == ["none"] and not case.get("par") and not (case.get("und") == "graph" and has_catalyst(case)):
        ref = impl(dict(kind="raw-ref", rxns=case["rxns"], iso=case.get("iso", []), view="hyper"))
        if _plain(ref[1:4]) != _plain(o[2:5]):
            fails.append(dict(clause="raw-export", detail="export %r, hypergraph %r" % (_plain(o[2:5]), _plain(ref[1:4]))))
    return fails


def _oracle_script(case):
    """Scripts of public calls.  The object answers for the network as it was at its last compute_summary (the methods are
    documented as stages on top of compute_summary).  Judged after EVERY call:
    (1) whatever summary / class deficiencies the object reports satisfy the property for THAT network (in particular they
        belong to one network: the class deficiencies never sum to more than the deficiency reported next to them);
    (2) after a successful compute_crn_deficiency the object equals a brand-new analyzer on a freshly BUILT current network.
    rank_fn=None is outside the property (rank := 0 by design): correspondence only."""
    if not case["opts"][1]:
        return []
    fails = []
    nets = ADV.apply_edits2(case["rxns"], [s[1] for s in case["script"] if s[0] == "e"], case.get("iso", []))
    last_su, snap_k = None, None
    for j, (name, k, H, a, res, _mis) in enumerate(_script(case)):
        if a._summary is not last_su:                       # a compute_summary ran inside this call: it read the CURRENT network
            last_su, snap_k = a._summary, k
        if a._summary is None:
            if any(x is not None for x in (a.linkage_deficiencies, a.deficiency_one_structural, a.nondegeneracy_result)):
                fails.append(dict(clause="script-derived-without-summary", detail="call %d (%s): derived results stored without a summary" % (j, name)))
            continue
        step = dict(kind="script-step", rxns=nets[snap_k][0], iso=nets[snap_k][1], view="hyper")
        Hs = build(step)
        for f in _oracle_on(a, Hs, step, partial=True):
            fails.append(dict(clause="script-" + f["clause"], detail="call %d (%s; network of the last compute_summary = after %d edits): %s"
                              % (j, name, snap_k, f["detail"])))
        one = a.deficiency_one_structural
        if one is not None and (one["deficiency"] != a.summary.deficiency or list(one["linkage_deficiencies"]) != list(a.linkage_deficiencies or [])):
            fails.append(dict(clause="script-one-coherent", detail="call %d (%s): deficiency_one_structural %r next to deficiency %r, class deficiencies %r"
                              % (j, name, one, a.summary.deficiency, a.linkage_deficiencies)))
        if name in ("crn0", "crn1") and res == [0]:
            cur = dict(kind="script-step", rxns=nets[k][0], iso=nets[k][1], view="hyper")
            fresh = impl(cur)
            same = _obs(a)
            if _plain(fresh) != _plain(same):
                fails.append(dict(clause="script-stale-state", detail="call %d (%s): the re-used analyzer answers %r, a freshly built network gives %r"
                                  % (j, name, _plain(same), _plain(fresh))))
        if fails:
            break
    return fails[:4]


def _oracle_history(case):
    """Every answer — of the ONE re-used analyzer and of a brand-new analyzer on the same edited input object — must
    (1) satisfy the property for the network as it is NOW and (2) equal the answers obtained from a freshly BUILT network
    (new CRNHyperGraph, new analyzer: shares no object with the history)."""
    fails = []
    for k, (step, H, a, b) in enumerate(_history(case)):
        for who, an in (("re-used analyzer", a), ("new analyzer on the edited input object", b)):
            if an is None:
                if H.edges:
                    fails.append(dict(clause="history-complexes", detail="step %d (%s): ValueError on a network with reactions" % (k, who)))
                continue
            for f in _oracle_on(an, H, step):
                fails.append(dict(clause="history-" + f["clause"], detail="step %d (%s, network edited in place): %s" % (k, who, f["detail"])))
            fresh = impl(step)
            same = _obs(an)
            if _plain(fresh) != _plain(same):
                fails.append(dict(clause="history-stale-state",
                                  detail="step %d: %s answers %r, a freshly built network gives %r" % (k, who, _plain(same), _plain(fresh))))
        if fails:
            break
    return fails[:4]


def _plain(o):
    if isinstance(o, dict) and set(o) == {"__set__"}:
        return ["set"] + sorted(repr(_plain(x)) for x in o["__set__"])
    if isinstance(o, (list, tuple)):
        return [_plain(x) for x in o]
    return o


def _oracle_on(a, H, case, partial=False):
    """The property, checked on the answers stored in analyzer [a] against an independent reference computed from the
    hypergraph H (the network [a] is supposed to describe)."""
    fails = []

    def bad(clause, detail):
        fails.append(dict(clause=clause, detail=detail))
    su = a.summary
    species = sorted(H.species)
    edges = list(H.edges.values())
    vec = lambda side: tuple(int(side.get(s, 0)) for s in species)
    # --- complexes = distinct reactant and product multisets
    want = set()
    pairs = []
    for e in edges:
        y, yp = vec(e.reactants), vec(e.products)
        want |= {y, yp}
        pairs.append((y, yp))
    got = [tuple(int(x) for x in c) for c in a._complexes]
    if len(set(got)) != len(got) or set(got) != want or su.n_complexes != len(want):
        bad("complexes", "complexes %r (n_complexes=%d), expected the %d distinct reactant/product vectors %r over %r"
            % (got, su.n_complexes, len(want), sorted(want), species))
        return fails
    # --- linkage classes = connected components of the complex graph (reference: own union/closure code)
    und, fwd = {}, {}
    for y, yp in pairs:
        und.setdefault(y, set()).add(yp)
        und.setdefault(yp, set()).add(y)
        fwd.setdefault(y, set()).add(yp)
    classes = []
    seen = set()
    for c in sorted(want):
        if c not in seen:
            comp = _reach(und, c)
            seen |= comp
            classes.append(comp)
    if su.n_linkage_classes != len(classes):
        bad("linkage", "n_linkage_classes=%d, the complex graph has %d connected components" % (su.n_linkage_classes, len(classes)))
    import networkx as nx
    got_classes = {frozenset(got[k] for k in comp) for comp in nx.connected_components(a._complex_graph.to_undirected())}
    if got_classes != {frozenset(c) for c in classes}:
        bad("linkage", "components of the stored complex graph differ from the reference classes")
    # --- weak reversibility <-> every class strongly connected
    wr = all(all(comp <= _reach(fwd, u) for u in comp) for comp in classes)
    if bool(su.weakly_reversible) != wr:
        bad("weakly-reversible", "weakly_reversible=%r, reference %r" % (su.weakly_reversible, wr))
    # --- deficiency = n - l - exact rank, never negative
    Smat = [[int(e.products.get(s, 0)) - int(e.reactants.get(s, 0)) for e in edges] for s in species]
    rk = X.rank_frac(Smat)
    delta = len(want) - len(classes) - rk
    if su.stoich_rank != rk:
        bad("rank", "stoich_rank=%d exact=%d" % (su.stoich_rank, rk))
    if su.deficiency != delta or a.as_dict().get("deficiency") != delta:
        bad("deficiency", "deficiency=%r, expected %d - %d - %d = %d" % (su.deficiency, len(want), len(classes), rk, delta))
    if su.deficiency < 0:
        bad("deficiency-nonneg", "negative deficiency %d" % su.deficiency)
    dd = a.as_dict()
    for k in _SUMMARY_KEYS:
        if dd.get(k) != getattr(su, k):
            bad("as-dict", "as_dict()[%r] = %r but summary.%s = %r" % (k, dd.get(k), k, getattr(su, k)))
            break
    if sorted(int(x) for x in dd.get("linkage_deficiencies", [])) != sorted(int(x) for x in (a.linkage_deficiencies or [])):
        bad("as-dict", "as_dict()['linkage_deficiencies'] differs from the linkage_deficiencies property")
    if (su.n_species, su.n_reactions) != (len(species), len(edges)):
        bad("counts", "n_species/n_reactions %r, expected %r" % ((su.n_species, su.n_reactions), (len(species), len(edges))))
    # --- linkage-class deficiencies
    ref_ld = []
    for comp in classes:
        D = [[b - x for x, b in zip(y, yp)] for (y, yp) in set(pairs) if y in comp and yp in comp and y != yp]
        ref_ld.append(len(comp) - 1 - X.rank_frac(D))
    if partial and a.linkage_deficiencies is None:      # the stage has not been run (scripts): nothing is reported
        return fails[:4]
    ld = [int(x) for x in (a.linkage_deficiencies or [])]
    if sorted(ld) != sorted(ref_ld):
        bad("linkage-deficiencies", "linkage deficiencies %r, reference %r" % (ld, ref_ld))
    if sum(ld) > su.deficiency:
        bad("linkage-sum", "sum of linkage deficiencies %d > deficiency %d" % (sum(ld), su.deficiency))
    # --- textbook values
    if "delta" in case and su.deficiency != case["delta"]:
        bad("textbook-deficiency", "deficiency %d, literature value %d" % (su.deficiency, case["delta"]))
    if "wr" in case and bool(su.weakly_reversible) != case["wr"]:
        bad("textbook-weakly-reversible", "weakly_reversible %r, literature value %r" % (su.weakly_reversible, case["wr"]))
    return fails[:4]


def shrink(case, fl):
    if "edits" in case or "script" in case or "mut" in case:
        return case
    cur = dict(case)
    cur.pop("delta", None)
    cur.pop("wr", None)
    clause = fl.get("clause")
    if clause.startswith("textbook"):
        return case

    def still(c):
        try:
            return any(f.get("clause") == clause for f in oracle(c))
        except Exception:
            return False
    changed = True
    while changed:
        changed = False
        for k in range(len(cur["rxns"])):
            cand = dict(cur, rxns=cur["rxns"][:k] + cur["rxns"][k + 1:])
            if cand["rxns"] and still(cand):
                cur, changed = cand, True
                break
        if not changed and cur.get("view", "hyper") != "hyper":
            cand = dict(cur, view="hyper")
            if still(cand):
                cur, changed = cand, True
    cur["name"] = case.get("name", "") + "(shrunk)"
    return cur


def neighbours(case, rng):
    if "edits" in case or "script" in case or "mut" in case:
        return []
    out = []
    for k in range(len(case["rxns"])):
        out.append(dict(case, rxns=case["rxns"][:k] + case["rxns"][k + 1:], name="drop-rxn"))
    return [c for c in out if c["rxns"]]


def _last(case, obs):
    """For a history the last step's observable stands for the case."""
    if "edits" in case and isinstance(obs, list) and obs and isinstance(obs[-1], list):
        return obs[-1]
    return obs


def nontrivial(case, obs):
    if "mut" in case:
        return isinstance(obs, list) and len(obs) > 2 and len(obs[2]) >= 2
    if "script" in case:
        return isinstance(obs, list) and any(isinstance(o, list) and len(o) == 2 and o[1][0] and len(o[1][0][0][0]) >= 2 for o in obs)
    obs = _last(case, obs)
    return isinstance(obs, list) and len(obs) > 4 and len(obs[1]) >= 2


def distribution(cases, obss):
    nc, nl, dl, wr, reg = {}, {}, {}, {}, {}
    err = 0
    ldpos = 0
    big = hist = 0
    scripts, calls, raw = 0, {}, 0
    for c, o in zip(cases, obss):
        if "mut" in c:
            raw += 1
            continue
        if "script" in c:
            scripts += 1
            if isinstance(o, list) and all(isinstance(x, list) and len(x) == 2 for x in o):
                for (res, _d), sc in zip(o, [x for x in c["script"] if x[0] == "c"]):
                    k = "%s:%s" % (sc[1], {0: "ok", 1: "bool", 2: "ValueError", 3: "RuntimeError", 4: "IndexError"}.get(res[0], "?"))
                    calls[k] = calls.get(k, 0) + 1
            else:
                err += 1
            continue
        o = _last(c, o)
        if "edits" in c:
            hist += 1
        if len({x for _, _, l, r in c["rxns"] for x, _ in l + r}) >= 10:
            big += 1
        if not (isinstance(o, list) and len(o) == 12):
            err += 1
            continue
        s = o[4]
        nc[str(s[2])] = nc.get(str(s[2]), 0) + 1
        nl[str(s[3])] = nl.get(str(s[3]), 0) + 1
        dl[str(s[5])] = dl.get(str(s[5]), 0) + 1
        wr[str(s[6])] = wr.get(str(s[6]), 0) + 1
        reg[str(o[7])] = reg.get(str(o[7]), 0) + 1
        if any(x > 0 for x in o[5]):
            ldpos += 1
    return dict(n_complexes=nc, n_linkage_classes=nl, deficiency=dl, weakly_reversible=wr, regular=reg,
                some_class_deficiency_positive=ldpos, errors=err, histories=hist, at_least_10_species=big,
                api_scripts=scripts, api_script_calls=calls, raw_graphs=raw)


# ------------------------------------------------------------------ generators

def gen_cases(tier, rng):
    cases = []
    cases += G.textbook()
    if tier == "quick":
        cases += G.exhaustive_alphabet(2, rng, "exh-alphabet<=2")
        cases += G.sample_alphabet(3, 400, rng, "sample-alphabet-3")
        cases += G.coeff_sweep(2, rng, "coeff-sweep-sample", limit=300)
        nrand, ncons = 400, 120
    else:
        cases += G.exhaustive_alphabet(3, rng, "exh-alphabet<=3")
        cases += G.coeff_sweep(2, rng, "coeff{0,1,2}<=2-sample", limit=20000)
        nrand, ncons = 6000, 1500
    for _ in range(nrand):
        cases.append(G.random_net(rng, max_s=rng.choice([6, 6, 7]), max_r=6, maxc=rng.choice([2, 2, 3])))
    for _ in range(ncons):
        cases.append(G.conservative_net(rng))
    cases += ADV.bridged_cycles(rng, nrand=30 if tier == "quick" else 300)
    cases += ADV.big_nets(rng, count=40 if tier == "quick" else 400)
    cases += ADV.histories(rng, nrand=50 if tier == "quick" else 500)
    cases += ADV.same_shape_histories(rng, nrand=40 if tier == "quick" else 400)
    cases += ADV.degenerate(rng)
    cases += ADV.api_surface(rng)
    cases += ADV.encodings(rng, 40 if tier == "quick" else 600)
    cases += API.fixed() + API.random_scripts(rng, 120 if tier == "quick" else 1500)
    cases += API.raw_cases(rng, 60 if tier == "quick" else 1500)
    cases += API.exhaustive_scripts() + API.exhaustive_attributes() + API.exhaustive_arc_attributes()
    cases += ADV.large(rng, sizes=(24, 100) if tier == "quick" else (24, 40, 64, 100, 128))
    cases.append(API.hundred_classes(100))
    cases += ADV.multi_class(rng, count=24 if tier == "quick" else 240)
    cases += ADV.ill_conditioned(rng, count=24 if tier == "quick" else 240)
    cases.append(dict(kind="degenerate", rxns=[], iso=[], view="hyper"))
    import os
    lim = os.environ.get("VERIF_C19_SAMPLE")          # development aid: a seeded subsample of the tier's population
    if lim and len(cases) > int(lim):
        cases = rng.sample(cases, int(lim))
    return cases
