"""C07 — isomorphism verdicts, embeddings and pre-filters (GraphMatcherEngine, SubgraphMatch, graph_morphism).

case = {"kind", "graphs": [G, ...], "engines": [{"na": [...], "ea": [...], "wl": bool, "mm": None|int, optional "omit" / "none_lists" /
        "backend"}, ...], "queries": [q, ...]}   -- a HISTORY: graph objects and engines are created once and shared by all queries
q = ["iso",  e, i, j]                  GraphMatcherEngine.isomorphic(g_i, g_j)
  | ["maps", e, host, pattern]         GraphMatcherEngine.get_mappings(g_host, g_pattern)
  | ["pre",  e, host, pattern]         GraphMatcherEngine._pre_check(g_host, g_pattern)
  | ["sub",  variant, child, parent, use_filter, check_type, [[name, default], ...], edge_attribute|None, comparators|None, extras]
                                       variant "sm" = SubgraphMatch.subgraph_isomorphism, "is" = SubgraphMatch.is_subgraph,
                                       "gm" = graph_morphism.subgraph_isomorphism ("smp" / "isp" / "gmp": all options positionally);
                                       every option as the caller writes it (check_type any string, use_filter any truthy / falsy value,
                                       extras: names / defaults of different lengths, back-end name, comparators explicitly None)
  | ["giso", i, j] | ["giso0", i, j]   graph_morphism.graph_isomorphism(g_i, g_j, use_defaults=True / False)
  | ["fgi", i, j, use_defaults, fast]  graph_morphism.find_graph_isomorphism
  | ["ctor", {keyword: raw value}]     GraphMatcherEngine(**keywords): the normalised options read back, or the exception class; available_backends()
  | ["obj", "iso"|"maps", e, i|None, j|None]   an engine method handed a non-Graph argument (None): TypeError before anything else
  | ["fgit", [class1, class2], i, j, use_defaults, fast]   find_graph_isomorphism on two networkx graph classes (different classes: None)
  | ["qpf", host, pattern, node_attrs, edge_attrs, threshold]   SubgraphSearchEngine._quick_pre_filter, and find_subgraph_mappings(strategy="all")
                                       with pre_filter off and on (numbers of mappings)
  | ["edit", i, k]                     the caller edits graph object i in place into graph value k
  | ["new", j, i, mode, k]             object j is replaced by a NEW object derived from object i (copy / subgraph().copy() / relabel_nodes /
                                       Graph(g) / deepcopy / a fresh Graph()) and edited by small steps into graph value k
Observable: one entry per query in history order — the answer AND the intermediate values (iso: [verdict, [host index, pattern index,
_pre_check's answer, GraphMatcher method that decided]]; maps: [count, mapping set or [] when the set is not determined by the
specification (max_mappings set, or the single-call isomorphism shortcut), [_pre_check's answer, method]]; sub: [answer or [99, exception
code], method (0 = no matcher was built: the filter rejected)]; fgi: [a mapping was returned, its size]) — then the key set of the class-level
WL cache after EVERY query, its content after the history ({(graph index, node_attrs) -> colour histogram}), and the flag "no query
modified a graph object".  The intermediate values come from a recording subclass of networkx's GraphMatcher that the three anchored
modules are made to build while impl() runs (behaviour unchanged, restored afterwards) and a reporting wrapper of _pre_check.
"""
import itertools
import json

from ..coqrun import cbool, clist, copt
from ..tok import S
from ..gen import graphs as G

PID = "C07"
# Elaborating the case literals dominates the model stage (~0.3 ms per query, numerals are the expensive tokens): small numbers are
# written as constants defined once per shard, and the (label names, edge attribute) pairs of the boolean subgraph queries are
# let-bound once per case.  Plumbing only: the evaluated term is the same [run ...] / [run_h ...].
COQ_HEADER = ("From Coq Require Import List NArith.\nFrom SK Require Import lib.Tok lib.LGraph model.C07_Model model.C07_MCCS.\n"
              "Import ListNotations.\n"
              + "".join("Definition n%d := %d%%nat.\n" % (i, i) for i in range(10))
              + "".join("Definition k%d := %d%%N.\n" % (i, i) for i in range(200))
              + "Definition ZT : Type := (list N * list N * eattr_raw * option cmp * option cmp)%type.\n"
              + "Definition SS {X : Type} (x : X) : option (option X) := Some (Some x).\n"
              + "Definition EO (na ea : option (option (list N))) (wl : option bool) (mm : option (option N)) : engine := eng_of (ER None na ea wl mm).\n"
              + "Definition QE (fn : sub_fn) (c p : nat) (f : bool) (ct be : N) (z : ZT) : query := "
                "QEntry fn c p (SO (fst (fst (fst (fst z)))) (snd (fst (fst (fst z)))) (snd (fst (fst z))) f ct (snd (fst z)) (snd z) be).\n")
SHARD = 120
# quick tier: both stages must end with a verdict inside the 900 s limit of the evaluation sandbox (thorough: x4 by main.py)
IMPL_TIMEOUT = 300
COQ_TIMEOUT = 500


def cN(n):
    assert isinstance(n, int) and n >= 0
    return "k%d" % n if n < 200 else "%d%%N" % n


def cnat(n):
    assert 0 <= n < 5000
    return "n%d" % n if n < 10 else "%d%%nat" % n

RULE = ("histories of queries (isomorphic / get_mappings / _pre_check / the three boolean subgraph entry points with their options as the "
        "caller writes them / graph_isomorphism / find_graph_isomorphism / the engine constructor) by several engines with different "
        "attribute selections and filter flags sharing graph objects; all pairs of iso classes of small labelled graphs (each also "
        "against a relabelled copy), random pairs <= 8 nodes with relabelled copies, one-edit neighbours and planted sub-patterns, "
        "exhaustive short query sequences, graphs as SynKit's own converters write them (list- / tuple-valued attributes, ITS graphs), "
        "calls of the common-subgraph helpers; a case is non-trivial when its answers contain both a positive and a negative verdict; "
        "distinct = distinct case contents")
EXHAUSTIVE = {"quick": True, "thorough": True}
EXPLANATION = ("Exhaustive sub-space (both tiers): all unordered pairs of iso classes <= 3 nodes over 2 elements x {absent, order 1, "
               "order 2} (plus every class against a relabelled copy of itself), all ordered pairs <= 2 nodes with hcount {0,1}, all ordered "
               "pairs of a zoo of 21 degenerate graphs (empty graph, single nodes, attributes absent on some nodes / edges only, falsy "
               "values), and all query sequences of length <= 4 (isomorphic) / 2 (isomorphic + get_mappings) over 3 graph objects x 2 "
               "engines and of length <= 3 over 3 engines whose attribute selections are a permutation / a subset of each other; every "
               "filter flag, induced and monomorphism mode, every facade by keyword and positionally, several attribute selections, "
               "queries issued in PRNG order on shared graph objects.  The rest (3-node hcount pairs, random pairs <= 8 nodes, 10-14 node "
               "pairs, long histories, histories with in-place edits, raw option values, constructor keyword sets, common-subgraph calls, "
               "SynKit / ITS graphs, corpus reaction centres in their ITS graphs) is sampled.  Thorough only: ALL 13 835 unordered pairs of "
               "4-node iso classes with equal element multiset and equal bond count (every class also against a renumbered copy of itself); "
               "the remaining pairs of 4-node classes are sampled.")
TRUSTED_BASE = [
    "Coq 8.16.1 kernel + vm_compute (no native_compute)",
    "hand-written model coq/model/C07_Model.v tied to graph_matcher.py / subgraph_matcher.py (SubgraphMatch) / graph_morphism.py by the per-run correspondence",
    "harness encoder harness/props/C07.py (attribute interning; absent attribute = None; hcount numeric)",
    "networkx VF2 (is_isomorphic, subgraph_is_isomorphic, subgraph_is_monomorphic, subgraph_isomorphisms_iter) decides / enumerates "
    "exactly the label-preserving (induced) monomorphisms — premises vf2b_contract / enum_contract of the theorems, proved for the "
    "verified instances has_mono / monos_g (lib/Mono.v) that the model run uses, and monitored on every case by comparing networkx's "
    "answers with them",
    "CPython WeakKeyDictionary keyed by graph object identity (modelled as a map keyed by the graph's index in the case; a replaced "
    "object loses its entries: HNew / drop_obj)",
    "the recording subclass of networkx's GraphMatcher and the reporting wrapper of _pre_check that impl() installs to observe "
    "intermediate values leave the behaviour unchanged (the property oracle runs on the untouched modules)",
    "proved libraries lib/Mono.v (enumerator), lib/Reach.v (saturation), lib/C01_GraphLemmas.v (induced subgraphs)",
]
ASSUMPTIONS = ["simple undirected graphs without self-loops (gwf: distinct node ids, edges join distinct nodes, one attribute dict per unordered pair)",
               "hcount, when present, is a non-negative int",
               "attribute values are JSON scalars or (nested) lists of them compared with Python ==; values of one attribute are mutually "
               "comparable and of one kind (absent is allowed; a list and a tuple with the same items are not told apart by the encoder)",
               "graph objects are not mutated in place after a WL-FILTERING engine has compared them at equal order (the class documents "
               "that its histogram cache goes stale otherwise); engines without the filter, edits of objects without cache entries and "
               "new / derived objects are covered (C07_edits_wl_off, C07_safe_edits, C07_new_objects)",
               "custom node/edge comparators of the subgraph tests: the modelled family (eq, accept-all, symmetric wildcard, pattern-side wildcard); "
               "matcher callables of graph_isomorphism / find_graph_isomorphism are not used (default matchers)",
               "get_mappings non-emptiness: max_mappings != 0"]
TESTED_NOT_PROVED = ["networkx VF2 meets vf2b_contract / enum_contract / enum_complete (compared with the verified enumerator on every case)",
                     "WHICH mappings the equal-size shortcut (gm.mapping) and a max_mappings slice return: the theorems cover any VF2 order "
                     "(C07_embeddings: each is valid; C07_max_mappings_slice: prefix of the unlimited result), the correspondence compares "
                     "their count, the oracle their validity",
                     "WHICH isomorphism find_graph_isomorphism returns (C07_fgi_mapping: whichever it is, it is an isomorphism G1 -> G2; compared by size, "
                     "judged by the oracle)",
                     "maximum_connected_common_subgraph / heuristics_MCCS, rule_subgraph_morphism, mod/rule back-end, DiGraph / MultiGraph "
                     "inputs of find_graph_isomorphism: outside the property text / not installed"]
TECHNIQUE = "Coq 8.16 proof about an executable Gallina model + per-run correspondence (vm_compute digest vs implementation) + independent brute-force property oracle"
DESIGN_REF = "DESIGN.md section 5 C07, section 7 rows 2-5; notes/C07.md"
LEVEL_TEXT = ("Machine-checked proof (Coq, all inputs, Closed under the global context) over an executable model of GraphMatcherEngine "
              "(with its WL-histogram cache as explicit state), SubgraphMatch.subgraph_isomorphism / is_subgraph and "
              "graph_morphism.{graph_isomorphism, subgraph_isomorphism}: isomorphic = existence of a bijection preserving adjacency, the "
              "selected attributes and hcount host >= pattern (C07_iso_verdict, C07_comparators); invariance under injective renaming of "
              "either graph and symmetry for equal/absent hcounts; boolean subgraph test = induced / monomorphic containment; "
              "get_mappings returns only valid pattern->host embeddings and at least one whenever the pattern is contained, any sizes; "
              "every pre-filter (node count, edge count, WL-1 histogram containment on equal orders, node-label / edge-label existence) "
              "is a necessary condition for containment, hence switching it changes no verdict and no result list; for every query "
              "history each answer equals the fresh engine's answer (cache invariant); find_graph_isomorphism / graph_isomorphism verdicts (fast "
              "invariant check is necessary) and the mapping it returns is an isomorphism G1 -> G2; unlimited get_mappings returns every "
              "embedding once, max_mappings=k its first k; histories with in-place edits for non-filtering engines; the option layer of "
              "the three boolean subgraph entry points as the caller passes them (zipped name / default lists, edge attribute None / '' / "
              "name, check_type strings, comparators possibly None, the facade is_subgraph and its back-end names) and of the engine "
              "constructor (C07_entry_spec, C07_entry_filter_transparent, C07_is_subgraph_facade, C07_check_type_spellings, C07_engine_ctor).  "
              "VF2 enters as explicit premises, proved for "
              "the verified enumerator the model run uses.  Model tied to the code by per-query comparison of answers AND intermediate values "
              "(which graphs _pre_check receives and what it answers, whether a GraphMatcher is built, with which argument order, which method "
              "decides, the cache key set after every query) on exhaustive small scopes, random pairs and query histories on every run.")
LEVEL_NOTE = ("Trusted: Coq kernel, the model, the harness encoder, the VF2 contracts (monitored, networkx is not verified). "
              "Theorems assume well-formed simple graphs and no in-place edit of an object that has cache entries (C07_safe_edits is the exact "
              "boundary).  The clause 'a pre-filter never changes a result set' is proved for wl1_filter, use_filter and the fast invariant check; "
              "for the opt-in estimate guard of SubgraphSearchEngine._quick_pre_filter it is REFUTED (C07_quick_pre_filter_refuted, known finding) and "
              "proved below the guard (C07_quick_pre_filter_transparent_below_guard).")

KEYS = {"hcount": 0, "element": 1, "charge": 2, "aromatic": 3, "order": 4, "atom_map": 5, "neighbors": 6, "typesGH": 7}


# ------------------------------------------------------------------ implementation adapter

def _engine(spec):
    """spec["omit"]: constructor keywords left out (the spec then carries the DEFAULT value of that option)."""
    from synkit.Graph.Matcher.graph_matcher import GraphMatcherEngine
    kw = dict(node_attrs=list(spec["na"]), edge_attrs=list(spec["ea"]), wl1_filter=spec["wl"], max_mappings=spec["mm"])
    for k in spec.get("omit", ()):
        assert {"node_attrs": spec["na"] == [], "edge_attrs": spec["ea"] == [], "wl1_filter": spec["wl"] is False,
                "max_mappings": spec["mm"] == 1}[k], "omitted option must carry its default"
        del kw[k]
    if spec.get("none_lists"):            # node_attrs=None / edge_attrs=None instead of []
        for k in ("node_attrs", "edge_attrs"):
            if k in kw and kw[k] == []:
                kw[k] = None
    if "backend" in spec:                 # another spelling of "nx" (the constructor lower-cases it)
        kw["backend"] = spec["backend"]
    return GraphMatcherEngine(**kw)


def _ctor_call(kw):
    """GraphMatcherEngine(**kw) with raw keyword values: the normalised options read back from the object, or [99, code]."""
    from synkit.Graph.Matcher.graph_matcher import GraphMatcherEngine
    try:
        e = GraphMatcherEngine(**kw)
    except (ValueError, ImportError) as ex:
        return [99, ERR_CODES[type(ex).__name__], [list(b.encode()) for b in GraphMatcherEngine.available_backends()]]
    assert e.backend == "nx" and isinstance(e.wl1_filter, bool)
    return [[_key(k, None) for k in e.node_attrs], [_key(k, None) for k in e.edge_attrs], e.wl1_filter,
            [] if e.max_mappings is None else [e.max_mappings], [list(b.encode()) for b in e.available_backends()]]


QPF_KNOWN_KEY = "C07:quick_pre_filter:estimate-guard:chain6-in-chain12"


def _qpf_call(q, gs):
    """["qpf", host, pattern, node_attrs, edge_attrs, threshold]: SubgraphSearchEngine._quick_pre_filter and
    find_subgraph_mappings(strategy="all") with the pre-filter off and on -> [skip?, number of mappings without, with]."""
    from synkit.Graph.Matcher.subgraph_matcher import SubgraphSearchEngine as SSE
    H, P, na, ea, thr = gs[q[1]], gs[q[2]], list(q[3]), list(q[4]), q[5]
    skip = bool(SSE._quick_pre_filter(H, P, na, thr))
    off = SSE.find_subgraph_mappings(H, P, node_attrs=na, edge_attrs=ea, strategy="all", threshold=thr, pre_filter=False)
    on = SSE.find_subgraph_mappings(H, P, node_attrs=na, edge_attrs=ea, strategy="all", threshold=thr, pre_filter=True)
    return [skip, len(off), len(on)]


def _qpf_guard_fires(H, P, na, thr):
    """Independent reference: does the documented estimate guard (running product of the candidate counts > threshold * 1e4) decide?"""
    est = 1
    for p in P.nodes:
        cnt = 0
        for h in H.nodes:
            if all(H.nodes[h].get(a) == P.nodes[p].get(a) for a in na) and H.nodes[h].get("hcount", 0) >= P.nodes[p].get("hcount", 0) \
                    and H.degree(h) >= P.degree(p):
                cnt += 1
        if cnt == 0:
            return False
        est *= cnt
        if est > thr * 10000:
            return True
    return False


GRAPH_CLASSES = ["Graph", "DiGraph", "MultiGraph", "MultiDiGraph"]


def _obj_call(q, gs, engs):
    """["obj", "iso"|"maps", e, i|None, j|None]: an engine method called with a non-Graph argument (None stands for a string)."""
    a = gs[q[3]] if q[3] is not None else "not a graph"
    b = gs[q[4]] if q[4] is not None else "not a graph"
    try:
        if q[1] == "maps":
            return len(engs[q[2]].get_mappings(a, b))
        return bool(engs[q[2]].isomorphic(a, b))
    except TypeError:
        return [99, 1]


def _fgit_call(q, gs):
    """["fgit", [class1, class2], i, j, use_defaults, fast]: find_graph_isomorphism on two networkx graph classes."""
    import networkx as nx
    from synkit.Graph.Matcher import graph_morphism as GM
    g1, g2 = getattr(nx, q[1][0])(gs[q[2]]), getattr(nx, q[1][1])(gs[q[3]])
    return GM.find_graph_isomorphism(g1, g2, use_defaults=q[4], fast_invariant_check=q[5]) is not None



def _sub_opts(q):
    """Raw options of a boolean-subgraph query.  q[9] (optional dict): "nn" / "nd" = names and defaults as two separate lists (may differ
    in length: the code zips them), "backend" (is_subgraph only), "cmp_none" (comparators passed explicitly as None)."""
    names = q[6]
    ex = q[9] if len(q) > 9 else {}
    nn = list(ex["nn"]) if "nn" in ex else [a for a, _ in names]
    nd = list(ex["nd"]) if "nd" in ex else [d for _, d in names]
    return nn, nd, ex


def _sub_call(q, gs):
    """variant: sm / is / gm by keyword; smp / isp / gmp the same entry points with every option passed POSITIONALLY."""
    from synkit.Graph.Matcher.subgraph_matcher import SubgraphMatch
    from synkit.Graph.Matcher import graph_morphism as GM
    _, variant, c, p, filt, ctype, names, eattr = q[:8]
    nn, nd, ex = _sub_opts(q)
    backend = ex.get("backend", "nx")
    if "omit" in ex:
        # options left out altogether: the functions' own (list-valued!) default arguments are used; the query carries their values
        dflt = {"node_label_names": ["element", "charge"], "node_label_default": ["*", 0], "edge_attribute": "order", "use_filter": False,
                "check_type": "induced"}
        have = {"node_label_names": nn, "node_label_default": nd, "edge_attribute": eattr, "use_filter": filt, "check_type": ctype}
        for k in ex["omit"]:
            assert have[k] == dflt[k], "an omitted option must carry its default"
        kw = {k: v for k, v in have.items() if k not in ex["omit"]}
        f = {"s": SubgraphMatch.subgraph_isomorphism, "i": SubgraphMatch.is_subgraph, "g": GM.subgraph_isomorphism}[variant[0]]
        return f(gs[c], gs[p], **kw)
    if (len(q) > 8 and q[8] is not None) or ex.get("cmp_none"):            # custom comparators (only the two subgraph_isomorphism functions take them)
        cm = q[8] if len(q) > 8 and q[8] is not None else ["eq", "eq"]
        nc, ec = _comparator(cm[0]), _comparator(cm[1])
        f = SubgraphMatch.subgraph_isomorphism if variant.startswith("sm") else GM.subgraph_isomorphism
        if variant.endswith("p"):
            return f(gs[c], gs[p], nn, nd, eattr, filt, ctype, nc, ec)
        return f(gs[c], gs[p], node_label_names=nn, node_label_default=nd, edge_attribute=eattr, use_filter=filt, check_type=ctype,
                 node_comparator=nc, edge_comparator=ec)
    if variant == "sm":
        return SubgraphMatch.subgraph_isomorphism(gs[c], gs[p], node_label_names=nn, node_label_default=nd, edge_attribute=eattr,
                                                  use_filter=filt, check_type=ctype)
    if variant == "smp":
        return SubgraphMatch.subgraph_isomorphism(gs[c], gs[p], nn, nd, eattr, filt, ctype)
    if variant == "is":
        return SubgraphMatch.is_subgraph(gs[c], gs[p], node_label_names=nn, node_label_default=nd, edge_attribute=eattr,
                                         use_filter=filt, check_type=ctype, backend=backend)
    if variant == "isp":
        return SubgraphMatch.is_subgraph(gs[c], gs[p], nn, nd, eattr, filt, ctype, backend)
    if variant == "gmp":
        return GM.subgraph_isomorphism(gs[c], gs[p], nn, nd, eattr, filt, ctype)
    return GM.subgraph_isomorphism(gs[c], gs[p], node_label_names=nn, node_label_default=nd, edge_attribute=eattr,
                                   use_filter=filt, check_type=ctype)


ERR_CODES = {"TypeError": 1, "ImportError": 2, "ValueError": 3}


def _sub_result(q, gs):
    """The entry point's answer, or [99, code] for the exception classes that are part of its contract (None as edge attribute in
    SubgraphMatch, an uninstalled / unknown back-end of is_subgraph)."""
    try:
        return bool(_sub_call(q, gs))
    except (TypeError, ImportError, ValueError) as ex:
        return [99, ERR_CODES[type(ex).__name__]]


def _sub_odd(q):
    """Option values outside the documented ones (judged by the correspondence and for filter neutrality, not against the definition)."""
    nn, nd, ex = _sub_opts(q)
    return q[5] not in ("induced", "mono", "monomorphism") or len(nn) != len(nd) or ex.get("backend", "nx") != "nx" or \
        (q[7] is None and not q[1].startswith("gm"))


# ------------------------------------------------------------------ intermediate values: which matcher is built, which method decides

class _Rec:
    events = None


def _rec_matcher_class():
    from networkx.algorithms.isomorphism import GraphMatcher

    class RecGM(GraphMatcher):
        def __init__(self, G1, G2, node_match=None, edge_match=None):
            self._rec = None
            if _Rec.events is not None:
                self._rec = ["gm", id(G1), id(G2), 0]
                _Rec.events.append(self._rec)
            super().__init__(G1, G2, node_match=node_match, edge_match=edge_match)

        def _note(self, code):
            if self._rec is not None and self._rec[3] == 0:
                self._rec[3] = code

        def is_isomorphic(self):
            self._note(1)
            return super().is_isomorphic()

        def subgraph_is_isomorphic(self):
            self._note(2)
            return super().subgraph_is_isomorphic()

        def subgraph_isomorphisms_iter(self):
            self._note(3)
            return super().subgraph_isomorphisms_iter()

        def subgraph_is_monomorphic(self):
            self._note(4)
            return super().subgraph_is_monomorphic()
    return RecGM


class _Recording:
    """Context manager: the three anchored modules build a recording subclass of networkx's GraphMatcher, and _pre_check reports its
    arguments and answer.  Behaviour is unchanged; everything is restored on exit."""

    def __enter__(self):
        import networkx.algorithms.isomorphism as NXI
        from synkit.Graph.Matcher import graph_matcher as M1, subgraph_matcher as M2, graph_morphism as M3
        # (find_graph_isomorphism and nx.is_isomorphic look the class up in networkx's own namespace at call time)
        self.saved = [(M1, "_NXGraphMatcher", M1._NXGraphMatcher), (M2, "GraphMatcher", M2.GraphMatcher), (M3, "GraphMatcher", M3.GraphMatcher),
                      (NXI, "GraphMatcher", NXI.GraphMatcher)]
        cls = _rec_matcher_class()
        for mod, name, _ in self.saved:
            setattr(mod, name, cls)
        self.eng = M1.GraphMatcherEngine
        self.orig_pre = M1.GraphMatcherEngine.__dict__["_pre_check"]
        orig = self.orig_pre

        def _pre_check(this, host, pattern):
            r = orig(this, host, pattern)
            if _Rec.events is not None:
                _Rec.events.append(["pre", id(host), id(pattern), bool(r)])
            return r
        M1.GraphMatcherEngine._pre_check = _pre_check
        _Rec.events = []
        return self

    def __exit__(self, *a):
        for mod, name, val in self.saved:
            setattr(mod, name, val)
        self.eng._pre_check = self.orig_pre
        _Rec.events = None
        return False


def _trace(q, gs):
    """The intermediate values of the last query, from the recorded events (graph objects as indices of the case)."""
    idx = {id(g): i for i, g in enumerate(gs)} if isinstance(gs, list) else {id(g): i for i, g in gs.items()}
    ev, _Rec.events = _Rec.events, []
    pre = [e for e in ev if e[0] == "pre"]
    gm = [e for e in ev if e[0] == "gm"]
    k = q[0]
    if k == "fgi":
        return len(gm) == 1 if len(gm) <= 1 else [1000 + len(gm)]
    if k not in ("iso", "maps", "sub"):
        return None
    if len(gm) > 1 or len(pre) > 1:
        return [1000 + len(gm), len(pre)]            # never equals a model value
    if k == "iso":
        if len(pre) != 1:
            return [1001]
        h, p, ok = idx.get(pre[0][1], 777), idx.get(pre[0][2], 777), pre[0][3]
        if not gm:
            return [h, p, int(ok), 0]
        good = (gm[0][1], gm[0][2]) == (pre[0][2], pre[0][1])          # GraphMatcher(smaller = pattern, larger = host)
        return [h, p, int(ok), gm[0][3] if good else 100 + gm[0][3]]
    if k == "maps":
        if len(pre) != 1 or (pre[0][1], pre[0][2]) != (id(gs[q[2]]), id(gs[q[3]])):
            return [1002]
        if not gm:
            return [int(pre[0][3]), 0]
        good = (gm[0][1], gm[0][2]) == (id(gs[q[2]]), id(gs[q[3]]))    # GraphMatcher(host, pattern)
        return [int(pre[0][3]), gm[0][3] if good else 100 + gm[0][3]]
    if k == "sub":
        if not gm:
            return 0
        good = (gm[0][1], gm[0][2]) == (id(gs[q[3]]), id(gs[q[2]]))    # GraphMatcher(parent, child)
        return gm[0][3] if good else 100 + gm[0][3]
    return None


def _comparator(spec):
    """'eq' -> None (the default operator.eq), 'any' -> accept everything, ['wild', v] -> equal or either side is v,
    ['pwild', v] -> equal or the PATTERN (second argument) is v.  Called as cmp(parent value, child value)."""
    if spec == "eq":
        return None
    if spec == "any":
        return lambda a, b: True
    kind, v = spec
    if kind == "wild":
        return lambda a, b: a == b or a == v or b == v
    return lambda a, b: a == b or b == v


def _cmp_eval(spec, a, b):
    f = _comparator(spec)
    return a == b if f is None else f(a, b)


def _edit_in_place(g, spec):
    """Make the graph OBJECT g equal to the graph value spec (same object identity: caches keyed by object survive)."""
    g.clear()
    for n, a in spec["nodes"]:
        g.add_node(n, **a)
    for u, v, a in spec["edges"]:
        g.add_edge(u, v, **a)


def _derive(g, mode):
    """A NEW graph object made from an existing one the way callers do it (everything networkx carries over comes along)."""
    import copy
    import networkx as nx
    if mode == "copy":
        return g.copy()
    if mode == "sub":
        return g.subgraph(list(g.nodes)).copy()
    if mode == "relabel":
        return nx.relabel_nodes(g, {n: n for n in g.nodes}, copy=True)
    if mode == "class":
        return nx.Graph(g)
    if mode == "deepcopy":
        return copy.deepcopy(g)
    assert mode == "fresh"
    return nx.Graph()


def _edit_fine(g, spec):
    """Make the object g equal to the graph value spec with the small edits a caller makes (no clear(): whatever rides on the object
    stays): nodes / edges removed, added, attribute dicts overwritten."""
    want = [n for n, _ in spec["nodes"]]
    for n in list(g.nodes):
        if n not in want:
            g.remove_node(n)
    for n, a in spec["nodes"]:
        if n in g:
            d = g.nodes[n]
            d.clear()
            d.update(a)
        else:
            g.add_node(n, **a)
    wanted = {frozenset((u, v)) for u, v, _ in spec["edges"]}
    for u, v in list(g.edges):
        if frozenset((u, v)) not in wanted:
            g.remove_edge(u, v)
    for u, v, a in spec["edges"]:
        if g.has_edge(u, v):
            d = g[u][v]
            d.clear()
            d.update(a)
        else:
            g.add_edge(u, v, **a)
    if list(g.nodes) != want:            # (the generators keep the node order; otherwise rebuild)
        _edit_in_place(g, spec)


def _new_object(gs, q, case):
    """["new", j, i, mode, k]: object j is replaced by a new object derived from object i and edited into graph value k."""
    g = _derive(gs[q[2]], q[3])
    _edit_fine(g, case["graphs"][q[4]])
    gs[q[1]] = g


def _determined(spec, h, p):
    """Is the get_mappings result SET fixed by the specification (all induced embeddings)?"""
    return spec["mm"] is None and not (h.number_of_nodes() == p.number_of_nodes() and h.number_of_edges() == p.number_of_edges())


def _run_query(q, gs, engs, specs):
    from synkit.Graph.Matcher import graph_morphism as GM
    k = q[0]
    if k == "ctor":
        return _ctor_call(q[1])
    if k == "qpf":
        return _qpf_call(q, gs)
    if k == "obj":
        return _obj_call(q, gs, engs)
    if k == "fgit":
        return _fgit_call(q, gs)
    if k == "iso":
        return bool(engs[q[1]].isomorphic(gs[q[2]], gs[q[3]]))
    if k == "pre":
        return bool(engs[q[1]]._pre_check(gs[q[2]], gs[q[3]]))
    if k == "maps":
        return engs[q[1]].get_mappings(gs[q[2]], gs[q[3]])
    if k == "sub":
        return _sub_result(q, gs)
    pos = (q[1] + q[2]) % 2 == 1          # helpers called with every option POSITIONALLY for odd index sums, by keyword otherwise
    if k == "giso":
        if pos:
            return bool(GM.graph_isomorphism(gs[q[1]], gs[q[2]], None, None, True))
        return bool(GM.graph_isomorphism(gs[q[1]], gs[q[2]], use_defaults=True))
    if k == "giso0":                      # use_defaults=False, no matchers: structure only
        if pos:
            return bool(GM.graph_isomorphism(gs[q[1]], gs[q[2]], None, None, False))
        return bool(GM.graph_isomorphism(gs[q[1]], gs[q[2]]))
    if k == "fgi":                        # ["fgi", i, j, use_defaults, fast_invariant_check] -> mapping or None ({} for two empty graphs)
        if pos:
            return GM.find_graph_isomorphism(gs[q[1]], gs[q[2]], None, None, q[3], q[4])
        if q[3] is True and q[4] is True:       # both at their defaults: left out
            return GM.find_graph_isomorphism(gs[q[1]], gs[q[2]])
        return GM.find_graph_isomorphism(gs[q[1]], gs[q[2]], use_defaults=q[3], fast_invariant_check=q[4])
    raise AssertionError(k)


def _obs(q, r, gs, specs, trace=None):
    if q[0] == "fgi":
        return [r is not None, len(r) if r is not None else 0, trace]
    if q[0] in ("ctor", "obj", "qpf"):
        return list(r) if isinstance(r, list) else r
    if q[0] == "iso":
        return [r, trace]
    if q[0] == "sub":
        return [list(r) if isinstance(r, list) else r, trace]        # (a copy: the caller spoils what it was handed)
    if q[0] != "maps":
        return r
    det = _determined(specs[q[1]], gs[q[2]], gs[q[3]])
    return [len(r), S([S([[a, b] for a, b in m.items()]) for m in r]) if det else S([]), trace]


def _cache_keys(case, gs, dyn):
    """Key set of the class-level WL cache for the graph objects of this case (observed after every query)."""
    from synkit.Graph.Matcher.graph_matcher import GraphMatcherEngine
    out = []
    for i, g in enumerate(gs):
        for attrs in (GraphMatcherEngine._wl_cache.get(g) or {}):
            out.append([i, [_key(k, dyn) for k in attrs]])
    return S(out)


def _cache_obs(case, gs):
    """Content of the class-level WL cache for the graph objects of this case: {(graph index, node_attrs): histogram}, values
    interned exactly as coq_case does (neighbour labels as a multiset: Python sorts raw values, the model sorts codes)."""
    from synkit.Graph.Matcher.graph_matcher import GraphMatcherEngine
    codes, dyn = _intern(case)

    def lab(attrs, tup):
        return [[] if v is None else [v if a == "hcount" else codes(v)] for a, v in zip(attrs, tup)]
    out = []
    for i, g in enumerate(gs):
        per = GraphMatcherEngine._wl_cache.get(g)
        for attrs, h in (per or {}).items():
            ent = [[[lab(attrs, b), S([lab(attrs, nb) for nb in neigh])], cnt] for (b, neigh), cnt in h.items()]
            out.append([i, [_key(k, dyn) for k in attrs], S(ent)])
    return S(out)


def _spoil(r):
    """The caller edits what an earlier call returned (a later answer must not depend on it)."""
    if isinstance(r, list):
        for m in r:
            if isinstance(m, dict):
                m.clear()
                m["spoiled"] = -1
        r.clear()
    elif isinstance(r, dict):
        r.clear()
        r["spoiled"] = -1


def _graph_sig(g):
    """Everything a caller can see of a graph object: node order, every node / edge attribute (scalars), graph attributes."""
    return ([(n, tuple(a.items())) for n, a in g.nodes(data=True)],
            sorted(((u, v) if repr(u) <= repr(v) else (v, u), tuple(sorted(a.items(), key=repr))) for u, v, a in g.edges(data=True)),
            tuple(g.graph.items()), type(g).__name__)


def _n_objects(case):
    return case.get("objects", len(case["graphs"]))


MCCS_KINDS = ("mccs", "hmccs")


def _is_mccs(case):
    return bool(case["queries"]) and case["queries"][0][0] in MCCS_KINDS


def _mccs_call(q, gs):
    """["mccs", i, j, [[name, default], ...], edge_attribute] | ["hmccs", [i, ...], names, edge_attribute]; q[4] == "default" = keyword omitted."""
    from synkit.Graph.Matcher import graph_morphism as GM
    names = q[3] if q[0] == "mccs" else q[2]
    eattr = q[4] if q[0] == "mccs" else q[3]
    kw = {}
    if names != "default":
        kw.update(node_label_names=[a for a, _ in names], node_label_default=[d for _, d in names])
    if eattr != "default":
        kw["edge_attribute"] = eattr
    if q[0] == "mccs":
        return GM.maximum_connected_common_subgraph(gs[q[1]], gs[q[2]], **kw)
    try:
        return GM.heuristics_MCCS([gs[i] for i in q[1]], **kw)
    except ValueError:
        return [99, 3]


def _graph_obs(r, codes, dyn):
    def at(a):
        return S([[0, v] if k == "hcount" else [_key(k, dyn), codes(v)] for k, v in a.items() if v is not None])
    return [S([[n, at(a)] for n, a in r.nodes(data=True)]), S([[S([u, v]), at(a)] for u, v, a in r.edges(data=True)])]


def _impl_mccs(case):
    import networkx as nx
    gs = [G.to_nx(g) for g in case["graphs"]]
    sigs = [_graph_sig(g) for g in gs]
    codes, dyn = _intern(case)
    out, untouched = [], True
    with _Recording():
        for q in case["queries"]:
            _Rec.events = []
            r = _mccs_call(q, gs)
            built = sum(1 for e in _Rec.events if e[0] == "gm")      # GraphMatcher objects built = admissible candidates examined
            if isinstance(r, list):
                out.append(r)
                continue
            out.append([_graph_obs(r, codes, dyn), built])
            if isinstance(r, nx.Graph):           # the caller edits the returned graph: the inputs must not notice (it is a copy)
                r.add_node("spoiled", element="X")
                for n in list(r.nodes):
                    r.nodes[n]["element"] = "X"
            untouched = untouched and all(_graph_sig(g) == sg for g, sg in zip(gs, sigs))
    return [out, untouched]


def impl(case):
    """graph OBJECTS = the first case["objects"] graphs (default: all); ["edit", i, k] edits object i in place into graph value k."""
    if _is_mccs(case):
        return _impl_mccs(case)
    gs = [G.to_nx(g) for g in case["graphs"][:_n_objects(case)]]
    engs = [_engine(s) for s in case["engines"]]
    ans = []
    sigs = [_graph_sig(g) for g in gs]
    untouched = True
    _, dyn = _intern(case)
    keys = []
    with _Recording():
        for q in case["queries"]:
            if q[0] == "edit":
                _edit_in_place(gs[q[1]], case["graphs"][q[2]])
                sigs[q[1]] = _graph_sig(gs[q[1]])
                continue
            if q[0] == "new":
                _new_object(gs, q, case)
                sigs[q[1]] = _graph_sig(gs[q[1]])
                continue
            _Rec.events = []
            r = _run_query(q, gs, engs, case["engines"])
            ans.append(_obs(q, r, gs, case["engines"], _trace(q, gs)))
            _spoil(r)
            keys.append(_cache_keys(case, gs, dyn))
            untouched = untouched and all(_graph_sig(g) == sg for g, sg in zip(gs, sigs))
    return ans + [keys, _cache_obs(case, gs), untouched]


# ------------------------------------------------------------------ model encoder

def _vkey(v):
    if isinstance(v, (bool, int, float)):
        return ("n", float(v))
    if isinstance(v, str):
        return ("s", v)
    if isinstance(v, (list, tuple)):
        return ("t", tuple(_vkey(x) for x in v))
    raise TypeError("attribute value outside the model domain: %r" % (v,))


class _Codes:
    def __init__(self):
        self.t = {}

    def __call__(self, v):
        k = _vkey(v)
        if k not in self.t:
            self.t[k] = len(self.t) + 1
        return self.t[k]


def _key(name, dyn):
    if name in KEYS:
        return KEYS[name]
    assert dyn is not None, "constructor queries use the fixed attribute names only"
    if name not in dyn:
        dyn[name] = 10 + len(dyn)
    return dyn[name]


def _attrs(a, codes, dyn):
    out = []
    for k, v in a.items():
        if v is None:
            continue                      # an explicit None is indistinguishable from an absent key under .get()
        if k == "hcount":
            if isinstance(v, bool) or not isinstance(v, int) or v < 0:
                raise TypeError("hcount outside the model domain")
            out.append("(%s, %s)" % (cN(0), cN(v)))
        else:
            out.append("(%s, %s)" % (cN(_key(k, dyn)), cN(codes(v))))
    return clist(out)


def _intern(case):
    """The interning tables after the graphs of the case have been encoded (same traversal as coq_case)."""
    codes, dyn = _Codes(), {}
    for g in case["graphs"]:
        try:
            G.coq_lgraph(g, lambda n, a: _attrs(a, codes, dyn), lambda u, v, a: _attrs(a, codes, dyn))
        except TypeError:
            pass
    return codes, dyn


def _raw_of_spec(s):
    """The constructor keywords of an engine spec, as _engine passes them."""
    omit = s.get("omit", ())
    kw = {}
    if "backend" in s:
        kw["backend"] = s["backend"]
    for k, v in (("node_attrs", s["na"]), ("edge_attrs", s["ea"])):
        if k not in omit:
            kw[k] = None if (s.get("none_lists") and v == []) else list(v)
    if "wl1_filter" not in omit:
        kw["wl1_filter"] = s["wl"]
    if "max_mappings" not in omit:
        kw["max_mappings"] = s["mm"]
    return kw


def _craw(kw, short=False, dyn=None):
    """Gallina literal of the raw constructor keywords (outer None = keyword omitted); short: through the header's EO when no back-end is named."""
    def lst(k):
        if k not in kw:
            return "None"
        if kw[k] is None:
            return "(Some None)"
        return "(SS %s)" % clist([cN(_key(a, dyn)) for a in kw[k]])
    be = "None" if "backend" not in kw else "(Some %s)" % clist([cN(b) for b in kw["backend"].encode("ascii")])
    wl = "None" if "wl1_filter" not in kw else "(Some %s)" % cbool(bool(kw["wl1_filter"]))
    mm = "None" if "max_mappings" not in kw else "(Some None)" if kw["max_mappings"] is None else "(SS %s)" % cN(kw["max_mappings"])
    if short and "backend" not in kw:
        return "(EO %s %s %s %s)" % (lst("node_attrs"), lst("edge_attrs"), wl, mm)
    r = "(ER %s %s %s %s %s)" % (be, lst("node_attrs"), lst("edge_attrs"), wl, mm)
    return "(eng_of %s)" % r if short else r


def _coq_mccs(case):
    codes, dyn = _Codes(), {}
    try:
        gs = clist([G.coq_lgraph(g, lambda n, a: _attrs(a, codes, dyn), lambda u, v, a: _attrs(a, codes, dyn)) for g in case["graphs"]])
        qs = []
        for q in case["queries"]:
            names = q[3] if q[0] == "mccs" else q[2]
            eattr = q[4] if q[0] == "mccs" else q[3]
            names = [["element", "*"], ["charge", 0]] if names == "default" else names
            eattr = "standard_order" if eattr == "default" else eattr
            if eattr == "hcount" or any(a == "hcount" for a, _ in names) or not isinstance(eattr, str):
                return None
            nl, dl = clist([cN(_key(a, dyn)) for a, _ in names]), clist([cN(codes(d)) for _, d in names])
            tail = "%s %s %s %s" % (nl, dl, cN(_key(eattr, dyn)), cN(codes(1)))
            if q[0] == "mccs":
                qs.append("(MQ %s %s %s)" % (cnat(q[1]), cnat(q[2]), tail))
            else:
                qs.append("(MH %s %s)" % (clist([cnat(i) for i in q[1]]), tail))
    except TypeError:
        return None
    for g in case["graphs"]:
        if any(u == v for u, v, _ in g["edges"]):
            return None
    return "L [run_mccs %s %s; tbool true]" % (gs, clist(qs))


def coq_case(case):
    if _is_mccs(case):
        return _coq_mccs(case)
    codes, dyn = _Codes(), {}
    try:
        gs = clist([G.coq_lgraph(g, lambda n, a: _attrs(a, codes, dyn), lambda u, v, a: _attrs(a, codes, dyn)) for g in case["graphs"]])
        es = clist([_craw(_raw_of_spec(s), short=True, dyn=dyn) for s in case["engines"]])
        qs = []
        shared = []           # distinct (names, defaults, edge attribute, comparators) literals of the case, let-bound as z0, z1, ...
        ctypes = {"induced": 0}   # check_type strings, interned (the code only tests == "induced")
        edits = any(q[0] in ("edit", "new") for q in case["queries"])
        wrap = (lambda t: "(HQ %s)" % t) if edits else (lambda t: t)
        for q in case["queries"]:
            k = q[0]
            if k == "edit":
                qs.append("(HEdit %s %s)" % (cnat(q[1]), cnat(q[2])))
            elif k == "new":
                qs.append("(HNew %s %s)" % (cnat(q[1]), cnat(q[4])))
            elif k == "ctor":
                qs.append(wrap("(QCtor %s)" % _craw(q[1])))
            elif k == "qpf":
                if "hcount" in q[3] or "hcount" in q[4]:
                    return None
                qs.append(wrap("(QQpf %s %s %s %s %s)" % (cnat(q[1]), cnat(q[2]), clist([cN(_key(a, dyn)) for a in q[3]]),
                                                         clist([cN(_key(a, dyn)) for a in q[4]]), cN(q[5]))))
            elif k == "obj":
                qs.append(wrap("(QObj %s %s %s %s)" % (cbool(q[1] == "maps"), cnat(q[2]), copt(None if q[3] is None else cnat(q[3])),
                                                       copt(None if q[4] is None else cnat(q[4])))))
            elif k == "fgit":
                t1, t2 = GRAPH_CLASSES.index(q[1][0]), GRAPH_CLASSES.index(q[1][1])
                if t1 == t2 and t1 != 0:
                    return None            # two directed / multi graphs: their matchers are not modelled
                qs.append(wrap("(QFgiT %s %s %s %s %s %s %s %s %s)" % (cN(t1), cN(t2), cnat(q[2]), cnat(q[3]), cbool(q[4]), cbool(q[5]),
                                                                       cN(codes("*")), cN(codes(0)), cN(codes(1)))))
            elif k in ("iso", "maps", "pre"):
                qs.append(wrap("(%s %s %s %s)" % ({"iso": "QIso", "maps": "QMaps", "pre": "QPre"}[k], cnat(q[1]), cnat(q[2]), cnat(q[3]))))
            elif k == "sub":
                _, variant, c, p, filt, ctype, names, eattr = q[:8]
                cmps = q[8] if len(q) > 8 and q[8] is not None else None
                nn, nd, ex = _sub_opts(q)
                if eattr == "hcount" or (cmps not in (None, ["eq", "eq"]) and "hcount" in nn):
                    return None
                if variant.startswith("is"):
                    assert cmps is None and not ex.get("cmp_none"), "is_subgraph takes no comparators"

                def ccmp(sp):
                    return "None" if sp is None or sp == "eq" else "(Some CAny)" if sp == "any" else \
                        "(Some (%s %s))" % ("CWild" if sp[0] == "wild" else "CPatWild", cN(codes(sp[1])))
                dl = []
                for t, d in enumerate(nd):
                    if t < len(nn) and nn[t] == "hcount":
                        if isinstance(d, bool) or not isinstance(d, int) or d < 0:
                            return None
                        dl.append(cN(d))
                    else:
                        dl.append(cN(codes(d)))
                nl = [cN(0) if a == "hcount" else cN(_key(a, dyn)) for a in nn]
                ea = "EaNone" if eattr is None else "(EaEmpty %s)" % cN(_key("", dyn)) if eattr == "" else "(EaKey %s)" % cN(_key(eattr, dyn))
                z = "(%s, %s, %s, %s, %s)" % (clist(nl), clist(dl), ea, ccmp(cmps[0] if cmps else None), ccmp(cmps[1] if cmps else None))
                if z not in shared:
                    shared.append(z)
                if ctype not in ctypes:
                    ctypes[ctype] = len(ctypes)
                backend = ex.get("backend", "nx")
                bcode = {"nx": 0, "mod": 1}.get(backend, 2 + (sum(backend.encode()) % 50))
                qs.append(wrap("(QE %s %s %s %s %s %s z%d)" % ({"s": "FnSM", "i": "FnIS", "g": "FnGM"}[variant[0]], cnat(c), cnat(p), cbool(bool(filt)),
                                                                cN(ctypes[ctype]), cN(bcode), shared.index(z))))
            elif k == "giso":
                qs.append(wrap("(QGiso %s %s %s %s %s)" % (cnat(q[1]), cnat(q[2]), cN(codes("*")), cN(codes(0)), cN(codes(1)))))
            elif k == "giso0":
                qs.append(wrap("(QGiso0 %s %s)" % (cnat(q[1]), cnat(q[2]))))
            elif k == "fgi":
                qs.append(wrap("(QFgi %s %s %s %s %s %s %s)" % (cnat(q[1]), cnat(q[2]), cbool(q[3]), cbool(q[4]), cN(codes("*")), cN(codes(0)), cN(codes(1)))))
            else:
                raise AssertionError(k)
    except TypeError:
        return None
    for g in case["graphs"]:
        if any(u == v for u, v, _ in g["edges"]):
            return None
    lets = "".join("let z%d : ZT := %s in " % (i, z) for i, z in enumerate(shared))
    if edits:
        return "%srun_h %s %s %s %s" % (lets, gs, cnat(_n_objects(case)), es, clist(qs))
    if _n_objects(case) != len(case["graphs"]):
        return None
    return "%srun %s %s %s" % (lets, gs, es, clist(qs))


# ------------------------------------------------------------------ independent property oracle

def _embed(P, H, nmatch, ematch, induced, first_only=False):
    """Brute-force enumeration of injective maps P -> H with nmatch(host attrs, pattern attrs) on nodes, every pattern edge on a
    host edge with ematch(host edge, pattern edge) and, when induced, every pattern non-edge on a host non-edge."""
    pn, hn = list(P.nodes), list(H.nodes)
    out = []

    def rec(k, m, used):
        if k == len(pn):
            out.append(dict(m))
            return first_only
        p = pn[k]
        for h in hn:
            if h in used or not nmatch(H.nodes[h], P.nodes[p]):
                continue
            ok = True
            for q in pn[:k]:
                pe, he = P.has_edge(p, q), H.has_edge(h, m[q])
                if pe and (not he or not ematch(H[h][m[q]], P[p][q])):
                    ok = False
                    break
                if induced and he and not pe:
                    ok = False
                    break
            if not ok:
                continue
            m[p] = h
            used.add(h)
            if rec(k + 1, m, used):
                return True
            del m[p]
            used.discard(h)
        return False
    rec(0, {}, set())
    return out


def _eng_match(spec, flip=False):
    na, ea = spec["na"], spec["ea"]

    def nmatch(h, p):
        if flip:
            h, p = p, h
        return all(h.get(a) == p.get(a) for a in na) and h.get("hcount", 0) >= p.get("hcount", 0)

    def ematch(h, p):
        return all(h.get(a) == p.get(a) for a in ea)
    return nmatch, ematch


def _iso_exists(g1, g2, nmatch, ematch):
    if g1.number_of_nodes() != g2.number_of_nodes() or g1.number_of_edges() != g2.number_of_edges():
        return False
    return bool(_embed(g2, g1, nmatch, ematch, True, first_only=True))


def _relabelled(g):
    import networkx as nx
    ids = list(g.nodes)
    base = max([x for x in ids if isinstance(x, int)] + [0]) + 3
    mp = {n: base + (len(ids) - k) * 2 for k, n in enumerate(ids)}
    r = nx.Graph()
    for n in reversed(ids):
        r.add_node(mp[n], **g.nodes[n])
    for u, v, d in reversed(list(g.edges(data=True))):
        r.add_edge(mp[v], mp[u], **d)
    return r


def _hset(g):
    return {d.get("hcount", 0) for _, d in g.nodes(data=True)}


def _ask(*a):
    """_run_query for the oracle's reference calls: an exception becomes a value that equals no answer."""
    try:
        return _run_query(*a)
    except Exception as ex:
        return ["EXC", type(ex).__name__, str(ex)[:200]]


def oracle(case):
    fails = []
    if _is_mccs(case):       # the common-subgraph helpers are outside the property text: correspondence (and theorems) only
        return fails

    def bad(clause, detail):
        fails.append(dict(clause=clause, detail=detail))

    import copy
    specs = case["engines"]
    gs = [G.to_nx(g) for g in case["graphs"][:_n_objects(case)]]
    engs = [_engine(s) for s in specs]
    cur = list(range(len(gs)))                    # graph value currently held by each object
    version = [0] * len(gs)                       # bumped by every in-place edit
    cached = {}                                   # (object, node_attrs) -> version when a WL-filtering engine may have cached it
    fresh_graph = lambda i: G.to_nx(case["graphs"][cur[i]])
    answered = {}                                 # (kind, engine, i, j) -> answer, for the cross-check of isomorphic against get_mappings
    edits = any(q[0] in ("edit", "new") for q in case["queries"])
    for t, q in enumerate(case["queries"]):
        if len(fails) >= 3:
            break
        if q[0] == "edit":
            _edit_in_place(gs[q[1]], case["graphs"][q[2]])
            cur[q[1]] = q[2]
            version[q[1]] += 1
            continue
        if q[0] == "new":
            # a NEW object: nothing that was cached for the object it replaces or derives from may matter (C07_new_objects), so every
            # later query on it is judged, filtering engines included
            _new_object(gs, q, case)
            cur[q[1]] = q[4]
            version[q[1]] = 0
            for kk in [kk for kk in cached if kk[0] == q[1]]:
                del cached[kk]
            continue
        try:
            got_raw = _run_query(q, gs, engs, specs)
        except Exception as ex:
            if q[0] not in ("iso", "maps", "pre"):
                raise
            # an engine query raised: if the same query answers with the WL filter switched the other way, the filter changed the outcome
            spec = specs[q[1]]
            try:
                a2, b2 = fresh_graph(q[2]), fresh_graph(q[3])
                other = _run_query(q, {q[2]: a2, q[3]: b2} if q[2] != q[3] else {q[2]: a2},
                                   {q[1]: _engine(dict(spec, wl=not spec["wl"], omit=[x for x in spec.get("omit", ()) if x != "wl1_filter"]))}, specs)
            except Exception:
                continue                          # raises either way: the input is outside the engine's domain
            bad("filter-neutral", "query %d %r: wl1_filter=%r raises %s: %s where wl1_filter=%r answers %r"
                % (t, q, spec["wl"], type(ex).__name__, ex, not spec["wl"], other))
            continue
        got = copy.deepcopy(got_raw)
        _spoil(got_raw)                           # the caller edits what it was handed; later answers must not care
        tag = "query %d %r" % (t, q)
        k = q[0]
        for i, g in enumerate(gs):                # no query may modify its inputs (or any other graph object of the history)
            if _graph_sig(g) != _graph_sig(fresh_graph(i)):
                bad("inputs-unmodified", "%s: graph object %d was modified by the call: now %r, expected %r"
                    % (tag, i, _graph_sig(g)[:2], _graph_sig(fresh_graph(i))[:2]))
                _edit_in_place(g, case["graphs"][cur[i]])      # restore, so that the following steps are judged on their own
                break
        if k in ("iso", "maps", "pre"):
            spec = specs[q[1]]
            if spec["wl"]:
                # The class documents that its histogram cache goes stale when a graph is mutated in place: a query of a filtering
                # engine that may read an entry older than the last edit of that object is outside the property (correspondence only).
                keys = [(i, tuple(spec["na"])) for i in (q[2], q[3])]
                stale = any(kk in cached and cached[kk] != version[kk[0]] for kk in keys)
                for kk in keys:
                    cached.setdefault(kk, version[kk[0]])
                if stale:
                    continue
            a, b = fresh_graph(q[2]), fresh_graph(q[3])
            fresh = _ask(q, {q[2]: a, q[3]: b} if q[2] != q[3] else {q[2]: a}, {q[1]: _engine(spec)}, specs)
            if fresh != got:
                bad("history-independent", "%s: answer in this history %r, answer of a fresh engine on fresh graph objects %r" % (tag, got, fresh))
                continue
            a2, b2 = fresh_graph(q[2]), fresh_graph(q[3])
            try:
                other = _run_query(q, {q[2]: a2, q[3]: b2} if q[2] != q[3] else {q[2]: a2}, {q[1]: _engine(dict(spec, wl=not spec["wl"], omit=[x for x in spec.get("omit", ()) if x != "wl1_filter"]))}, specs)
            except Exception as ex:
                bad("filter-neutral", "%s: wl1_filter=%r answers %r, wl1_filter=%r raises %s: %s" % (tag, spec["wl"], got, not spec["wl"], type(ex).__name__, ex))
                continue
            same = (other == got) if k != "maps" else ({frozenset(m.items()) for m in other} == {frozenset(m.items()) for m in got})
            if k != "pre" and not same:
                bad("filter-neutral", "%s: wl1_filter=%r gives %r, wl1_filter=%r gives %r" % (tag, spec["wl"], got, not spec["wl"], other))
                continue
        if k in ("iso", "maps") and not edits and specs[q[1]]["mm"] != 0 and gs[q[2]].number_of_nodes() == gs[q[3]].number_of_nodes():
            # the two entry points speak about the same bijections: on equal-sized graphs isomorphic(a, b) holds exactly when
            # get_mappings(a, b) returns something (C07_iso_maps_consistent)
            answered[(k, q[1], q[2], q[3])] = got
            other = answered.get(("maps" if k == "iso" else "iso", q[1], q[2], q[3]))
            if other is not None:
                iso_ans, maps_ans = (got, other) if k == "iso" else (other, got)
                if bool(iso_ans) != bool(maps_ans):
                    bad("iso-maps-consistent", "%s: isomorphic answers %r but get_mappings on the same arguments returns %r" % (tag, iso_ans, maps_ans))
        if k in ("pre", "maps") and not edits:
            # a result is returned only if _pre_check lets the pair through (C07_maps_implies_pre_check): cross-check inside one history
            answered[(k + "*", q[1], q[2], q[3])] = got
            pre_ans, maps_ans = answered.get(("pre*", q[1], q[2], q[3])), answered.get(("maps*", q[1], q[2], q[3]))
            if pre_ans is False and maps_ans:
                bad("precheck-sound", "%s: _pre_check answers False but get_mappings on the same arguments returns %r" % (tag, maps_ans))
        if k == "iso":
            g1, g2 = gs[q[2]], gs[q[3]]
            nm1, em = _eng_match(spec)
            # the FIRST argument is the hcount host (GraphMatcher(g1, g2) hands (g1 attrs, g2 attrs) to the node matcher): C07_iso_verdict
            A = _iso_exists(g1, g2, nm1, em)
            if got != A:
                bad("iso-exact", "%s: verdict %r, brute force (bijection with hcount(first argument) >= hcount(second argument)) %r" % (tag, got, A))
            for which in (2, 3):
                gg = {q[2]: fresh_graph(q[2]), q[3]: fresh_graph(q[3])}
                gg[q[which]] = _relabelled(gg[q[which]])
                if q[2] == q[3]:
                    gg = {q[2]: _relabelled(fresh_graph(q[2]))}
                r = _ask(q, gg, {q[1]: _engine(spec)}, specs)
                if r != got:
                    bad("relabel-invariant", "%s: verdict %r, after relabelling argument %d: %r" % (tag, got, which - 1, r))
                    break
            # symmetric whenever the total hydrogen counts agree (absent = 0): C07_symmetric_equal_totals
            if sum(d.get("hcount", 0) for _, d in g1.nodes(data=True)) == sum(d.get("hcount", 0) for _, d in g2.nodes(data=True)):
                r = _ask(["iso", q[1], q[3], q[2]], {q[2]: fresh_graph(q[2]), q[3]: fresh_graph(q[3])}, {q[1]: _engine(spec)}, specs)
                if r != got:
                    bad("symmetric", "%s: verdict %r, swapped arguments %r (equal total hydrogen counts)" % (tag, got, r))
        elif k == "maps":
            H, P = gs[q[2]], gs[q[3]]
            nm1, em = _eng_match(spec)
            valid = _embed(P, H, nm1, em, True)
            vset = {frozenset(m.items()) for m in valid}
            for m in got:
                if set(m.keys()) != set(P.nodes) or frozenset(m.items()) not in vset:
                    bad("embedding-valid", "%s: returned %r which is not a pattern->host embedding" % (tag, m))
                    break
            if valid and not got and spec["mm"] != 0:
                bad("embedding-found", "%s: pattern is contained (%d induced embeddings, e.g. %r) but nothing was returned" % (tag, len(valid), valid[0]))
        elif k == "pre":
            H, P = gs[q[2]], gs[q[3]]
            nm1, em = _eng_match(spec)
            if not got and _embed(P, H, nm1, em, True, first_only=True):
                bad("precheck-sound", "%s: pre-check rejects although an embedding exists" % tag)
        elif k == "sub":
            _, variant, c, p, filt, ctype, names, eattr = q[:8]
            nn, nd, ex = _sub_opts(q)
            odd = _sub_odd(q)
            if not isinstance(got, bool):
                if not odd:
                    bad("subgraph-def", "%s: the call raised (%r) for documented option values" % (tag, got))
                continue
            if odd:
                # undocumented option values: only "the pre-filter never changes the verdict" is judged
                q2 = list(q)
                q2[4] = not filt
                other = _sub_result(q2, {c: fresh_graph(c), p: fresh_graph(p)} if c != p else {c: fresh_graph(c)})
                if isinstance(other, bool) and other != got:
                    bad("filter-neutral", "%s: verdict %r, with use_filter=%r: %r" % (tag, got, not filt, other))
                continue
            cmps = q[8] if len(q) > 8 and q[8] is not None else ["eq", "eq"]
            sel = list(zip(nn, nd))
            nmatch = lambda h, pp: all(_cmp_eval(cmps[0], h.get(a, d), pp.get(a, d)) for a, d in sel)
            ematch = (lambda h, pp: _cmp_eval(cmps[1], h.get(eattr), pp.get(eattr))) if eattr else (lambda h, pp: True)
            want = bool(_embed(gs[c], gs[p], nmatch, ematch, ctype == "induced", first_only=True))
            if got != want:
                bad("filter-neutral" if filt else "subgraph-def", "%s: verdict %r, %s containment by brute force %r" % (tag, got, ctype, want))
            elif not edits:
                # induced containment implies monomorphic containment (C07_induced_implies_mono): cross-check of the answers of one history
                key = (variant[0], c, p, json.dumps([nn, nd, eattr, cmps]))
                ind_ans, mono_ans = answered.setdefault(("sub",) + key, [None, None])
                if ctype == "induced":
                    answered[("sub",) + key][0] = ind_ans = got
                else:
                    answered[("sub",) + key][1] = mono_ans = got
                if ind_ans is True and mono_ans is False:
                    bad("subgraph-def", "%s: the induced test of the same call answers True but the monomorphism test False" % tag)
        elif k == "qpf":
            # pre_filter on / off: the same result set — except through the documented estimate guard (theorem C07_quick_pre_filter_refuted;
            # the guard's witness is a known finding), and never a non-empty result that differs
            skip, off, on = got
            H, P = gs[q[1]], gs[q[2]]
            nm1, em = _eng_match({"na": q[3], "ea": q[4]})
            want = len(_embed(P, H, nm1, em, False))
            if off != (want if want <= q[5] else 0):
                bad("embedding-found", "%s: find_subgraph_mappings(strategy='all') returns %d mappings, brute force finds %d monomorphisms (threshold %d)" % (tag, off, want, q[5]))
            elif on != off:
                if on == 0 and _qpf_guard_fires(H, P, q[3], q[5]):
                    fails.append(dict(clause="filter-neutral", key=QPF_KNOWN_KEY,
                                      detail="%s: pre_filter=True returns [] where pre_filter=False returns %d mappings: the estimate guard of _quick_pre_filter "
                                             "(candidate product > threshold * 1e4) fired" % (tag, off)))
                else:
                    bad("filter-neutral", "%s: pre_filter=False returns %d mappings, pre_filter=True %d, and the estimate guard did not fire" % (tag, off, on))
        elif k == "giso":
            nmatch = lambda h, pp: h.get("element", "*") == pp.get("element", "*") and h.get("charge", 0) == pp.get("charge", 0)
            ematch = lambda h, pp: h.get("order", 1) == pp.get("order", 1)
            want = _iso_exists(gs[q[1]], gs[q[2]], nmatch, ematch)
            if got != want:
                bad("iso-exact", "%s: graph_isomorphism %r, brute force %r" % (tag, got, want))
        elif k == "giso0":
            want = _iso_exists(gs[q[1]], gs[q[2]], lambda h, pp: True, lambda h, pp: True)
            if got != want:
                bad("iso-exact", "%s: graph_isomorphism(no matchers) %r, brute force (structure only) %r" % (tag, got, want))
        elif k == "fgi":
            g1, g2 = gs[q[1]], gs[q[2]]
            if q[3]:
                nmatch = lambda h, pp: all(h.get(a, d) == pp.get(a, d) for a, d in (("element", "*"), ("atom_map", 0), ("hcount", 0)))
                ematch = lambda h, pp: h.get("order", 1) == pp.get("order", 1)
            else:
                nmatch = ematch = lambda h, pp: True
            want = _iso_exists(g1, g2, nmatch, ematch)
            if (got is not None) != want:
                bad("iso-exact", "%s: find_graph_isomorphism returned %r, an isomorphism exists by brute force: %r" % (tag, got, want))
            elif got is not None:
                ok = (set(got.keys()) == set(g1.nodes) and set(got.values()) == set(g2.nodes) and len(set(got.values())) == len(got)
                      and all(nmatch(g1.nodes[u], g2.nodes[v]) for u, v in got.items())
                      and all(g1.has_edge(u, v) == g2.has_edge(got[u], got[v]) for u in g1 for v in g1 if u != v)
                      and all(ematch(g1[u][v], g2[got[u]][got[v]]) for u, v in g1.edges))
                if not ok:
                    bad("embedding-valid", "%s: find_graph_isomorphism returned %r which is not an isomorphism G1 -> G2" % (tag, got))
    return fails[:3]


# ------------------------------------------------------------------ evidence helpers

def _verdicts(obs):
    out = []
    for o in obs:
        if isinstance(o, bool):
            out.append(o)
        elif isinstance(o, list) and o:
            if isinstance(o[0], bool):                       # iso / sub / fgi: [verdict, intermediate values]
                out.append(o[0])
            elif isinstance(o[0], int) and len(o) == 3:      # maps: [count, mapping set, intermediate values]
                out.append(o[0] > 0)
    return out


def nontrivial(case, obs):
    v = _verdicts(obs)
    return any(v) and not all(v)


def distribution(cases, obss):
    d = dict(query_kinds={}, verdict_true=0, verdict_false=0, graph_nodes={}, history_length={}, engines_wl={}, attr_selection={},
             sub_filter_on=0, sub_induced=0, sub_mono=0, maps_nonempty=0, maps_proper_subpattern=0, graphs_per_case={})

    def inc(t, k):
        t[str(k)] = t.get(str(k), 0) + 1
    for c, obs in zip(cases, obss):
        inc(d["graphs_per_case"], len(c["graphs"]))
        inc(d["history_length"], min(len(c["queries"]), 40) // 5 * 5)
        for g in c["graphs"]:
            inc(d["graph_nodes"], len(g["nodes"]))
        for s in c.get("engines", ()):
            inc(d["engines_wl"], s["wl"])
            inc(d["attr_selection"], "/".join(s["na"]) + "|" + "/".join(s["ea"]))
        for q in c["queries"]:
            inc(d["query_kinds"], q[0] + (":" + q[1] if q[0] == "sub" else ""))
            if q[0] in MCCS_KINDS or q[0] == "new":
                continue
            if q[0] == "sub":
                d["sub_filter_on"] += bool(q[4])
                d["sub_induced" if q[5] == "induced" else "sub_mono"] += 1
            if q[0] == "maps" and len(c["graphs"][q[3]]["nodes"]) < len(c["graphs"][q[2]]["nodes"]):
                d["maps_proper_subpattern"] += 1
        if isinstance(obs, list) and not (obs and obs[0] == "EXC"):
            for q, o in zip([q for q in c["queries"] if q[0] not in ("edit", "new")], obs):
                if q[0] == "maps" and isinstance(o, list) and o[0] > 0:
                    d["maps_nonempty"] += 1
            for v in _verdicts(obs):
                d["verdict_true" if v else "verdict_false"] += 1
    return d


def shrink(case, fl):
    def fails(c):
        try:
            return bool(oracle(c))
        except Exception:
            return False
    cur = dict(case)
    qs = list(cur["queries"])
    changed = True
    while changed and len(qs) > 1:
        changed = False
        for i in range(len(qs)):
            cand = dict(cur, queries=qs[:i] + qs[i + 1:])
            if fails(cand):
                qs = cand["queries"]
                cur = cand
                changed = True
                break
    cur["name"] = case.get("name", "") + "(shrunk)"
    return cur


def neighbours(case, rng):
    out = []
    for i in range(len(case["queries"])):
        out.append(dict(case, queries=case["queries"][:i + 1], name="neighbour-prefix"))
        out.append(dict(case, queries=[case["queries"][i]], name="neighbour-single"))
    return out[:80]


# ------------------------------------------------------------------ generators

E_FULL = {"na": ["element", "charge"], "ea": ["order"], "wl": False, "mm": None}
NAMES_DEF = [["element", "*"], ["charge", 0]]
# permuted / reduced / empty / extended selections, custom defaults (a default equal to a value that occurs: absent == that value)
NAMES_ALT = [[["element", "*"], ["charge", 0]], [["charge", 0], ["element", "*"]], [["element", "*"]], [["charge", 0]], [],
             [["element", "C"], ["charge", 0]], [["element", "*"], ["charge", 1]], [["charge", -1]],
             [["element", "*"], ["charge", 0], ["hcount", 0]], [["hcount", 1], ["element", "*"]], [["element", "*"], ["aromatic", False]],
             [["element", ""], ["charge", 0.0]]]


def _engines(rng):
    # attribute selections that are permutations / subsets / supersets of each other: engines share the class-level WL cache,
    # which must keep them apart (key = the node_attrs tuple in the engine's own order)
    sels = [(["element", "charge"], ["order"]), (["charge", "element"], ["order"]), (["element"], ["order"]), (["element"], []),
            ([], ["order"]), (["element", "charge"], []), (["charge"], ["order"]), (["charge", "element"], []),
            (["element", "charge", "aromatic"], ["order"]), (["element", "neighbors"], ["order"]), (["neighbors", "typesGH"], []), (["element", "hcount"], ["order"])]
    es = [dict(E_FULL), dict(E_FULL, wl=True)]
    for _ in range(2):
        na, ea = rng.choice(sels)
        es.append({"na": list(na), "ea": list(ea), "wl": rng.random() < 0.7, "mm": rng.choice([None, None, 1, 2])})
    if rng.random() < 0.25:
        es[rng.choice([2, 3])] = {"na": ["charge", "element"], "ea": ["order"], "wl": True, "mm": None}
    z = rng.random()
    if z < 0.08:       # GraphMatcherEngine(): every option at its default (no attributes, no filter, max_mappings=1)
        es[3] = {"na": [], "ea": [], "wl": False, "mm": 1, "omit": ["node_attrs", "edge_attrs", "wl1_filter", "max_mappings"]}
    elif z < 0.14:     # attribute lists given as None; default max_mappings
        es[3] = {"na": [], "ea": [], "wl": rng.random() < 0.5, "mm": 1, "omit": ["max_mappings"], "none_lists": True}
    elif z < 0.20:     # max_mappings=0 / a large limit
        es[3] = dict(es[3], mm=rng.choice([0, 0, 50]))
    if rng.random() < 0.1:     # the back-end named explicitly, in another spelling (the constructor lower-cases it)
        k = rng.randrange(len(es))
        es[k] = dict(es[k], backend=rng.choice(["nx", "NX", "Nx", "nX"]))
    return es


def _battery(rng, pairs, n_eng, subs=True, nosubs=(), alt=True, nfixed=8, thin=0.0):
    """A shuffled battery of queries over the given ordered graph-index pairs (no boolean-subgraph queries for pairs in nosubs).
    thin: probability of leaving out an isomorphic / get_mappings query of the two DRAWN engines (the two fixed ones ask always)."""
    qs = []
    all_subs = subs
    for (i, j) in pairs:
        subs = all_subs and (i, j) not in nosubs
        for e in range(n_eng):
            if e < 2 or rng.random() >= thin:
                qs.append(["iso", e, i, j])
            if e < 2 or rng.random() >= thin:
                qs.append(["maps", e, i, j])
            if rng.random() < (0.5 if e < 2 else 0.5 * (1 - thin)):
                qs.append(["pre", e, i, j])
        if subs:
            fixed = [["sub", variant, j, i, filt, ctype, NAMES_DEF, "order"]
                     for variant in ("sm", "gm") for filt in (False, True) for ctype in ("induced", "mono")]
            qs += fixed if nfixed >= 8 else rng.sample(fixed, nfixed)
            if rng.random() < 0.3:
                qs.append(["sub", "is", j, i, rng.random() < 0.5, rng.choice(["induced", "mono"]), [["element", "*"]], "order"])
            if rng.random() < 0.3:
                # edge_attribute=None is only accepted by graph_morphism.subgraph_isomorphism (generic_edge_match(None, ...) raises)
                qs.append(["sub", rng.choice(["gm", "gmp"]), j, i, rng.random() < 0.5, rng.choice(["induced", "mono"]), [["element", "*"]], None])
            # every facade with its options passed positionally / other spellings of the options / other label selections
            for _ in range(2 if alt else 0):     # (weak selections make the brute-force searches exponential on the 10+ node cases)
                variant = rng.choice(["smp", "isp", "gmp", "is", "isp"])
                qs.append(["sub", variant, j, i, rng.random() < 0.5, rng.choice(["induced", "mono", "monomorphism"]), rng.choice(NAMES_ALT),
                           rng.choice(["order", "order", "", "standard_order"] + ([None] if variant == "gmp" else []))])
            if alt:       # custom comparators (keyword and positional), filter on and off
                cm = rng.choice([["any", "eq"], ["eq", "any"], [["wild", "C"], "eq"], [["pwild", "C"], ["wild", 1]], [["pwild", "O"], "eq"],
                                 [["wild", 0], ["pwild", 2]], ["any", "any"], [["wild", "*"], "eq"]])
                v = rng.choice(["sm", "gm", "smp", "gmp"])
                ct = rng.choice(["induced", "mono"])
                nmz = rng.choice([NAMES_DEF, [["element", "*"]], [["charge", 0], ["element", "*"]]])
                for filt in (False, True):
                    qs.append(["sub", v, j, i, filt, ct, nmz, "order", cm])
            if alt and rng.random() < 0.35:
                qs.append(_odd_sub(rng, j, i))
            if alt and rng.random() < 0.15:
                qs.append(["ctor", dict(rng.choice(CTOR_POOL))])
            if alt and rng.random() < 0.08:      # an engine method handed something that is not a graph (TypeError before anything else)
                a, b = rng.choice([(None, j), (i, None), (None, None), (i, j)])
                qs.append(["obj", rng.choice(["iso", "maps"]), rng.randrange(n_eng), a, b])
            if alt and rng.random() < 0.1:       # the search engine's own pre-filter on / off (threshold so large that its estimate guard stays silent)
                qs.append(["qpf", i, j, rng.choice([["element"], ["element", "charge"], []]), rng.choice([["order"], []]), rng.choice([5000, 100000])])
            if alt and rng.random() < 0.08:      # find_graph_isomorphism on two different networkx classes answers None at once
                c1, c2 = rng.choice([("Graph", "DiGraph"), ("DiGraph", "Graph"), ("Graph", "MultiGraph"), ("MultiDiGraph", "DiGraph"),
                                     ("MultiGraph", "MultiDiGraph"), ("Graph", "Graph")])
                qs.append(["fgit", [c1, c2], i, j, rng.random() < 0.7, rng.random() < 0.5])
            qs.append(["giso", i, j])
            if alt and rng.random() < 0.5:
                qs.append(["giso0", i, j])
            if rng.random() < 0.7:
                qs.append(["fgi", i, j, rng.random() < 0.7 or not alt, rng.random() < 0.6])
    rng.shuffle(qs)
    return qs


CTOR_POOL = [{}, {"backend": "nx"}, {"backend": "NX"}, {"backend": "Nx", "node_attrs": ["element"]}, {"backend": "mod"}, {"backend": "MOD"},
             {"backend": "rule"}, {"backend": "Rule", "wl1_filter": True}, {"backend": ""}, {"backend": "networkx"}, {"backend": "nx "},
             {"node_attrs": None, "edge_attrs": None}, {"node_attrs": [], "wl1_filter": 1}, {"wl1_filter": ""}, {"wl1_filter": "no"},
             {"wl1_filter": None, "edge_attrs": ["order"]}, {"max_mappings": None}, {"max_mappings": 0},
             {"max_mappings": 7, "edge_attrs": ["order"], "node_attrs": ["charge", "element", "hcount"]},
             {"backend": "nX", "node_attrs": ["element", "charge"], "edge_attrs": ["order"], "wl1_filter": [0], "max_mappings": 50}]


def _odd_sub(rng, c, p, z=None):
    """Raw option values of the boolean subgraph entry points that only the option-handling code sees."""
    z = rng.randrange(7) if z is None else z
    filt = rng.random() < 0.5
    ct = rng.choice(["induced", "mono"])
    six = ["sm", "smp", "gm", "gmp", "is", "isp"]
    if z == 0:       # other spellings of check_type: everything except exactly "induced" selects the monomorphism test
        return ["sub", rng.choice(six), c, p, filt, rng.choice(["Induced", "INDUCED", "", "subgraph", "induced ", "iso"]), NAMES_DEF, "order"]
    if z == 1:       # back-ends of the facade: "mod" is not installed (ImportError), anything else is unknown (ValueError)
        return ["sub", rng.choice(["is", "isp"]), c, p, filt, ct, NAMES_DEF, "order", None, {"backend": rng.choice(["mod", "rule", "NX", ""])}]
    if z == 2:       # edge_attribute=None: SubgraphMatch raises TypeError (after the filter, which may answer False first)
        return ["sub", rng.choice(["sm", "smp", "is", "isp"]), c, p, filt, ct, NAMES_DEF, None]
    if z == 3:       # names / defaults of different lengths: both the filter and the matcher zip them
        nn, nd = rng.choice([(["element", "charge"], ["*"]), (["element"], ["*", 0]), ([], [0]), (["charge", "element"], [0]),
                             (["element", "charge"], []), (["element", "charge", "aromatic"], ["*", 0])])
        return ["sub", rng.choice(six), c, p, filt, ct, NAMES_DEF, "order", None, {"nn": nn, "nd": nd}]
    if z == 4:       # comparators passed explicitly as None
        return ["sub", rng.choice(["sm", "smp", "gm", "gmp"]), c, p, filt, ct, rng.choice(NAMES_ALT[:5]), rng.choice(["order", ""]), None, {"cmp_none": True}]
    if z == 5:       # truthy / falsy spellings of use_filter
        return ["sub", rng.choice(six), c, p, rng.choice([0, 1, "", "yes", None, 2]), ct, rng.choice(NAMES_ALT[:4]), "order"]
    # options left out altogether (the functions' own default arguments — mutable lists — are used)
    om = rng.choice([["node_label_names", "node_label_default"], ["node_label_names", "node_label_default", "edge_attribute"],
                     ["node_label_names", "node_label_default", "edge_attribute", "use_filter", "check_type"], ["edge_attribute"]])
    filt = False if "use_filter" in om else filt
    ct = "induced" if "check_type" in om else ct
    return ["sub", rng.choice(["sm", "gm", "is"]), c, p, filt, ct, NAMES_DEF, "order", None, {"omit": om}]


def _present(g, rng, extra=6):
    return G.shuffle_insertion(G.random_relabel(g, rng, 1, len(g["nodes"]) + extra), rng)


def _edit(g, rng):
    """One-edit neighbour."""
    g = {"nodes": [[n, dict(a)] for n, a in g["nodes"]], "edges": [[u, v, dict(a)] for u, v, a in g["edges"]]}
    ids = [n for n, _ in g["nodes"]]
    z = rng.random()
    if g["edges"] and rng.random() < 0.12:      # a bond loses / gains its annotation: absent is None for the matchers (NOT order 1)
        e = rng.choice(g["edges"])[2]
        if "order" in e:
            e.pop("order")
        else:
            e["order"] = 1
        return g
    if g["nodes"] and rng.random() < 0.1:       # an atom loses / gains a falsy annotation: charge absent is None for the engine (NOT 0),
        a = rng.choice(g["nodes"])[1]            # the default 0 for the subgraph tests; hcount absent IS 0 for the engine
        k = rng.choice(["charge", "hcount"])
        if k in a:
            if a[k] == 0:
                a.pop(k)
        else:
            a[k] = 0
        return g
    if z < 0.2 and g["nodes"]:
        rng.choice(g["nodes"])[1]["element"] = rng.choice(["C", "O", "N"])
    elif z < 0.4 and g["nodes"]:
        rng.choice(g["nodes"])[1]["charge"] = rng.choice([0, 1, -1])
    elif z < 0.55 and g["nodes"]:
        a = rng.choice(g["nodes"])[1]
        a["hcount"] = rng.choice([0, 1, 2])
    elif z < 0.75 and g["edges"]:
        rng.choice(g["edges"])[2]["order"] = rng.choice([1, 2, 1.5])
    elif z < 0.88 and g["edges"]:
        g["edges"].pop(rng.randrange(len(g["edges"])))
    elif len(ids) >= 2:
        have = {frozenset((u, v)) for u, v, _ in g["edges"]}
        cand = [(u, v) for u, v in itertools.combinations(ids, 2) if frozenset((u, v)) not in have]
        if cand:
            u, v = rng.choice(cand)
            g["edges"].append([u, v, {"order": rng.choice([1, 2])}])
    return g


def _rand_graph(rng, n, hc=True):
    g = G.random_graph(rng, n, p_edge=rng.choice([0.2, 0.4, 0.6]), elements=("C", "C", "O", "N"), orders=(1, 1, 2, 1.5),
                       charges=(0, 0, 0, 1, -1), hcounts=(0, 0, 1, 2) if hc else (0,), connected=rng.random() < 0.5)
    for _, a in g["nodes"]:
        a.pop("atom_map", None)
        a.pop("aromatic", None)
        if not hc or rng.random() < 0.15:
            a.pop("hcount", None)
    if rng.random() < 0.2:               # some un-annotated bonds (an absent edge attribute is None for the matchers, 1 for graph_isomorphism)
        for e in g["edges"]:
            if rng.random() < 0.3:
                e[2].pop("order", None)
    return g


def _sub_pattern(rng, host, induced):
    ids = [n for n, _ in host["nodes"]]
    k = rng.randint(1, max(1, len(ids) - 1))
    keep = set(rng.sample(ids, k))
    nodes = []
    for n, a in host["nodes"]:
        if n in keep:
            a = dict(a)
            if "hcount" in a and rng.random() < 0.4:
                a["hcount"] = rng.randint(0, a["hcount"])
            nodes.append([n, a])
    edges = [[u, v, dict(a)] for u, v, a in host["edges"] if u in keep and v in keep and (induced or rng.random() < 0.6)]
    return {"nodes": nodes, "edges": edges}


def _cache_trio():
    """Graph objects for the exhaustive query sequences: same skeleton, charges differ."""
    def g(ids, charges, elems=("C", "O")):
        return {"nodes": [[i, {"element": e, "charge": c}] for i, e, c in zip(ids, elems, charges)],
                "edges": [[ids[0], ids[1], {"order": 1}]]}
    return [g((1, 2), (0, 0)), g((7, 5), (0, -1)), g((4, 3), (0, 0)), ]


def _edit_cp(g, rng):
    """Count-preserving edit: one attribute value changes, nodes and edges stay."""
    g = {"nodes": [[n, dict(a)] for n, a in g["nodes"]], "edges": [[u, v, dict(a)] for u, v, a in g["edges"]]}
    z = rng.random()
    if g["edges"] and rng.random() < 0.1:       # annotation of one bond removed / added (order 1)
        e = rng.choice(g["edges"])[2]
        if "order" in e:
            e.pop("order")
        else:
            e["order"] = 1
    elif g["edges"] and z < 0.35:
        e = rng.choice(g["edges"])[2]
        e["order"] = rng.choice([x for x in (1, 2, 1.5) if x != e.get("order")])
    elif g["nodes"]:
        a = rng.choice(g["nodes"])[1]
        if z < 0.7:
            a["charge"] = rng.choice([x for x in (0, 1, -1) if x != a.get("charge")])
        elif z < 0.85:
            a["element"] = rng.choice([x for x in ("C", "O", "N") if x != a.get("element")])
        else:
            a["hcount"] = rng.choice([x for x in (0, 1, 2) if x != a.get("hcount")])
    return g


def _zoo():
    """Degenerate values: empty graph, single nodes, attributes absent on some nodes / edges only, falsy values."""
    def g(nodes, edges=()):
        return {"nodes": [[n, dict(a)] for n, a in nodes], "edges": [[u, v, dict(a)] for u, v, a in edges]}
    C0, Cn, O0 = {"element": "C", "charge": 0}, {"element": "C"}, {"element": "O", "charge": 0}
    return [
        g([]),
        g([(1, {})]),
        g([(1, C0)]), g([(1, Cn)]), g([(1, {"charge": 0})]), g([(1, {"element": "", "charge": 0.0})]),
        g([(1, {"element": "C", "charge": 0, "hcount": 0})]), g([(1, {"element": "C", "charge": 0, "hcount": 1})]),
        g([(1, {"element": "C", "charge": 0, "atom_map": 0})]), g([(1, {"element": "C", "charge": 0, "atom_map": 3})]),
        g([(1, C0), (2, C0)]), g([(1, C0), (2, Cn)]), g([(1, {}), (2, {})]),
        g([(1, C0), (2, C0)], [(1, 2, {"order": 1})]), g([(1, C0), (2, C0)], [(1, 2, {})]), g([(1, C0), (2, C0)], [(1, 2, {"order": 0})]),
        g([(1, C0), (2, C0)], [(1, 2, {"order": 1.0, "standard_order": 0})]), g([(1, Cn), (2, O0)], [(1, 2, {"order": 1})]),
        g([(1, C0), (2, {"element": "O"}), (3, C0)], [(1, 2, {"order": 1}), (2, 3, {"order": 1})]),
        g([(1, Cn), (2, C0), (3, {"element": "C", "charge": 1})], [(1, 2, {"order": 1}), (2, 3, {"order": 1}), (1, 3, {"order": 1})]),
        g([(1, Cn), (2, C0), (3, {"element": "C", "charge": 1}), (4, O0)], [(4, 1, {"order": 1}), (4, 2, {"order": 1}), (4, 3, {})]),
        # list-valued attributes as SynKit's own converters write them (neighbors: list; typesGH: tuple of tuples holding that list)
        g([(1, dict(C0, neighbors=["O"], typesGH=[["C", False, 3, 0, ["O"]], ["C", False, 3, 0, ["O"]]])),
           (2, dict(O0, neighbors=["C"], typesGH=[["O", False, 1, 0, ["C"]], ["O", False, 1, 0, ["C"]]]))], [(1, 2, {"order": 1})]),
        g([(1, dict(C0, neighbors=["C", "O"])), (2, dict(O0, neighbors=["C"])), (3, dict(C0, neighbors=["C"]))], [(1, 2, {"order": 1}), (1, 3, {"order": 1})]),
        g([(1, dict(C0, neighbors=[])), (2, dict(C0))]),
    ]


def _gen_mccs(tier, rng):
    """Common-subgraph helpers (graph_morphism.maximum_connected_common_subgraph / heuristics_MCCS): small graphs, every relation."""
    cases = []
    sels = ["default", "default", [["element", "*"], ["charge", 0]], [["element", "*"]], [["charge", 0], ["element", "*"]], [],
            [["element", "C"], ["charge", 0]]]
    for t in range(120 if tier == "quick" else 600):
        n = rng.randint(1, 5)
        a = _rand_graph(rng, n, hc=rng.random() < 0.3)
        z = rng.random()
        if z < 0.2:
            b = _present(a, rng, extra=10)
        elif z < 0.45:
            b = _edit(_present(a, rng, extra=10), rng)
        elif z < 0.7:
            b = _present(_sub_pattern(rng, a, induced=rng.random() < 0.6), rng, extra=10)
        elif z < 0.9:
            b = _rand_graph(rng, rng.randint(1, 5), hc=False)
        else:
            b = {"nodes": [], "edges": []}
        c = _edit(_present(a, rng, extra=10), rng) if rng.random() < 0.6 else _rand_graph(rng, rng.randint(1, 4), hc=False)
        gs = [a, b, c]
        if rng.random() < 0.4:      # the default edge attribute of these helpers is "standard_order" (absent = 1)
            for g in gs:
                for e in g["edges"]:
                    if rng.random() < 0.7:
                        e[2]["standard_order"] = rng.choice([1, 1, 2, 0])
        qs = []
        for (i, j) in ((0, 1), (1, 0), (0, 2), (0, 0)):
            qs.append(["mccs", i, j, rng.choice(sels), rng.choice(["default", "default", "order", "standard_order"])])
        qs.append(["hmccs", rng.choice([[0, 1, 2], [1, 0, 2], [2, 1, 0], [0, 1], [0], [], [0, 2, 1, 0]]), rng.choice(sels), rng.choice(["default", "order"])])
        cases.append(dict(kind="mccs", graphs=gs, engines=[], queries=qs))
    return cases


SMILES_PAIRS = [("CCO", "OCC"), ("CCO", "COC"), ("CC(=O)O", "OC(C)=O"), ("CC(=O)O", "CC(O)=O"), ("c1ccccc1", "C1=CC=CC=C1"), ("CCN", "CCO"),
                ("C[N+](C)(C)C", "CN(C)C"), ("CC(C)O", "CCCO"), ("CCO", "CC"), ("OCCO", "CO"), ("C=CC=O", "C=C"), ("[O-]C=O", "OC=O"),
                ("NCC(=O)O", "OC(=O)CN"), ("CC#N", "N#CC"), ("C1CC1", "CCC"), ("ClCCl", "ClCBr"), ("CS(C)=O", "CSC"), ("c1ccncc1", "c1ccccc1")]


def _gen_synkit(tier, rng):
    """Graphs as SynKit's own converter writes them (smiles_to_graph: element, aromatic, hcount, charge, neighbors (a LIST), atom_map):
    the same molecule written in another atom order, isomers, substructures; engines that select the list-valued attribute."""
    from synkit.IO.chem_converter import smiles_to_graph
    cases = []
    sels = [(["element", "neighbors"], ["order"]), (["element", "charge", "neighbors", "aromatic"], ["order"]), (["neighbors"], []),
            (["element", "charge"], ["order"]), (["element", "aromatic"], [])]
    for a, b in SMILES_PAIRS:
        ga, gb = G.from_nx(smiles_to_graph(a)), G.from_nx(smiles_to_graph(b))
        gs = [ga, _present(gb, rng, extra=12), _present(ga, rng, extra=12)]
        es = []
        for na, ea in rng.sample(sels, 3):
            es.append({"na": list(na), "ea": list(ea), "wl": True, "mm": rng.choice([None, 1])})
        es.append(dict(es[0], wl=False))
        if tier == "quick" and len(ga["nodes"]) > 5:
            for s in es:
                if s["na"] == ["neighbors"]:
                    s["mm"] = 2
        cases.append(dict(kind="synkit", graphs=gs, engines=es,
                          queries=_battery(rng, [(0, 1), (1, 0), (0, 2)], len(es), nosubs=((0, 2),), alt=False, nfixed=4)))
    return cases


RSMI = ["[CH3:1][OH:2].[H:3][Cl:4]>>[CH3:1][Cl:4].[H:3][OH:2]",
        "[CH3:1][CH2:2][Br:3].[OH2:4]>>[CH3:1][CH2:2][OH:4].[BrH:3]",
        "[CH2:1]=[CH2:2].[H:3][H:4]>>[CH3:1][CH3:2]",
        "[CH3:1][C:2](=[O:3])[OH:4].[CH3:5][OH:6]>>[CH3:1][C:2](=[O:3])[O:6][CH3:5].[OH2:4]",
        "[CH3:1][CH:2]=[O:3].[H:4][C:5]#[N:6]>>[CH3:1][CH:2]([OH:3])[C:5]#[N:6]",
        "[CH3:1][Cl:2].[NH3:3]>>[CH3:1][NH2:3].[ClH:2]",
        "[CH3:1][CH2:2][OH:3]>>[CH2:1]=[CH2:2].[OH2:3]",
        "[CH3:1][Br:2].[CH3:3][O-:4]>>[CH3:1][O:4][CH3:3].[Br-:2]"]


def _gen_its(tier, rng):
    """ITS graphs as SynKit builds them (tuple-valued `order`, `typesGH` tuples holding the `neighbors` lists, negative
    `standard_order`): a reaction against its renumbered copy, against ANOTHER reaction, and its reaction centre (a strictly smaller
    pattern) inside it — the central use of get_mappings in SynKit."""
    from synkit.IO.chem_converter import rsmi_to_its
    cases = []
    sels = [(["element", "charge"], ["order"]), (["typesGH"], ["order"]), (["element", "neighbors"], ["standard_order"]),
            (["element", "aromatic", "charge"], ["order", "standard_order"]), (["typesGH", "element"], [])]
    full = [G.from_nx(rsmi_to_its(r, core=False)) for r in RSMI]
    core = [G.from_nx(rsmi_to_its(r, core=True)) for r in RSMI]
    for k in range(len(RSMI)):
        other = full[(k + 1 + rng.randrange(len(RSMI) - 1)) % len(RSMI)]
        gs = [full[k], _present(core[k], rng, extra=12), _present(full[k], rng, extra=12), _present(other, rng, extra=12)]
        es = []
        for na, ea in rng.sample(sels, 3):
            es.append({"na": list(na), "ea": list(ea), "wl": True, "mm": rng.choice([None, None, 1])})
        es.append(dict(es[0], wl=False))
        cases.append(dict(kind="its", graphs=gs, engines=es,
                          queries=_battery(rng, [(0, 1), (1, 0), (0, 2), (0, 3)], len(es), nosubs=((0, 2), (0, 3)), alt=False, nfixed=4)))
    return cases


def _gen_corpus(tier, rng):
    """Reaction centres inside their ITS graphs from the repository's test corpus (Data/Testcase/graph.pkl.gz, 20-40 atoms): the
    strictly-smaller-pattern path of get_mappings on the graphs SynKit really works with; label selections kept strong."""
    import os
    from synkit.IO.data_io import load_from_pickle
    import synkit
    path = os.path.join(os.path.dirname(os.path.dirname(synkit.__file__)), "Data", "Testcase", "graph.pkl.gz")
    if not os.path.exists(path):
        return []
    data = load_from_pickle(path)
    cases = []
    sels = [(["element", "charge"], ["order"]), (["typesGH"], ["order"]), (["element", "neighbors", "charge"], ["standard_order"]),
            (["element", "aromatic", "charge"], ["order"])]
    for d in data[:(10 if tier == "quick" else 40)]:
        its, rc = G.from_nx(d["ITS"]), G.from_nx(d["RC"])
        if len(its["nodes"]) > 45:
            continue
        gs = [its, _present(rc, rng, extra=60)]
        es = []
        for na, ea in rng.sample(sels, 2):
            es.append({"na": list(na), "ea": list(ea), "wl": True, "mm": rng.choice([None, 1, 3])})
        es.append(dict(es[0], wl=False))
        qs = []
        for e in range(len(es)):
            qs += [["maps", e, 0, 1], ["iso", e, 0, 1], ["iso", e, 1, 0], ["pre", e, 0, 1], ["maps", e, 1, 0], ["iso", e, 1, 1]]
        for v in ("sm", "gm", "is"):
            for filt in (False, True):
                qs.append(["sub", v, 1, 0, filt, rng.choice(["induced", "mono"]), NAMES_DEF, "order"])
        rng.shuffle(qs)
        cases.append(dict(kind="corpus", graphs=gs, engines=es, queries=qs))
    return cases


def _gen_pairs4(rng, classes4):
    """Thorough tier: ALL unordered pairs of 4-node iso classes with the same element multiset and the same number of bonds (13 835
    pairs incl. every class against a renumbered copy of itself) — the pairs of equal order where an isomorphism decision, the WL
    filter and the equal-size shortcut are not decided by the counts alone.  25 partners share one graph object per case."""
    import collections
    grp = collections.defaultdict(list)
    for g in classes4:
        grp[(tuple(sorted(a.get("element") for _, a in g["nodes"])), len(g["edges"]))].append(g)
    es = [dict(E_FULL), dict(E_FULL, wl=True), {"na": ["element"], "ea": ["order"], "wl": True, "mm": 1}]
    cases = []
    for key in sorted(grp, key=repr):
        members = grp[key]
        for i, a in enumerate(members):
            partners = members[i:]
            for off in range(0, len(partners), 25):
                chunk = partners[off:off + 25]
                gs = [_present(a, rng)] + [_present(b, rng, extra=9) for b in chunk]
                qs = []
                for k in range(1, len(gs)):
                    qs += [["iso", 0, 0, k], ["iso", 1, k, 0], ["maps", 1, 0, k], ["iso", 2, 0, k],
                           ["sub", "sm", k, 0, True, "induced", NAMES_DEF, "order"], ["sub", "gm", 0, k, False, "mono", NAMES_DEF, "order"],
                           ["giso", 0, k], ["fgi", k, 0, True, True]]
                rng.shuffle(qs)
                cases.append(dict(kind="pairs4", graphs=gs, engines=[dict(e) for e in es], queries=qs))
    return cases


def gen_cases(tier, rng):
    cases = _gen_mccs(tier, rng) + _gen_synkit(tier, rng) + _gen_its(tier, rng) + _gen_corpus(tier, rng)
    # ---- degenerate values: all ordered pairs of the zoo (second graph renumbered), every entry point
    zoo = _zoo()
    for a in zoo:
        for b in zoo:
            gs = [a, _present(b, rng)]
            es = _engines(rng)
            es[2] = {"na": ["element", "charge"], "ea": ["order"], "wl": True, "mm": 1, "omit": ["max_mappings"]}
            if rng.random() < 0.5:
                es[3] = {"na": ["charge"], "ea": [], "wl": True, "mm": None}
            cases.append(dict(kind="degenerate", graphs=gs, engines=es, queries=_battery(rng, [(0, 1)], len(es), nfixed=5, thin=0.3)))
    # ---- sizes >= 10 nodes (two-digit ids and counts): relabelled copy / one edit / planted sub-pattern
    for t in range(12 if tier == "quick" else 40):
        n = rng.randint(10, 14)
        a = _rand_graph(rng, n, hc=rng.random() < 0.5)
        z = t % 4
        if z == 3:          # homogeneous host (all C, neutral, order 1) and a 1-3 node induced pattern: MANY embeddings
            for _, at in a["nodes"]:
                at.update(element="C", charge=0)
                at.pop("hcount", None)
            for e in a["edges"]:
                e[2]["order"] = 1
            keep = set(rng.sample([n_ for n_, _ in a["nodes"]], rng.randint(1, 3)))
            b = _present({"nodes": [[n_, dict(at)] for n_, at in a["nodes"] if n_ in keep],
                          "edges": [[u, v, dict(at)] for u, v, at in a["edges"] if u in keep and v in keep]}, rng, extra=90)
        else:
            b = _present(a, rng, extra=90) if z == 0 else _edit(_present(a, rng, extra=90), rng) if z == 1 else \
                _present(_sub_pattern(rng, a, induced=True), rng, extra=90)
        es = [dict(E_FULL), dict(E_FULL, wl=True), {"na": ["charge", "element"], "ea": ["order"], "wl": True, "mm": 2}]
        cases.append(dict(kind="big", graphs=[a, b], engines=es, queries=_battery(rng, [(0, 1), (1, 0)], len(es), alt=False)))
    # ---- graph OBJECTS edited in place between queries (count-preserving and count-changing edits), results spoiled by the caller
    for _ in range(200 if tier == "quick" else 1000):
        base = _rand_graph(rng, rng.randint(1, 5), hc=rng.random() < 0.5)
        vals = [base, _present(base, rng, extra=9)]
        vals.append(_edit_cp(vals[0], rng) if rng.random() < 0.7 else _edit(vals[0], rng))
        vals.append(_edit_cp(vals[1], rng) if rng.random() < 0.7 else _edit(vals[1], rng))
        es = _engines(rng)
        for s in es:
            if "wl1_filter" not in s.get("omit", ()):
                s["wl"] = rng.random() < 0.5
        def some(k):
            out = []
            for _ in range(k):
                kind = rng.choice(["iso", "iso", "maps", "pre", "sub", "giso", "fgi"])
                i, j = rng.choice([(0, 1), (1, 0), (0, 0)])
                if kind in ("iso", "maps", "pre"):
                    out.append([kind, rng.randrange(len(es)), i, j])
                elif kind == "sub":
                    out.append(["sub", rng.choice(["sm", "is", "gm", "isp"]), i, j, rng.random() < 0.5, rng.choice(["induced", "mono"]), NAMES_DEF, "order"])
                elif kind == "giso":
                    out.append(["giso", i, j])
                else:
                    out.append(["fgi", i, j, True, rng.random() < 0.5])
            return out
        qs = some(rng.randint(2, 5)) + [["edit", 0, 2]] + some(rng.randint(2, 5)) + [["edit", 1, 3]] + some(rng.randint(2, 4))
        if rng.random() < 0.5:
            qs += [["edit", 0, 0]] + some(rng.randint(1, 3))
        cases.append(dict(kind="edited", graphs=vals, objects=2, engines=es, queries=qs))
    # ---- NEW graph objects derived from objects of the history (copy / subgraph().copy() / relabel_nodes / Graph(g) / deepcopy), then
    #      edited by the caller and compared with independently built graphs: nothing cached for the source may ride along
    for _ in range(150 if tier == "quick" else 600):
        base = _rand_graph(rng, rng.randint(2, 5), hc=rng.random() < 0.4)
        v_ed = _edit_cp(base, rng) if rng.random() < 0.6 else _edit(base, rng)
        if [n for n, _ in v_ed["nodes"]] != [n for n, _ in base["nodes"]]:
            v_ed = _edit_cp(base, rng)
        vals = [base, _present(base, rng, extra=9), _present(base, rng, extra=9), _present(v_ed, rng, extra=9), v_ed, base]
        es = _engines(rng)
        for s in es:
            if "wl1_filter" not in s.get("omit", ()):
                s["wl"] = rng.random() < 0.8

        def some(k, pairs):
            out = []
            for _ in range(k):
                kind = rng.choice(["iso", "iso", "maps", "pre", "sub", "giso", "fgi"])
                i, j = rng.choice(pairs)
                if kind == "sub":
                    out.append(["sub", rng.choice(["sm", "gm", "is"]), i, j, rng.random() < 0.5, rng.choice(["induced", "mono"]), NAMES_DEF, "order"])
                elif kind == "giso":
                    out.append(["giso", i, j])
                elif kind == "fgi":
                    out.append(["fgi", i, j, True, rng.random() < 0.5])
                else:
                    out.append([kind, rng.randrange(len(es)), i, j])
            return out
        mode = rng.choice(["copy", "copy", "sub", "relabel", "class", "deepcopy", "fresh"])
        qs = some(rng.randint(3, 6), [(0, 1), (1, 0), (0, 0)]) + [["new", 2, 0, mode, 4]] + some(rng.randint(3, 6), [(2, 3), (3, 2), (2, 0), (0, 2)])
        if rng.random() < 0.5:      # a second generation: derived from the derived object, edited back to the original value
            qs += [["new", 1, 2, rng.choice(["copy", "sub", "relabel", "class"]), 5]] + some(rng.randint(2, 4), [(1, 0), (0, 1), (1, 2), (1, 3)])
        cases.append(dict(kind="derived", graphs=vals, objects=4, engines=es, queries=qs))
    noh = {n: G.iso_classes(n, G.MOL_NODE_LABELS_NOH, G.MOL_EDGE_LABELS) for n in (1, 2, 3, 4)}
    wh = {n: G.iso_classes(n, G.MOL_NODE_LABELS, G.MOL_EDGE_LABELS) for n in (1, 2, 3)}
    if tier == "thorough":
        cases += _gen_pairs4(rng, noh[4])
    # ---- all unordered pairs of iso classes (each also against a relabelled copy of itself)
    reps = noh[1] + noh[2] + noh[3] + (noh[4] if tier == "thorough" else [])
    if tier == "thorough" and len(reps) > 450:
        # pairs involving a 4-node class: all equal-size pairs + a sample of the rest
        small = noh[1] + noh[2] + noh[3]
        pairs = [(a, b) for a, b in itertools.combinations_with_replacement(small, 2)]
        pairs += [(a, b) for a, b in itertools.combinations_with_replacement(noh[4], 2)] if len(noh[4]) < 200 else \
                 [(rng.choice(noh[4]), rng.choice(noh[4])) for _ in range(5000)]
        pairs += [(rng.choice(small), rng.choice(noh[4])) for _ in range(2000)]
    else:
        pairs = list(itertools.combinations_with_replacement(reps, 2))
    for a, b in pairs:
        ga, gb = _present(a, rng), _present(b, rng)
        gs = [ga, gb, _present(a, rng, extra=9)]
        es = _engines(rng)
        cases.append(dict(kind="pairs", graphs=gs, engines=es, queries=_battery(rng, [(0, 1), (1, 0), (0, 2)], len(es), nosubs=((0, 2),), nfixed=5, thin=0.5)))
    # ---- hcount alphabet: ordered pairs
    hsmall = wh[1] + wh[2]
    hp = [(a, b) for a in hsmall for b in hsmall]
    n3 = 400 if tier == "quick" else 2500
    hp += [(rng.choice(wh[3]), rng.choice(wh[3] if rng.random() < 0.7 else hsmall)) for _ in range(n3)]
    for a, b in hp:
        gs = [_present(a, rng), _present(b, rng)]
        if rng.random() < 0.3:
            gs.append(_edit(_present(a, rng, extra=9), rng) if rng.random() < 0.5 else _present(a, rng, extra=9))
        es = _engines(rng)
        prs = [(0, 1), (1, 0)] + ([(0, 2), (2, 0)] if len(gs) == 3 else [])
        cases.append(dict(kind="hcount-pairs", graphs=gs, engines=es, queries=_battery(rng, prs, len(es), nosubs=((2, 0),), nfixed=5, thin=0.5)))
    # ---- random pairs <= 8 nodes: relabelled copies, one-edit neighbours, planted sub-patterns
    for _ in range(600 if tier == "quick" else 2500):
        n = rng.randint(1, 8) if rng.random() < 0.5 else rng.randint(1, 6)
        a = _rand_graph(rng, n, hc=rng.random() < 0.6)
        two = rng.random() < 0.25           # a second edge attribute, selected by an engine with TWO edge attributes
        if two:
            for e in a["edges"]:
                e[2]["standard_order"] = rng.choice([0, 0, 1, -1])
        z = rng.random()
        if z < 0.3:
            b = _present(a, rng, extra=10)
        elif z < 0.6:
            b = _edit(_present(a, rng, extra=10), rng)
        elif z < 0.85:
            b = _present(_sub_pattern(rng, a, induced=rng.random() < 0.5), rng, extra=10)
        else:
            b = _rand_graph(rng, rng.randint(1, n), hc=True)
        gs = [a, b]
        es = _engines(rng)
        if two:
            if b["edges"] and rng.random() < 0.5:       # the copy differs in the SECOND selected edge attribute only
                e = rng.choice(b["edges"])[2]
                e["standard_order"] = rng.choice([x for x in (0, 1, -1) if x != e.get("standard_order")])
            es[2] = {"na": ["element", "charge"], "ea": rng.choice([["order", "standard_order"], ["standard_order", "order"]]), "wl": rng.random() < 0.5, "mm": None}
        if n > 6:      # keep enumeration of all embeddings bounded
            for s in es:
                if s["mm"] is None and (not s["na"] or s["na"] == ["element"]):
                    s["mm"] = 2
        qs = _battery(rng, [(0, 1), (1, 0)], len(es))
        cases.append(dict(kind="random", graphs=gs, engines=es, queries=qs))
    # ---- exhaustive short query sequences on shared graph objects x 2 engines (cache histories)
    trio = _cache_trio()
    e2 = [{"na": ["element", "charge"], "ea": ["order"], "wl": True, "mm": None}, {"na": ["element"], "ea": ["order"], "wl": True, "mm": None}]
    opts_iso = [["iso", e, i, j] for e in (0, 1) for (i, j) in ((0, 1), (0, 2), (1, 2))]
    opts_all = [[k, e, i, j] for k in ("iso", "maps") for e in (0, 1) for i in range(3) for j in range(3)]
    for L in (1, 2, 3, 4):
        for seq in itertools.product(opts_iso, repeat=L):
            cases.append(dict(kind="seq-exh", graphs=trio, engines=e2, queries=[list(q) for q in seq]))
    for seq in itertools.product(opts_all, repeat=2):
        cases.append(dict(kind="seq-exh2", graphs=trio, engines=e2, queries=[list(q) for q in seq]))
    # three engines whose selections are a permutation (0, 1) resp. a subset (2) of each other, WL on: all sequences <= 3
    e3 = [{"na": ["element", "charge"], "ea": ["order"], "wl": True, "mm": None}, {"na": ["charge", "element"], "ea": ["order"], "wl": True, "mm": None},
          {"na": ["element"], "ea": ["order"], "wl": True, "mm": None}]
    opts3 = [["iso", e, i, j] for e in (0, 1, 2) for (i, j) in ((0, 1), (0, 2), (1, 2))]
    for L in (1, 2, 3):
        for seq in itertools.product(opts3, repeat=L):
            cases.append(dict(kind="seq-exh3", graphs=trio, engines=e3, queries=[list(q) for q in seq]))
    if tier == "thorough":
        for seq in rng.sample(list(itertools.product(opts_all, repeat=3)), 2000):
            cases.append(dict(kind="seq-samp3", graphs=trio, engines=e2, queries=[list(q) for q in seq]))
    # ---- random long histories (up to 30 queries, 3-4 graph objects, 3-4 engines)
    for _ in range(300 if tier == "quick" else 1000):
        base = _rand_graph(rng, rng.randint(2, 5), hc=rng.random() < 0.5)
        gs = [base, _present(base, rng, extra=9), _edit(_present(base, rng, extra=9), rng)]
        if rng.random() < 0.5:
            gs.append(_present(_sub_pattern(rng, base, induced=True), rng, extra=9))
        # charge-only variants make attribute-selection-dependent histograms differ
        if rng.random() < 0.7:
            v = {"nodes": [[n, dict(a)] for n, a in gs[1]["nodes"]], "edges": gs[1]["edges"]}
            rng.choice(v["nodes"])[1]["charge"] = rng.choice([1, -1, 2])
            gs[1] = v
        gs.append(_present(base, rng, extra=9))          # a second isomorphic copy: one of the two may be cached, the other new
        es = _engines(rng)
        for s in es:
            if "wl1_filter" not in s.get("omit", ()):
                s["wl"] = rng.random() < 0.8
        if rng.random() < 0.5:      # a pair of engines listing the same attributes in different orders, both filtering
            es[1] = {"na": ["element", "charge"], "ea": ["order"], "wl": True, "mm": None}
            es[2] = {"na": ["charge", "element"], "ea": ["order"], "wl": True, "mm": rng.choice([None, 1])}
        qs = []
        for _ in range(rng.randint(5, 30)):
            k = rng.choice(["iso", "iso", "iso", "maps", "pre"])
            qs.append([k, rng.randrange(len(es)), rng.randrange(len(gs)), rng.randrange(len(gs))])
        cases.append(dict(kind="history", graphs=gs, engines=es, queries=qs))
    return cases
