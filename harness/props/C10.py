"""C10 — changing representation (SMILES, graph, explicit/implicit H, GML) loses nothing.

Case kinds (all JSON):
  label      {"element": el, "charges": [...]}          _charge_to_string / _extract_element_and_charge
  extract    {"labels": [...]}                          arbitrary label strings through the parser
  hx         {"g": graph, "nodes": None|[ids], "its": bool}   h_to_explicit / h_to_implicit on a given graph
  mol        {"smiles": s}                              smiles_to_graph -> the same conversions (+ RDKit oracle)
  parse      {"rec": [[sec, [entry...]], ...]}          GMLToNX.transform on a rendered record
  transform  {"L": g, "R": g, "K": g, "cfgs": [[reindex, eh], ...]}        NXToGML.transform on any triple
  its        {"its": graph, "cfgs": [[core, reindex, eh], ...]}            its_to_gml / gml_to_its
  smart      {"rsmi": r, "cfgs": [[core, reindex, eh], ...], "of": r0?}    smart_to_gml (RDKit half in the adapter)
  rxn        {"rsmi": r}                                 rsmi_to_its (core x explicit_hydrogen), its_to_rsmi / graph_to_rsmi up to the RWMols
  itsrsmi    {"its": graph}                              its_to_rsmi on a synthetic ITS (hydrogens in the centre, missing atom_map)
  gmlsmart   {"rec": record}                             gml_to_smart up to the RWMols
  imph       {"g": graph, "preserve": [maps]}            implicit_hydrogen with reindex False / True
graph = {"nodes": [[id, attrs]], "edges": [[u, v, attrs]]} in networkx insertion order (harness/gen/graphs.py).
entry = [0, id, label] | [1, source, target, label];  sec in 0 (left), 1 (context), 2 (right).
"""
import json
import os
import re

from ..coqrun import cN, cZ, cbool, clist, cpair, copt
from ..tok import S

PID = "C10"
COQ_HEADER = ("From Coq Require Import List NArith ZArith String.\nFrom SK Require Import lib.Tok lib.LGraph model.C10_Model model.C10_Text model.C10_Rxn model.C10_Dfs.\n"
              "Import ListNotations.\nLocal Open Scope string_scope.\nLocal Open Scope Z_scope.\n")
SHARD = 60
IMPL_TIMEOUT = 1500
COQ_TIMEOUT = 900
RULE = ("a case is non-trivial when it exercises a conversion: label with a non-zero charge; graph with an implicit or explicit "
        "hydrogen; GML record with at least one entry; ITS / reaction whose centre is non-empty; distinct = distinct inputs")
EXHAUSTIVE = {"quick": True, "thorough": True}
EXPLANATION = ("Exhaustive: every element symbol of RDKit's periodic table x charge -4..4 through _charge_to_string / "
               "_extract_element_and_charge; every molecule-like graph on <= 3 (thorough: 4) nodes over the stated alphabet through "
               "h_to_explicit / h_to_implicit (also with the optional hcount key absent); every two-atom ITS over the stated alphabet "
               "through its_to_gml / gml_to_its for all (core, reindex) settings.  Seeded random: hydrogen conversions on graphs <= 9 nodes "
               "(H-H, lone H, bridging H, node subsets, ITS mode), NXToGML.transform on arbitrary triples (colliding reindex maps), GMLToNX "
               "on arbitrary records, synthetic ITS graphs <= 7 nodes with random insertion order.  Corpus: molecules of all corpus "
               "reactions + corpus/molecules.txt (MolToGraph / GraphToMol attribute copying under three flag settings, hydrogen conversions, "
               "RDKit oracle), all corpus reactions and renumberings through the three GML routes.  The predicates the theorems are stated "
               "with (total_h, h_dom, gwfb, no_H, no_tgh, its_ok, all_tgh) are evaluated by the model on every case and compared with "
               "independent Python definitions; the distribution reports how many cases lie in each theorem's domain.  Round 5: reaction-level wrappers "
               "(rsmi_to_its options, graph_to_rsmi / its_to_rsmi / gml_to_smart up to the RWMol handed to RDKit, observed on the real call by a spy), "
               "implicit_hydrogen(reindex), the state NXToGML.transform hands to _rule_grammar (spy), DFS-style SMILES rewriting, partially mapped "
               "molecules, rule names / large and 0-based ids / sanitize=False passed positionally, object histories (the same graph or ITS object "
               "converted, edited in place without changing counts, converted again; results mutated by the caller, question asked again).  "
               "Theorems: props/C10.v.")
TRUSTED_BASE = [
    "Coq 8.16.1 kernel + vm_compute (no native_compute)",
    "hand-written model coq/model/C10_Model.v tied to synkit/IO/{nx_to_gml,gml_to_nx,chem_converter,mol_to_graph,graph_to_mol}.py and "
    "synkit/Graph/Hyrogen/_misc.py by the per-run correspondence (intermediate graphs, GML records, pre-sanitisation RWMol compared)",
    "harness encoders harness/props/C10.py (networkx graph -> Gallina literal; GML text -> record by an independent tokenizer; "
    "RDKit molecule -> (atoms, bonds) record by the RDKit getters the code itself calls)",
    "networkx 3.6 Graph insertion/iteration order semantics (modelled: add_node/add_edge/remove_node/copy/edges/relabel_nodes)",
    "RDKit (parse, sanitise, aromaticity perception, write, canonical SMILES): the two contracts are explicit premises of "
    "C10_smiles_roundtrip_under_rdkit_contract, monitored by the oracle on every molecule case",
]
ASSUMPTIONS = [
    "KNOWN FINDING (code kept): smiles_to_graph(use_index_as_atom_map=True, drop_non_aam=False) on a partially mapped molecule merges a "
    "mapped atom and an unmapped atom whose index + 1 equals that map number (C10_partial_mapping_id_collision_refuted); default flags, "
    "fully mapped / unmapped molecules and rsmi_to_graph are unaffected",
    "the model's attribute records do not distinguish a missing dictionary key from a key holding None (get_rc writes "
    "standard_order=None for an H-H bond that had no standard_order): core + explicit_hydrogen exports of hand-made ITS graphs "
    "with such a bond are outside the model's domain and are seen by the oracle only (counted under outside_model_domain)",
    "labels, element symbols: ASCII; node ids: non-negative ints; hcount/charge/atom_map: ints; bond orders: half-integers (Python's \\d and "
    "int() also accept non-ASCII decimal digits, the model's is_digit is ASCII: unreachable through the writer, whose charge strings are ASCII)",
    "domain of C10_gml_roundtrip(_reindex) / C10_two_routes_centre(_reindex) = its_ok: unique ids, one entry per bond, typesGH present with "
    "the same element (a symbol in [A-Za-z*]+) in both halves, element/charge attributes = reactant half, (before, after) orders from "
    "{absent, 1, 1.5, 2, 3} not both absent, standard_order = before - after (what ITSGraph / get_rc produce; 99% of the exported graphs "
    "of a run satisfy it, see distribution.its_ok_exports)",
    "domain of C10_h_roundtrip = graphs without explicit H, widened in round 6 (C10_h_roundtrip_bare_hydrogens) to graphs whose hydrogen atoms "
    "are all bare (no implicit hydrogens of their own, only hydrogen neighbours: H2, H+, lone H); of C10_h_total_implicit = h_dom (every explicit H has hcount 0 and at most one "
    "heavy neighbour); outside these domains the clauses fail and the proof files carry the witnesses (bridging H, H with hcount, H already explicit)",
    "hcount and aromaticity are not carried by GML (stated in C10_gml_roundtrip: gml_node); stereo and isotope labels are not carried by the graph layer",
    "h_to_explicit(its=True) (C10_h_*_any_mode): the typesGH halves stay lowered after implicit-again and bond dictionaries are "
    "normalised ((o, o) pairs, standard_order 0) — stated in the theorems (h_restore_gen, fin_edge), not a loss of the molecule",
    "explicit_hydrogen=True exports: with implicit hydrogens the export adds hydrogen atoms on purpose; the theorem "
    "(C10_gml_roundtrip_explicit_h_full, C10_gml_roundtrip_reindex_explicit_h_full) says the rule reads back as the ITS with its "
    "hydrogens explicit; with reindex=True this needs node ids >= 1 (0-based ids: a hydrogen id collides with a new id and an atom is "
    "lost, C10_reindex_explicit_h_needs_positive_ids — outside the property's quantifier, observed, regress witness)",
]
TESTED_NOT_PROVED = [
    "SMILES -> graph -> SMILES equals RDKit's canonical SMILES up to stereo: the RDKit half (parse, sanitise, aromaticity perception, write) "
    "is the premise of C10_smiles_roundtrip_under_rdkit_contract; oracle clause smiles-roundtrip on every mol case",
    "h_to_explicit / h_to_implicit leave the molecule unchanged as judged by RDKit (AddHs-canonical SMILES): oracle on every mol case "
    "(graph-level statements are proved: C10_h_total_*, C10_h_explicit_skeleton, C10_h_implicit_skeleton, C10_h_roundtrip)",
    "GML text rendering and the line tokenisation of GMLToNX.transform (glue): correspondence only, through an independent tokenizer",
    "smart_to_gml's RDKit half (rsmi_to_graph): the adapter feeds its output to the model",
    "exports of ITS graphs outside its_ok: correspondence, and the oracle (atoms, elements, both charges, (before, after) orders) whenever the "
    "graph is outside its_ok only because standard_order is not before - after (which the property text does not mention) and the export "
    "is without explicit_hydrogen (with it the writer itself reads standard_order); graphs whose "
    "node attributes disagree with typesGH or whose orders the label alphabet cannot carry: correspondence only (counted as "
    "its_outside_oracle_domain in the evidence distribution)",
    "graph_to_rsmi / its_to_rsmi / gml_to_smart: modelled up to the two RWMol handed to RDKit (observed on the real call by a spy on "
    "graph_to_smi / GraphToMol.graph_to_mol); what RDKit writes from them is not modelled",
]
LEVEL_TEXT = ("Machine-checked proof (Coq, 60 theorems, closed under the global context) over an executable model of the GML writer/reader at "
              "record level, of its_to_gml / gml_to_its / smart_to_gml / get_rc / its_decompose / ITSGraph at graph level, of h_to_explicit / "
              "h_to_implicit, and of the attribute copying of MolToGraph / GraphToMol: label round trip for every element symbol and every "
              "charge; ITS -> GML -> ITS restores atoms, both-side charges and (before, after) orders for every reaction-centre-shaped ITS, "
              "with ids kept and under the default renumbering; the export from the reaction string, from the full ITS and from its centre "
              "agree (equal records / rules that read back to the same ITS); hydrogen count preserved in both directions, heavy skeleton kept, "
              "explicit-then-implicit restores the graph; molecule -> graph -> molecule hands RDKit back the atoms and bonds it gave. "
              "SMILES<->graph through RDKit: proved only under two contracts about RDKit stated as premises, which are tested on corpus "
              "molecules + vendored list.")
LEVEL_NOTE = ("Trusted: Coq kernel, the hand-written model + encoders (tied to the code by the per-run correspondence on ~3100 quick cases, "
              "intermediate values compared), networkx ordering semantics as modelled. Modelled, not verified: RDKit; GML text tokenisation "
              "(correspondence only). Theorems are about node / bond dictionaries, not about insertion or adjacency order.")
TECHNIQUE = ("Coq 8.16 proof about an executable Gallina model + per-run correspondence (vm_compute digest vs implementation, "
             "intermediate graphs / GML records / pre-sanitisation RWMol compared) + independent property oracle (brute-force "
             "structure isomorphism for rules, RDKit canonical SMILES for molecules)")
DESIGN_REF = "DESIGN.md section 5 C10"


def _repo():
    return os.environ.get("VERIF_REPO", "/repo")


class Outside(Exception):
    pass


# =================================================================== graph <-> JSON <-> nx

def _tup(x):
    return tuple(_tup(y) for y in x) if isinstance(x, (list, tuple)) else x


def to_nx(g):
    import networkx as nx
    G = nx.Graph()
    for n, a in g["nodes"]:
        a = dict(a)
        if "typesGH" in a:
            t = a["typesGH"]
            a["typesGH"] = tuple(tuple(list(r[:4]) + [list(r[4]) if len(r) > 4 else []]) for r in t)
        G.add_node(n, **a)
    for u, v, a in g["edges"]:
        a = dict(a)
        if isinstance(a.get("order"), list):
            a["order"] = tuple(a["order"])
        G.add_edge(u, v, **a)
    return G


NODE_KEYS = ("element", "aromatic", "hcount", "charge", "atom_map", "typesGH")
EDGE_KEYS = ("order", "standard_order")


def from_nx(G):
    from ..gen.graphs import from_nx as f
    return f(G, node_keys=NODE_KEYS, edge_keys=EDGE_KEYS)


def _half(o):
    v = o * 2
    if v != int(v):
        raise Outside("order %r" % (o,))
    return int(v)


def _opt(d, k, f):
    if k not in d or d[k] is None:
        return []
    return [f(d[k])]


def _tg(t):
    return [str(t[0]), bool(t[1]), int(t[2]), int(t[3])]


def natt_obs(d):
    return [_opt(d, "element", str), _opt(d, "aromatic", bool), _opt(d, "hcount", int), _opt(d, "charge", int),
            _opt(d, "atom_map", int), _opt(d, "typesGH", lambda t: [_tg(t[0]), _tg(t[1])])]


def _ord_obs(o):
    if isinstance(o, (list, tuple)):
        return [_half(o[0]), _half(o[1])]
    return [_half(o)]


def eatt_obs(d):
    return [_opt(d, "order", _ord_obs), _opt(d, "standard_order", _half)]


def gr_obs(G):
    return [S([[n, natt_obs(d)] for n, d in G.nodes(data=True)]),
            S([[min(u, v), max(u, v), eatt_obs(d)] for u, v, d in G.edges(data=True)])]


def gr_ord_obs(G):
    return [list(G.nodes()), gr_obs(G)]


# =================================================================== Gallina encoders

def enc_str(s):
    if all(32 <= ord(c) < 127 and c != '"' for c in s):
        return '(s2l "%s")' % s
    return clist([cN(ord(c)) for c in s])


def _chk_int(x):
    if isinstance(x, bool) or not isinstance(x, int):
        raise Outside("not an int: %r" % (x,))
    return x


def enc_tg(t):
    if not isinstance(t[0], str):
        raise Outside("typesGH element")
    return "(%s, %s, %s, %s)" % (enc_str(t[0]), cbool(bool(t[1])), cZ(_chk_int(t[2])), cZ(_chk_int(t[3])))


def enc_natt(d):
    def o(k, f):
        return copt(f(d[k]) if k in d and d[k] is not None else None)
    for k in d:
        if k not in NODE_KEYS and k not in ("neighbors",):
            pass
    if "element" in d and not isinstance(d["element"], str):
        raise Outside("element")
    return "(NA %s %s %s %s %s %s)" % (
        o("element", enc_str), o("aromatic", lambda b: cbool(bool(b))), o("hcount", lambda x: cZ(_chk_int(x))),
        o("charge", lambda x: cZ(_chk_int(x))), o("atom_map", lambda x: cZ(_chk_int(x))),
        o("typesGH", lambda t: "(%s, %s)" % (enc_tg(t[0]), enc_tg(t[1]))))


def enc_eatt(d):
    o = d.get("order")
    if o is None:
        eo = "None"
    elif isinstance(o, (list, tuple)):
        eo = "(Some (OP %s %s))" % (cZ(_half(o[0])), cZ(_half(o[1])))
    else:
        eo = "(Some (OS %s))" % cZ(_half(o))
    s = d.get("standard_order")
    return "(EA %s %s)" % (eo, "None" if s is None else "(Some %s)" % cZ(_half(s)))


def enc_gr(g):
    for n, _ in g["nodes"]:
        if isinstance(n, bool) or not isinstance(n, int) or n < 0:
            raise Outside("node id %r" % (n,))
    ns = "; ".join("(%s, %s)" % (cN(n), enc_natt(a)) for n, a in g["nodes"])
    es = "; ".join("(%s, %s, %s)" % (cN(u), cN(v), enc_eatt(a)) for u, v, a in g["edges"])
    return "(LG [%s] [%s])" % (ns, es)


SEC = ["SLeft", "SContext", "SRight"]
SECNAME = ["left", "context", "right"]


def enc_rec(rec):
    def ent(e):
        if e[0] == 0:
            return "GNode %s %s" % (cN(e[1]), enc_str(e[2]))
        return "GEdge %s %s %s" % (cN(e[1]), cN(e[2]), enc_str(e[3]))
    return clist(["(%s, %s)" % (SEC[s], clist([ent(e) for e in es])) for s, es in rec])


# =================================================================== GML text <-> record (independent of the code under test)

_NODE = re.compile(r'^node \[ id (\d+) label "([^"\s]*)" \]$')
_EDGE = re.compile(r'^edge \[ source (\d+) target (\d+) label "([^"\s]*)" \]$')
_SECT = re.compile(r'^(left|context|right) \[$')


def text_to_rec(text):
    """Tokenise the text NXToGML emits into a record; None when a line is not of the expected shape."""
    lines = [l.strip() for l in text.split("\n")]
    if len(lines) < 3 or lines[0] != "rule [" or not lines[1].startswith('ruleID "') or lines[-1] != "]":
        return None
    rec, cur = [], None
    for l in lines[2:-1]:
        m = _SECT.match(l)
        if m:
            if cur is not None:
                return None
            cur = [SECNAME.index(m.group(1)), []]
            continue
        if l == "]":
            if cur is None:
                return None
            rec.append(cur)
            cur = None
            continue
        m = _NODE.match(l)
        if m and cur is not None:
            cur[1].append([0, int(m.group(1)), m.group(2)])
            continue
        m = _EDGE.match(l)
        if m and cur is not None:
            cur[1].append([1, int(m.group(1)), int(m.group(2)), m.group(3)])
            continue
        return None
    return rec if cur is None else None


def rec_to_text(rec, name="rule"):
    out = ["rule [", '   ruleID "%s"' % name]
    for s, es in rec:
        out.append("   %s [" % SECNAME[s])
        for e in es:
            if e[0] == 0:
                out.append('      node [ id %d label "%s" ]' % (e[1], e[2]))
            else:
                out.append('      edge [ source %d target %d label "%s" ]' % (e[1], e[2], e[3]))
        out.append("   ]")
    out.append("]")
    return "\n".join(out)


def rec_obs(rec):
    if rec is None:
        return ["UNPARSEABLE-TEXT"]
    return [[s, [list(e) for e in es]] for s, es in rec]


def _py_rec_okb(text):
    """independent definition of the model's rec_okb on the text the writer produced: every entry line, stripped, has a label
    without whitespace / double quote and contains no section keyword (an edge line not the word node either)"""
    for ln in text.split("\n"):
        b = ln.strip()
        if not b.startswith(("node", "edge")):
            continue
        m = re.fullmatch(r'(node \[ id \d+|edge \[ source \d+ target \d+) label "(.*)" \]', b)
        if m is None or re.search(r'[\s"\x1c-\x1f]', m.group(2)):
            return False
        if any(k in b for k in ("left", "context", "right")) or (b.startswith("edge") and "node" in b):
            return False
    return True


def _text_obs(text):
    """GMLToNX(text).transform() on an arbitrary text: the three graphs, [-1] for a self-loop (ITSGraph cannot unpack the
    one-element frozenset), [] when parsing raises (tokens.index -> ValueError, tokens[i + 1] -> IndexError, int() ->
    ValueError, self.graphs[current_section] -> KeyError)"""
    from synkit.IO.gml_to_nx import GMLToNX
    try:
        l, r, i = GMLToNX(text).transform()
    except ValueError as e:
        return [[-1]] if "unpack" in str(e) else []
    except (IndexError, KeyError):
        return []
    return [[gr_obs(l), gr_obs(r), gr_obs(i)]]


def parsed_obs(text):
    """GMLToNX(text).transform(); a self-loop edge makes ITSGraph raise ValueError (u, v = tuple(frozenset((u, u)))):
    encoded as [-1], the model reports the same condition."""
    from synkit.IO.gml_to_nx import GMLToNX
    p = GMLToNX(text)
    try:
        l, r, i = p.transform()
    except ValueError:
        if any(u == v for g in (p.graphs["left"], p.graphs["right"]) for u, v in g.edges()):
            return [-1]
        raise
    return [gr_obs(l), gr_obs(r), gr_obs(i)]


# =================================================================== implementation adapter

_MOLG = {}


def mol_graph(smiles):
    """smiles_to_graph as JSON graph (cached; deterministic)."""
    if smiles not in _MOLG:
        from synkit.IO.chem_converter import smiles_to_graph
        G = smiles_to_graph(smiles)
        _MOLG[smiles] = None if G is None else from_nx(G)
    return _MOLG[smiles]


_MG_CFGS = [(False, False), (True, True), (False, True)]      # (drop_non_aam, use_index_as_atom_map)
_MREC = {}


def mol_record(smiles):
    """what MolToGraph.transform reads from the sanitised RDKit molecule (input of the model), or None"""
    if smiles not in _MREC:
        from rdkit import Chem
        rec = None
        try:
            mol = Chem.MolFromSmiles(smiles, sanitize=False)
            if mol is not None:
                Chem.SanitizeMol(mol)
                rec = {"atoms": [[a.GetSymbol(), bool(a.GetIsAromatic()), int(a.GetTotalNumHs()), int(a.GetFormalCharge()),
                                  int(a.GetAtomMapNum())] for a in mol.GetAtoms()],
                       "bonds": [[b.GetBeginAtomIdx(), b.GetEndAtomIdx(), _half(b.GetBondTypeAsDouble())] for b in mol.GetBonds()],
                       "abonds": [[[b.GetOtherAtomIdx(a.GetIdx()), _half(b.GetBondTypeAsDouble())] for b in a.GetBonds()]
                                  for a in mol.GetAtoms()]}
        except Exception:
            rec = None
        _MREC[smiles] = rec
    return _MREC[smiles]


def _mg_obs(smiles):
    """MolToGraph.transform (through smiles_to_graph) and the RWMol GraphToMol builds from it, before sanitisation"""
    from synkit.IO.chem_converter import smiles_to_graph
    from synkit.IO.graph_to_mol import GraphToMol
    out = []
    for d, u in _MG_CFGS:
        G = smiles_to_graph(smiles, drop_non_aam=d, use_index_as_atom_map=u)
        try:
            rw = GraphToMol().graph_to_mol(G, sanitize=False, use_h_count=True)
            wm = [[[[a.GetSymbol(), int(a.GetFormalCharge()), int(a.GetAtomMapNum()),
                     [int(a.GetNumExplicitHs())] if a.GetNoImplicit() else []] for a in rw.GetAtoms()],
                   S([[min(b.GetBeginAtomIdx(), b.GetEndAtomIdx()), max(b.GetBeginAtomIdx(), b.GetEndAtomIdx()),
                       _half(b.GetBondTypeAsDouble())] for b in rw.GetBonds()])]]
        except Exception:
            wm = []
        out.append([gr_ord_obs(G), wm])
    return out


def _py_rdmol_ok(rec):
    """independent definition of the model's rdmol_ok (the contract about RDKit output behind C10_rsmi_graph_mol_ok)"""
    if rec is None:
        return False
    n = len(rec["atoms"])
    maps = [a[4] for a in rec["atoms"] if a[4] != 0]
    pairs = [frozenset(b[:2]) for b in rec["bonds"]]
    return (all(re.fullmatch(r"[A-Za-z*]+", a[0]) for a in rec["atoms"]) and all(b[2] in (2, 3, 4, 6) for b in rec["bonds"])
            and len(set(maps)) == len(maps) and all(m > 0 for m in maps)
            and all(b[0] < n and b[1] < n and b[0] != b[1] for b in rec["bonds"]) and len(set(pairs)) == len(pairs))


def enc_mol(rec):
    atoms = clist(["(RAt %s %s %s %s %s)" % (enc_str(a[0]), cbool(a[1]), cZ(a[2]), cZ(a[3]), cZ(a[4])) for a in rec["atoms"]])
    bonds = clist(["(%s, %s, %s)" % (cN(b[0]), cN(b[1]), cZ(b[2])) for b in rec["bonds"]])
    return "(%s, %s)" % (atoms, bonds)


_RXG = {}


def rxn_graphs(rsmi, sanitize=True):
    """(r, p, eo) of rsmi_to_graph + the edge iteration order of ITSGraph(r, p); None if unparsable."""
    key = rsmi if sanitize else (rsmi, False)
    if key not in _RXG:
        from synkit.IO.chem_converter import rsmi_to_graph
        from synkit.Graph.ITS.its_construction import ITSConstruction
        try:
            r, p = rsmi_to_graph(rsmi, sanitize=sanitize)
            if r is None or p is None:
                _RXG[key] = None
            else:
                its = ITSConstruction().ITSGraph(r, p)
                _RXG[key] = (from_nx(r), from_nx(p), [[u, v] for u, v in its.edges()])
        except Exception:
            _RXG[key] = None
    return _RXG[key]


def _py_h_dom(G):
    """independent definition of the model's h_dom: every explicit H has hcount 0 and at most one heavy neighbour"""
    for n, d in G.nodes(data=True):
        if d.get("element") == "H":
            if (d.get("hcount", 0) or 0) != 0:
                return False
            if sum(1 for m in G.neighbors(n) if G.nodes[m].get("element") != "H") > 1:
                return False
    return True


def _py_its_ok(I):
    """independent definition of the model's its_ok (domain of C10_gml_roundtrip)"""
    for n, d in I.nodes(data=True):
        t = d.get("typesGH")
        if not t or len(t) != 2 or not isinstance(t[0][0], str) or t[0][0] != t[1][0] or not re.fullmatch(r"[A-Za-z*]+", t[0][0]):
            return False
        if "element" not in d or "charge" not in d or d["element"] != t[0][0] or d["charge"] != t[0][3]:
            return False
    for u, v, d in I.edges(data=True):
        o = d.get("order")
        if u == v or not isinstance(o, tuple) or len(o) != 2 or any(x not in (0, 1, 1.5, 2, 3) for x in o) or o == (0, 0):
            return False
        if "standard_order" not in d or d["standard_order"] != o[0] - o[1]:
            return False
    return True


def _py_mol_ok(g):
    """independent definition of the model's mol_ok on a JSON graph (domain of C10_smart_roundtrip)"""
    ids = [n for n, _ in g["nodes"]]
    if len(set(ids)) != len(ids):
        return False
    for _, a in g["nodes"]:
        if not isinstance(a.get("element"), str) or not re.fullmatch(r"[A-Za-z*]+", a["element"]) or a.get("charge") is None:
            return False
    seen = set()
    for u, v, a in g["edges"]:
        k = frozenset((u, v))
        if u == v or k in seen or u not in ids or v not in ids or isinstance(a.get("order"), (list, tuple)) or a.get("order") not in (1, 1.5, 2, 3):
            return False
        seen.add(k)
    return True


def _py_balanced(g, h):
    eg = {n: a.get("element", "*") for n, a in g["nodes"]}
    eh = {n: a.get("element", "*") for n, a in h["nodes"]}
    return set(eg) == set(eh) and all(eg[n] == eh[n] for n in eg)


def _py_eo_covers(g, h, eo):
    pg = {frozenset((u, v)) for u, v, _ in g["edges"]} | {frozenset((u, v)) for u, v, _ in h["edges"]}
    return {frozenset((u, v)) for u, v in eo} == pg


def _hx_obs(G, nodes, its):
    from synkit.Graph.Hyrogen._misc import h_to_explicit, h_to_implicit
    e = h_to_explicit(G, nodes, its)
    i0 = h_to_implicit(G)
    from synkit.Graph.Hyrogen._misc import has_XH, has_HH
    return [[[[gr_obs(e), gr_obs(h_to_implicit(e)), gr_obs(i0)], _total_h(G), _total_h(e), _total_h(i0), _py_h_dom(G), True],
             True, all(d.get("element") != "H" for _, d in G.nodes(data=True)), all(d.get("typesGH") is None for _, d in G.nodes(data=True))],
            bool(has_XH(G)), bool(has_HH(G)), bool(has_XH(e)), bool(has_XH(i0))]


def impl(case):
    k = case["kind"]
    if k == "label":
        from synkit.IO.nx_to_gml import NXToGML
        from synkit.IO.gml_to_nx import GMLToNX
        out = []
        for c in case["charges"]:
            cs = NXToGML._charge_to_string(c)
            e, c2 = GMLToNX("")._extract_element_and_charge(case["element"] + cs)
            out.append([cs, e, c2])
        return out
    if k == "extract":
        from synkit.IO.gml_to_nx import GMLToNX
        return [list(GMLToNX("")._extract_element_and_charge(l)) for l in case["labels"]]
    if k == "hx":
        return _hx_obs(to_nx(case["g"]), case["nodes"], case["its"])
    if k == "mol":
        g = mol_graph(case["smiles"])
        if g is None:
            return ["NOGRAPH"]
        return [_hx_obs(to_nx(g), None, False), _mg_obs(case["smiles"]), _py_rdmol_ok(mol_record(case["smiles"]))]
    if k == "parse":
        return parsed_obs(rec_to_text(case["rec"]))
    if k == "transform":
        from synkit.IO.nx_to_gml import NXToGML
        out = []
        from ..gen import c10_rxn
        for reindex, eh in case["cfgs"]:
            with c10_rxn.RuleSpy(gr_ord_obs) as spy:
                text = NXToGML.transform((to_nx(case["L"]), to_nx(case["R"]), to_nx(case["K"])), reindex=reindex,
                                         explicit_hydrogen=eh)
            out.append([[rec_obs(text_to_rec(text)), parsed_obs(text)], spy.mid()])
        return out
    if k == "its":
        from synkit.IO.chem_converter import its_to_gml
        from synkit.Graph.ITS.its_decompose import get_rc, its_decompose
        out = []
        for core, reindex, eh in case["cfgs"]:
            I = to_nx(case["its"])
            c = get_rc(I) if core else I
            r, p = its_decompose(c)
            from ..gen import c10_rxn
            with c10_rxn.RuleSpy(gr_ord_obs) as spy:
                text = its_to_gml(to_nx(case["its"]), core=core, reindex=reindex, explicit_hydrogen=eh)
            out.append([[[[[[[gr_ord_obs(c), gr_ord_obs(r), gr_ord_obs(p), rec_obs(text_to_rec(text)), parsed_obs(text)], _py_its_ok(c)],
                          True, all(d.get("typesGH") is not None for _, d in I.nodes(data=True))],
                         all((d.get("hcount", 0) or 0) <= 0 for _, d in c.nodes(data=True))], text], _py_rec_okb(text)], spy.mid()])
        if case.get("rule_name") is not None:
            core, reindex, eh = case["cfgs"][0]
            t = its_to_gml(to_nx(case["its"]), core, case["rule_name"], reindex, eh)      # positional, as documented
            return [out, [t, [parsed_obs(t)]]]
        return out
    if k == "hist":
        return run_hist(case["script"])
    if k == "text":
        return _text_obs(case["text"])
    if k == "dfs":
        from synkit.IO.chem_converter import dfs_to_smiles, smiles_to_dfs, normalize_dfs_for_compare
        return [[dfs_to_smiles(x, True), dfs_to_smiles(x, keep_map=False), smiles_to_dfs(x), normalize_dfs_for_compare(x),
                 smiles_to_dfs(dfs_to_smiles(x)), dfs_to_smiles(smiles_to_dfs(x))] for x in case["strings"]]
    if k == "itshist":
        from synkit.IO.chem_converter import its_to_gml
        I = to_nx(case["its"])          # ONE object, exported, edited in place, exported again
        out = []
        for j in range(len(case["edits"]) + 1):
            # the first export after an edit repeats the options of the last export before it
            for core, reindex in (((True, False), (False, True)) if j % 2 == 0 else ((False, True), (True, False))):
                text = its_to_gml(I, core=core, reindex=reindex)
                out.append([rec_obs(text_to_rec(text)), parsed_obs(text)])
            if j < len(case["edits"]):
                _apply_its_edit(I, case["edits"][j])
        return out
    if k == "rxn":
        from ..gen import c10_rxn
        if rxn_graphs(case["rsmi"]) is None:
            return ["NOGRAPH"]
        return c10_rxn.rxn_obs(case["rsmi"], gr_ord_obs, _total_h, gr_obs)
    if k == "itsrsmi":
        from ..gen import c10_rxn
        return c10_rxn.itsrsmi_obs(to_nx(case["its"]))
    if k == "gmlsmart":
        from ..gen import c10_rxn
        return c10_rxn.gmlsmart_obs(rec_to_text(case["rec"]))
    if k == "imph":
        from ..gen import c10_rxn
        return c10_rxn.imph_obs(to_nx(case["g"]), case["preserve"], gr_ord_obs)
    if k == "smart":
        from synkit.IO.chem_converter import smart_to_gml
        from synkit.Graph.ITS.its_construction import ITSConstruction
        san = case.get("sanitize", True)
        x = rxn_graphs(case["rsmi"], san)
        if x is None:
            return ["NOGRAPH"]
        its = ITSConstruction().ITSGraph(to_nx(x[0]), to_nx(x[1]))
        out = []
        dom = [_py_mol_ok(x[0]), _py_mol_ok(x[1]), _py_balanced(x[0], x[1]), _py_eo_covers(x[0], x[1], x[2])]
        sf = all(a.get("standard_order") is None for g in x[:2] for _, _, a in g["edges"])
        for core, reindex, eh in case["cfgs"]:
            if san:
                text = smart_to_gml(case["rsmi"], core=core, reindex=reindex, explicit_hydrogen=eh)
            else:       # positional: smart, core, sanitize, rule_name, reindex, explicit_hydrogen
                text = smart_to_gml(case["rsmi"], core, False, "rule", reindex, eh)
            out.append([[[gr_obs(its), rec_obs(text_to_rec(text)), parsed_obs(text)]] + dom, sf])
        return out
    raise AssertionError(k)


# =================================================================== model encoder

def coq_case(case):
    k = case["kind"]
    try:
        if k == "label":
            return "run_label %s %s" % (enc_str(case["element"]), clist([cZ(c) for c in case["charges"]]))
        if k == "extract":
            return "run_extract %s" % clist([enc_str(l) for l in case["labels"]])
        if k == "hx":
            nodes = case["nodes"]
            return "run_hx4 %s %s %s" % (enc_gr(case["g"]), copt(None if nodes is None else clist([cN(n) for n in nodes])),
                                        cbool(case["its"]))
        if k == "mol":
            g = mol_graph(case["smiles"])
            if g is None:
                return None
            rec = mol_record(case["smiles"])
            if rec is None:
                return None
            return "(let m := %s in L [run_hx4 %s None false; L [%s]; tbool (rdmol_ok m)])" % (
                enc_mol(rec), enc_gr(g), "; ".join("run_molgraph m %s %s" % (cbool(d), cbool(u)) for d, u in _MG_CFGS))
        if k == "parse":
            return "run_parse %s" % enc_rec(case["rec"])
        if k == "transform":
            return clistL(["run_transform2 %s %s %s %s %s" % (enc_gr(case["L"]), enc_gr(case["R"]), enc_gr(case["K"]),
                                                            cbool(a), cbool(b)) for a, b in case["cfgs"]])
        if k == "its":
            if any(c[0] and c[2] for c in case["cfgs"]) and _hh_without_std(case["its"]):
                return None      # see _hh_without_std: outside the model's domain (oracle only)
            g = enc_gr(case["its"])
            body = clistL(["run_its7 g %s %s %s" % (cbool(a), cbool(b), cbool(c)) for a, b, c in case["cfgs"]])
            if case.get("rule_name") is not None:
                a, b, c = case["cfgs"][0]
                body = "L [%s; run_its_named g %s %s %s %s]" % (body, cbool(a), cbool(b), cbool(c), enc_str(case["rule_name"]))
            return "(let g := %s in %s)" % (g, body)
        if k == "hist":
            return coq_hist(case["script"])
        if k == "text":
            return "run_text2 %s" % enc_str(case["text"])
        if k == "dfs":
            if any(ord(ch) > 127 for x in case["strings"] for ch in x):
                return None
            return "run_dfs %s" % clist([enc_str(x) for x in case["strings"]])
        if k == "itshist":
            parts = []
            for j, g in enumerate(_its_after_edits(case)):
                for core, reindex in (((True, False), (False, True)) if j % 2 == 0 else ((False, True), (True, False))):
                    parts.append("(let rec := its_to_gml %s %s %s false in L [t_rec rec; t_parsed (gml_to_nx rec)])" % (enc_gr(g), cbool(core), cbool(reindex)))
            return clistL(parts)
        if k == "rxn":
            x = rxn_graphs(case["rsmi"])
            if x is None:
                return None
            eo = clist(["(%s, %s)" % (cN(u), cN(v)) for u, v in x[2]])
            return ("(let r := %s in let p := %s in let eo := %s in let back := t_gr (gml_to_its (its_to_gml (its_construct r p eo) true true false)) in "
                    "match run_rxn r p eo with L l => L (l ++ [t_gr_ord (rsmi_to_its r p eo false false); back; back]) | t => t end)"
                    % (enc_gr(x[0]), enc_gr(x[1]), eo))
        if k == "itsrsmi":
            return "run_its_rsmi %s" % enc_gr(case["its"])
        if k == "gmlsmart":
            return "run_gml_smart %s" % enc_rec(case["rec"])
        if k == "imph":
            return "run_imph %s %s" % (enc_gr(case["g"]), clist([cZ(x) for x in case["preserve"]]))
        if k == "smart":
            x = rxn_graphs(case["rsmi"], case.get("sanitize", True))
            if x is None:
                return None
            eo = clist(["(%s, %s)" % (cN(u), cN(v)) for u, v in x[2]])
            return "(let r := %s in let p := %s in let eo := %s in %s)" % (
                enc_gr(x[0]), enc_gr(x[1]), eo,
                clistL(["run_smart3 r p eo %s %s %s" % (cbool(a), cbool(b), cbool(c)) for a, b, c in case["cfgs"]]))
    except Outside:
        return None
    raise AssertionError(k)


def _its_after_edits(case):
    """kind "itshist": the ITS after 0, 1, 2, ... of the case's in-place edits (JSON graphs; edits keep node and edge counts)"""
    import copy
    g = copy.deepcopy(case["its"])
    out = [copy.deepcopy(g)]
    for ed in case["edits"]:
        if ed[0] == "edge":
            for e in g["edges"]:
                if {e[0], e[1]} == {ed[1], ed[2]}:
                    e[2]["order"] = list(ed[3])
                    e[2]["standard_order"] = ed[3][0] - ed[3][1]
        elif ed[0] == "charge":
            for n, a in g["nodes"]:
                if n == ed[1]:
                    a["typesGH"][1][3] = ed[2]
        out.append(copy.deepcopy(g))
    return out


def _apply_its_edit(I, ed):
    if ed[0] == "edge":
        I[ed[1]][ed[2]]["order"] = tuple(ed[3])
        I[ed[1]][ed[2]]["standard_order"] = ed[3][0] - ed[3][1]
    elif ed[0] == "charge":
        t = I.nodes[ed[1]]["typesGH"]
        I.nodes[ed[1]]["typesGH"] = (t[0], tuple(list(t[1][:3]) + [ed[2]] + list(t[1][4:])))


def _hh_without_std(g):
    """an H-H bond without standard_order in a hand-made ITS: get_rc copies it with the key PRESENT and the value None,
    and the explicit_hydrogen context then skips it (None == 0 is False) while a MISSING key defaults to 0.  The model's
    attribute records do not distinguish a missing key from a key holding None, so core + explicit_hydrogen exports of such
    graphs are outside its domain (ITSGraph always writes standard_order; only random inconsistent ITS graphs get here)."""
    els = {n: a.get("element") for n, a in g["nodes"]}
    return any(els.get(u) == "H" and els.get(v) == "H" and a.get("standard_order") is None for u, v, a in g["edges"])


def clistL(terms):
    return "L [%s]" % "; ".join(terms)



# =================================================================== history cases (round 3)
# One case = a short script run in ONE impl() call on shared objects: the same SMILES converted under different attribute
# selections / flags in sequence, returned graphs edited in place and converted again, converter objects reused.  The model is
# pure, so the model value of every step is simply the fresh value; the oracle judges every step against RDKit directly.

_KNOWN = ("element", "aromatic", "hcount", "charge", "atom_map")
_DEF_ATTRS = ["element", "aromatic", "hcount", "charge", "neighbors", "atom_map"]


def _sel_of(st):
    """(set of kept known node keys, keep 'order'?) for a step's attribute options"""
    a, e = st.get("attrs"), st.get("eattrs")
    keep = set(_KNOWN) if a in (None, "ALL") else {k for k in _KNOWN if k in a}
    ko = True if e in (None, "ALL") else ("order" in e)
    return keep, ko


def _s2g_call(st):
    from synkit.IO.chem_converter import smiles_to_graph
    a, e = st.get("attrs"), st.get("eattrs")
    if st.get("pos"):       # everything positional
        return smiles_to_graph(st["smiles"], bool(st.get("drop")), True, bool(st.get("ui")),
                               None if a == "ALL" else (list(_DEF_ATTRS) if a is None else list(a)),
                               None if e == "ALL" else (["order"] if e is None else list(e)))
    kw = {}
    if a is not None:
        kw["node_attrs"] = None if a == "ALL" else list(a)
    if e is not None:
        kw["edge_attrs"] = None if e == "ALL" else list(e)
    if "drop" in st:
        kw["drop_non_aam"] = bool(st["drop"])
    if "ui" in st:
        kw["use_index_as_atom_map"] = bool(st["ui"])
    return smiles_to_graph(st["smiles"], **kw)


def _wm_obs(G):
    from synkit.IO.graph_to_mol import GraphToMol
    try:
        rw = GraphToMol().graph_to_mol(G, sanitize=False, use_h_count=True)
        return [[[[a.GetSymbol(), int(a.GetFormalCharge()), int(a.GetAtomMapNum()),
                   [int(a.GetNumExplicitHs())] if a.GetNoImplicit() else []] for a in rw.GetAtoms()],
                 S([[min(b.GetBeginAtomIdx(), b.GetEndAtomIdx()), max(b.GetBeginAtomIdx(), b.GetEndAtomIdx()),
                     _half(b.GetBondTypeAsDouble())] for b in rw.GetBonds()])]]
    except Exception:
        return []


def _apply_edit(G, what):
    op = what[0]
    if op == "hc":
        G.nodes[what[1]]["hcount"] = what[2]
    elif op == "ch":
        G.nodes[what[1]]["charge"] = what[2]
    elif op == "delch":
        G.nodes[what[1]].pop("charge", None)
    elif op == "rm":
        G.remove_node(what[1])
    else:
        raise AssertionError(op)


def run_hist(script, judge=None):
    """execute a history; returns the list of step observables.  [judge(step index, step, env, value)] is called by the
    oracle after every step."""
    from synkit.Graph.Hyrogen._misc import h_to_explicit, h_to_implicit
    env, out = {}, []
    for i, st in enumerate(script):
        op = st["op"]
        val = None
        if op == "s2g":
            G = _s2g_call(st)
            env[st["as"]] = G
            val = G
            out.append(["NONE"] if G is None else gr_ord_obs(G))
        elif op == "edit":
            _apply_edit(env[st["g"]], st["what"])
            out.append(gr_ord_obs(env[st["g"]]))
        elif op == "g2m":
            val = env[st["g"]]
            out.append(_wm_obs(env[st["g"]]))
        elif op == "hexp":
            env[st["as"]] = h_to_explicit(env[st["g"]], st.get("nodes"))
            val = env[st["as"]]
            out.append(gr_obs(val))
        elif op == "himp":
            env[st["as"]] = h_to_implicit(env[st["g"]])
            val = env[st["as"]]
            out.append(gr_obs(val))
        elif op == "obs":
            val = env[st["g"]]
            out.append(gr_ord_obs(val))
        elif op == "variants":      # the other public builders and the GraphToMol options, on one molecule
            from rdkit import Chem
            from synkit.IO.mol_to_graph import MolToGraph
            from synkit.IO.graph_to_mol import GraphToMol
            mol = Chem.MolFromSmiles(st["smiles"], sanitize=False)
            Chem.SanitizeMol(mol)
            res, val = [], []
            for d, u in _MG_CFGS:
                lw = MolToGraph.mol_to_graph(mol, d, True, u)
                dt = MolToGraph.mol_to_graph(mol, drop_non_aam=d, light_weight=False, use_index_as_atom_map=u)
                res.append([gr_ord_obs(lw), gr_ord_obs(dt)])
                val.append((d, u, lw, dt))
            full = MolToGraph(attr_profile="full", with_topology=True).transform(mol)
            res.append(gr_ord_obs(full))
            val.append((False, False, full, full))
            G = MolToGraph(node_attrs=list(_DEF_ATTRS), edge_attrs=["order"]).transform(mol)
            # GraphToMol with CUSTOM attribute names (the documented node_attributes / edge_attributes mappings) on the same graph
            # with its keys renamed: must hand RDKit the same molecule as the default names do
            import networkx as _nx
            Gc = _nx.Graph()
            ren = {"element": "symbol", "charge": "q", "atom_map": "amap"}
            for nn, dd in G.nodes(data=True):
                Gc.add_node(nn, **{ren.get(kk, kk): vv for kk, vv in dd.items()})
            for uu, vv, dd in G.edges(data=True):
                Gc.add_edge(uu, vv, **{("bo" if kk == "order" else kk): xx for kk, xx in dd.items()})
            try:
                rwc = GraphToMol(node_attributes={"element": "symbol", "charge": "q", "atom_map": "amap"},
                                 edge_attributes={"order": "bo"}).graph_to_mol(Gc, False, False, True)
                from ..gen import c10_rxn as _c10r
                res.append(_c10r.rw_obs(rwc))
            except Exception:
                res.append([])
            for ign, useh in ((True, True), (False, False), (True, False)):
                try:
                    rw = GraphToMol().graph_to_mol(G, ign, False, useh)
                    res.append([[[[a.GetSymbol(), int(a.GetFormalCharge()), int(a.GetAtomMapNum()),
                                   [int(a.GetNumExplicitHs())] if a.GetNoImplicit() else []] for a in rw.GetAtoms()],
                                 S([[min(b.GetBeginAtomIdx(), b.GetEndAtomIdx()), max(b.GetBeginAtomIdx(), b.GetEndAtomIdx()),
                                     _half(b.GetBondTypeAsDouble())] for b in rw.GetBonds()])]])
                except Exception:
                    res.append([])
            out.append(res)
        elif op == "g2s_pres":      # graph_to_smi(G, preserve_atom_maps=[...]): the implicit_hydrogen path
            from synkit.IO.chem_converter import graph_to_smi
            from synkit.Graph.Hyrogen._misc import implicit_hydrogen
            G = env[st["g"]]
            val = graph_to_smi(G, preserve_atom_maps=list(st["preserve"]))
            out.append(_wm_obs(implicit_hydrogen(G, set(st["preserve"]))) if st["preserve"] else _wm_obs(G))
        elif op == "gmlapi":        # the other ways into and out of the GML layer, on one reaction
            from synkit.IO.chem_converter import smart_to_gml, gml_to_smart, rsmi_to_rsmarts, rsmi_to_graph
            from synkit.IO.nx_to_gml import NXToGML
            from synkit.Graph.ITS.its_construction import ITSConstruction
            from synkit.Graph.ITS.its_decompose import get_rc, its_decompose
            rs = st["rsmi"]
            t0 = smart_to_gml(rs)
            try:        # the SMARTS detour is RDKit's: it cannot always be re-read ([nH] aromatics); then the route is skipped
                t1 = smart_to_gml(rsmi_to_rsmarts(rs), useSmiles=False)
            except Exception:
                t1 = t0
            t2 = smart_to_gml(rs, True, True, "nm", False, False, True)
            t3 = t0
            r, p = rsmi_to_graph(rs)
            rc = get_rc(ITSConstruction().ITSGraph(r, p))
            r1, p1 = its_decompose(rc)
            t4 = NXToGML.transform((r1, p1, rc), "x", False, ["charge", "hcount"], False)
            t5 = NXToGML().transform((r1, p1, rc), rule_name="y", reindex=True, attributes=["hcount", "charge", "aromatic"])
            val = [t0, t1, t2, t3, t4, t5]
            def norm(t):
                rec = text_to_rec(t)
                return None if rec is None else [[sec, S([[e[0], e[1], e[2]] if e[0] == 0 else [1, min(e[1], e[2]), max(e[1], e[2]), e[3]] for e in es])]
                                                 for sec, es in rec_obs(rec)]
            out.append([[rec_obs(text_to_rec(t)), parsed_obs(t)] if i != 1 else [norm(t), parsed_obs(t)] for i, t in enumerate((t0, t1, t2, t4, t5))])
        elif op == "r2g":
            from synkit.IO.chem_converter import rsmi_to_graph
            kw = {}
            if st.get("attrs") is not None:
                kw["node_attrs"] = None if st["attrs"] == "ALL" else list(st["attrs"])
            if st.get("eattrs") is not None:
                kw["edge_attrs"] = None if st["eattrs"] == "ALL" else list(st["eattrs"])
            r, p = rsmi_to_graph(st["rsmi"], **kw)
            val = (r, p)
            out.append([gr_ord_obs(r), gr_ord_obs(p)])
        elif op in ("smart", "its2gml"):
            from synkit.IO.chem_converter import smart_to_gml, its_to_gml, rsmi_to_its
            core, reindex, eh = st["cfg"]
            if op == "smart":
                text = smart_to_gml(st["rsmi"], core=core, reindex=reindex, explicit_hydrogen=eh)
            else:
                its = rsmi_to_its(st["rsmi"])
                before = gr_ord_obs(its)
                text = its_to_gml(its, core=core, reindex=reindex, explicit_hydrogen=eh)
                if gr_ord_obs(its) != before:
                    text = "MUTATED-INPUT\n" + text
            val = text
            out.append([rec_obs(text_to_rec(text)), parsed_obs(text)])
        elif op == "conv":      # ONE MolToGraph object and ONE GraphToMol object reused on a sequence of molecules
            from rdkit import Chem
            from synkit.IO.mol_to_graph import MolToGraph
            from synkit.IO.graph_to_mol import GraphToMol
            mtg = MolToGraph(node_attrs=list(_DEF_ATTRS), edge_attrs=["order"])
            gtm = GraphToMol()
            res, val = [], []
            for j, smi in enumerate(st["smiles"]):
                mol = Chem.MolFromSmiles(smi, sanitize=False)
                Chem.SanitizeMol(mol)
                G = mtg.transform(mol) if j % 2 == 0 else mtg.transform_store(mol).graph
                try:
                    rw = gtm.graph_to_mol(G, sanitize=False, use_h_count=True)
                    wm = [[[[a.GetSymbol(), int(a.GetFormalCharge()), int(a.GetAtomMapNum()),
                             [int(a.GetNumExplicitHs())] if a.GetNoImplicit() else []] for a in rw.GetAtoms()],
                           S([[min(b.GetBeginAtomIdx(), b.GetEndAtomIdx()), max(b.GetBeginAtomIdx(), b.GetEndAtomIdx()),
                               _half(b.GetBondTypeAsDouble())] for b in rw.GetBonds()])]]
                except Exception:
                    wm = []
                res.append([gr_ord_obs(G), wm])
                val.append((smi, G))
            out.append(res)
        else:
            raise AssertionError(op)
        if judge is not None:
            judge(i, st, env, val)
    return out


def _enc_asel(st):
    keep, ko = _sel_of(st)
    return "(AS %s)" % " ".join(cbool(k in keep) for k in _KNOWN), cbool(ko)


def coq_hist(script):
    """Gallina term for a history: every step is the FRESH value of the pure model"""
    recs, lets, outs, env = {}, [], [], {}

    def mvar(smi):
        if smi not in recs:
            rec = mol_record(smi)
            if rec is None:
                raise Outside("unparsable")
            recs[smi] = "m%d" % len(recs)
            lets.append("let %s := %s in" % (recs[smi], enc_mol(rec)))
        return recs[smi]
    n = 0
    for st in script:
        op = st["op"]
        if op == "s2g":
            sel, ko = _enc_asel(st)
            v = "g%d" % n
            n += 1
            lets.append("let %s := mol_to_graph_sel %s %s %s %s %s in" % (v, mvar(st["smiles"]), cbool(bool(st.get("drop"))),
                                                                       cbool(bool(st.get("ui"))), sel, ko))
            env[st["as"]] = v
            outs.append("t_gr_ord %s" % v)
        elif op == "edit":
            w = st["what"]
            v = "g%d" % n
            n += 1
            src = env[st["g"]]
            f = {"hc": lambda: "ed_set_hc %s %s %s" % (cN(w[1]), cZ(w[2]), src), "ch": lambda: "ed_set_ch %s %s %s" % (cN(w[1]), cZ(w[2]), src),
                 "delch": lambda: "ed_del_ch %s %s" % (cN(w[1]), src), "rm": lambda: "remove_node %s %s" % (src, cN(w[1]))}[w[0]]()
            lets.append("let %s := %s in" % (v, f))
            env[st["g"]] = v
            outs.append("t_gr_ord %s" % v)
        elif op == "g2m":
            outs.append("t_wmol (graph_to_mol %s)" % env[st["g"]])
        elif op in ("hexp", "himp"):
            v = "g%d" % n
            n += 1
            if op == "hexp":
                nodes = st.get("nodes")
                lets.append("let %s := h_to_explicit %s %s false in" % (v, env[st["g"]], copt(None if nodes is None else clist([cN(x) for x in nodes]))))
            else:
                lets.append("let %s := h_to_implicit %s in" % (v, env[st["g"]]))
            env[st["as"]] = v
            outs.append("t_gr %s" % v)
        elif op == "obs":
            outs.append("t_gr_ord %s" % env[st["g"]])
        elif op == "variants":
            mv = mvar(st["smiles"])
            rec = mol_record(st["smiles"])
            ab = clist([clist(["(%s, %s)" % (cN(i), cZ(o)) for i, o in bs]) for bs in rec["abonds"]])
            parts = ["L [t_gr_ord (mol_to_graph_light %s %s %s %s); t_gr_ord (mol_to_graph %s %s %s)]"
                     % (mv, ab, cbool(d), cbool(u), mv, cbool(d), cbool(u)) for d, u in _MG_CFGS]
            parts.append("t_gr_ord (mol_to_graph %s false false)" % mv)
            parts.append("t_wmol (graph_to_mol (mol_to_graph %s false false))" % mv)     # custom attribute names: the same function
            parts += ["t_wmol (graph_to_mol_gen %s %s (mol_to_graph %s false false))" % (cbool(i), cbool(u), mv)
                      for i, u in ((True, True), (False, False), (True, False))]
            outs.append("L [%s]" % "; ".join(parts))
        elif op == "g2s_pres":
            outs.append("t_wmol (graph_to_smi_mol %s %s)" % (env[st["g"]], clist([cZ(x) for x in st["preserve"]])))
        elif op == "gmlapi":
            x = rxn_graphs(st["rsmi"])
            if x is None:
                raise Outside("reaction")
            rs, ps = st["rsmi"].split(">>")
            eo = clist(["(%s, %s)" % (cN(u), cN(v)) for u, v in x[2]])
            r_, p_ = "(mol_to_graph %s true true)" % mvar(rs), "(mol_to_graph %s true true)" % mvar(ps)
            same = "(let rec := smart_to_gml %s %s %s true false false in L [t_rec rec; t_parsed (gml_to_nx rec)])" % (r_, p_, eo)
            def tr(sel, reindex):
                return ("(let c := get_rc (its_construct %s %s %s) in let rec := nx_to_gml_sel %s (fst (its_decompose c)) (snd (its_decompose c)) c %s false "
                        "in L [t_rec rec; t_parsed (gml_to_nx rec)])" % (r_, p_, eo, sel, cbool(reindex)))
            samen = "(let rec := smart_to_gml %s %s %s true false false in L [t_rec_norm rec; t_parsed (gml_to_nx rec)])" % (r_, p_, eo)
            outs.append("L [%s]" % "; ".join([same, samen, same, tr("(AS false false true true false)", False), tr("(AS false true true true false)", True)]))
        elif op == "r2g":
            sel, ko = _enc_asel(st)
            rs, ps = st["rsmi"].split(">>")
            outs.append("L [t_gr_ord (mol_to_graph_sel %s true true %s %s); t_gr_ord (mol_to_graph_sel %s true true %s %s)]"
                        % (mvar(rs), sel, ko, mvar(ps), sel, ko))
        elif op in ("smart", "its2gml"):
            x = rxn_graphs(st["rsmi"])
            if x is None:
                raise Outside("reaction")
            rs, ps = st["rsmi"].split(">>")
            eo = clist(["(%s, %s)" % (cN(u), cN(v)) for u, v in x[2]])
            core, reindex, eh = st["cfg"]
            r_, p_ = "(mol_to_graph %s true true)" % mvar(rs), "(mol_to_graph %s true true)" % mvar(ps)
            if op == "smart":
                outs.append("(let rec := smart_to_gml %s %s %s %s %s %s in L [t_rec rec; t_parsed (gml_to_nx rec)])"
                            % (r_, p_, eo, cbool(core), cbool(reindex), cbool(eh)))
            else:
                outs.append("(let rec := its_to_gml (its_construct %s %s %s) %s %s %s in L [t_rec rec; t_parsed (gml_to_nx rec)])"
                            % (r_, p_, eo, cbool(core), cbool(reindex), cbool(eh)))
        elif op == "conv":
            outs.append("L [%s]" % "; ".join("(let g := mol_to_graph %s false false in L [t_gr_ord g; t_wmol (graph_to_mol g)])" % mvar(smi)
                                           for smi in st["smiles"]))
        else:
            raise AssertionError(op)
    return "(%s L [%s])" % (" ".join(lets), "; ".join(outs))


def _ref_graph(smi, drop, ui, keep, ko):
    """what smiles_to_graph must return, from RDKit alone: {id: {kept known keys}}, {frozenset: order or None}; None when RDKit
    rejects the SMILES or the molecule is outside the property (radicals, isotopes)"""
    from rdkit import Chem
    try:
        mol = Chem.MolFromSmiles(smi, sanitize=False)
        if mol is None:
            return None
        Chem.SanitizeMol(mol)
    except Exception:
        return None
    if any(a.GetNumRadicalElectrons() or a.GetIsotope() for a in mol.GetAtoms()):
        return None
    ids, nodes = {}, {}
    for a in mol.GetAtoms():
        m = a.GetAtomMapNum()
        if drop and m == 0:
            continue
        i = m if (ui and m != 0) else a.GetIdx() + 1
        ids[a.GetIdx()] = i
        full = {"element": a.GetSymbol(), "aromatic": a.GetIsAromatic(), "hcount": a.GetTotalNumHs(), "charge": a.GetFormalCharge(),
                "atom_map": m}
        nodes.setdefault(i, {}).update({k: v for k, v in full.items() if k in keep})
    edges = {}
    for b in mol.GetBonds():
        u, v = ids.get(b.GetBeginAtomIdx()), ids.get(b.GetEndAtomIdx())
        if u is not None and v is not None:
            edges[frozenset((u, v))] = b.GetBondTypeAsDouble() if ko else None
    return nodes, edges


def _vs_ref(G, ref, keep, ko):
    """None or a description of the first difference between a graph and the RDKit reference on the known keys"""
    nodes, edges = ref
    if G is None:
        return "None returned for a sanitisable molecule"
    if set(G.nodes) != set(nodes):
        return "atoms %r, RDKit %r" % (sorted(G.nodes), sorted(nodes))
    for n, want in nodes.items():
        d = G.nodes[n]
        got = {k: d[k] for k in _KNOWN if k in d}
        if got != want:
            return "atom %r carries %r, RDKit (with the selected keys) %r" % (n, got, want)
    ge = {frozenset((u, v)): (d.get("order") if ko else ("order" in d and d["order"] or None)) for u, v, d in G.edges(data=True)}
    if ge != edges:
        return "bonds %r, RDKit %r" % (sorted((sorted(k), v) for k, v in ge.items())[:6], sorted((sorted(k), v) for k, v in edges.items())[:6])
    return None



def _ref_rule(rsmi):
    """the reaction-centre rule of a mapped reaction computed from RDKit alone, as a labelled structure comparable with
    _rule_struct: centre = bonds whose order changes (+ bonds between two hydrogens); None outside the property's domain
    (unparsable, radicals, not atom-balanced on the mapped atoms, repeated map numbers)"""
    try:
        rs, ps = rsmi.split(">>")
    except ValueError:
        return None
    a, b = _ref_graph(rs, True, True, set(_KNOWN), True), _ref_graph(ps, True, True, set(_KNOWN), True)
    if a is None or b is None:
        return None
    (na, ea), (nb, eb) = a, b
    if set(na) != set(nb) or any(na[n]["element"] != nb[n]["element"] for n in na):
        return None
    from rdkit import Chem
    for side, nn in ((rs, na), (ps, nb)):
        mol = Chem.MolFromSmiles(side, sanitize=False)
        maps = [x.GetAtomMapNum() for x in mol.GetAtoms() if x.GetAtomMapNum()]
        if len(maps) != len(set(maps)):
            return None
    lab = {1.0: "-", 1.5: ":", 2.0: "=", 3.0: "#"}
    centre = [k for k in set(ea) | set(eb)
              if ea.get(k, 0) != eb.get(k, 0) or all(na[n]["element"] == "H" for n in k)]
    cn = set(n for k in centre for n in k)
    nodes = {n: set() for n in cn}
    edges = {}
    for k in centre:
        for sec, e in ((0, ea), (2, eb)):
            if e.get(k, 0):
                edges.setdefault(k, set()).add((sec, lab.get(float(e[k]), "-")))
    def cs(c):
        return "" if c == 0 else ("+" if c == 1 else "-" if c == -1 else ("%d+" % c if c > 0 else "%d-" % -c))
    for n in cn:
        if na[n]["charge"] == nb[n]["charge"]:
            nodes[n].add((1, na[n]["element"] + cs(na[n]["charge"])))
        else:
            nodes[n].add((0, na[n]["element"] + cs(na[n]["charge"])))
            nodes[n].add((2, nb[n]["element"] + cs(nb[n]["charge"])))
    return {k: frozenset(v) for k, v in nodes.items()}, {k: frozenset(v) for k, v in edges.items()}


def _oracle_hist(case):
    from rdkit import Chem
    from synkit.IO.chem_converter import graph_to_smi
    fails = []
    pristine = {}        # graph name -> SMILES, for graphs straight from a default-selection, nothing-dropped conversion
    source = {}          # graph name -> graph it was derived from by a hydrogen conversion
    last_obs = {}

    def judge(i, st, env, val):
        op = st["op"]
        tag = "step %d (%s)" % (i, op)
        if op == "s2g":
            keep, ko = _sel_of(st)
            ref = _ref_graph(st["smiles"], bool(st.get("drop")), bool(st.get("ui")), keep, ko)
            pristine.pop(st["as"], None)
            if ref is not None:
                why = _vs_ref(val, ref, keep, ko)
                if why:
                    fails.append(_fail("smiles-graph", "%s: smiles_to_graph(%r, node_attrs=%r, edge_attrs=%r, drop=%r, ui=%r) after the "
                                       "earlier steps of the history: %s" % (tag, st["smiles"], st.get("attrs"), st.get("eattrs"),
                                                                           st.get("drop"), st.get("ui"), why)))
                elif keep == set(_KNOWN) and ko and not st.get("drop"):
                    pristine[st["as"]] = st["smiles"]
            if val is not None:
                last_obs[st["as"]] = gr_ord_obs(val)
        elif op == "edit":
            pristine.pop(st["g"], None)
            last_obs[st["g"]] = gr_ord_obs(env[st["g"]])
        elif op == "g2m":
            if st["g"] in pristine:
                smi = pristine[st["g"]]
                prm = Chem.SmilesParserParams()
                prm.removeHs = False
                refm = Chem.MolFromSmiles(smi, prm)
                o = graph_to_smi(val)
                back = Chem.MolFromSmiles(o, prm) if o is not None else None
                if refm is not None and (back is None or _canon_nostereo(back) != _canon_nostereo(refm)):
                    fails.append(_fail("smiles-roundtrip", "%s: %r -> graph -> %r, expected %r" % (tag, smi, o, _canon_nostereo(refm))))
        elif op in ("hexp", "himp"):
            src = env[st["g"]]
            if _molecule_like(src) and all("typesGH" not in d for _, d in src.nodes(data=True)):
                if _total_h(val) != _total_h(src):
                    fails.append(_fail("H-total", "%s: total hydrogen count %d -> %d" % (tag, _total_h(src), _total_h(val))))
                if _heavy_skeleton(val) != _heavy_skeleton(src):
                    fails.append(_fail("H-molecule", "%s: heavy atoms / bonds changed" % tag))
            last_obs[st["as"]] = gr_ord_obs(val)
        elif op == "variants":
            rec = mol_record(st["smiles"])
            if rec is not None:     # premise of C10_light_weight_same_graph: atom.GetBonds() lists exactly the atom's bonds
                inc = [sorted([e, o] if b == i else [b, o] for b, e, o in rec["bonds"] if i in (b, e)) for i in range(len(rec["atoms"]))]
                if [sorted(x) for x in rec["abonds"]] != inc:
                    fails.append(_fail("rdkit-contract", "%s: atom.GetBonds() of %r does not list exactly the bonds of each atom" % (tag, st["smiles"])))
            # graph -> molecule with the documented custom attribute names: the same molecule (atom maps included) as RDKit read
            try:
                import networkx as _nx
                from synkit.IO.chem_converter import smiles_to_graph as _s2g
                from synkit.IO.graph_to_mol import GraphToMol as _G2M
                prm = Chem.SmilesParserParams()
                prm.removeHs = False
                refm = Chem.MolFromSmiles(st["smiles"], prm)
                G0 = _s2g(st["smiles"])
                if refm is not None and G0 is not None and not any(a.GetNumRadicalElectrons() or a.GetIsotope() for a in refm.GetAtoms()):
                    ren = {"element": "symbol", "charge": "q", "atom_map": "amap"}
                    Gc = _nx.Graph()
                    for nn, dd in G0.nodes(data=True):
                        Gc.add_node(nn, **{ren.get(kk, kk): vv for kk, vv in dd.items()})
                    for uu, vv, dd in G0.edges(data=True):
                        Gc.add_edge(uu, vv, **{("bo" if kk == "order" else kk): xx for kk, xx in dd.items()})
                    try:
                        mc = _G2M(node_attributes=dict(ren), edge_attributes={"order": "bo"}).graph_to_mol(Gc, use_h_count=True)
                        outc = Chem.MolToSmiles(mc)
                    except Exception:
                        outc = None
                    backc = Chem.MolFromSmiles(outc, prm) if outc is not None else None
                    if backc is None or _canon_nostereo(backc) != _canon_nostereo(refm):
                        fails.append(_fail("smiles-roundtrip", "%s: %r -> graph -> GraphToMol(custom attribute names) -> %r, expected %r"
                                           % (tag, st["smiles"], outc, _canon_nostereo(refm))))
            except ImportError:
                pass
            for d, u, lw, dt in val:
                ref = _ref_graph(st["smiles"], d, u, set(_KNOWN), True)
                if ref is not None:
                    for nm, G in (("light-weight", lw), ("detailed / full-profile", dt)):
                        why = _vs_ref(G, ref, set(_KNOWN), True)
                        if why:
                            fails.append(_fail("smiles-graph", "%s: %s graph of %r (drop=%s, ui=%s): %s" % (tag, nm, st["smiles"], d, u, why)))
        elif op == "g2s_pres":
            if st["g"] in pristine:
                smi = pristine[st["g"]]
                prm = Chem.SmilesParserParams()
                prm.removeHs = False
                refm = Chem.MolFromSmiles(smi, prm)
                back = Chem.MolFromSmiles(val, prm) if val is not None else None
                if refm is not None and (back is None or _canon_nostereo(back, addhs=True) != _canon_nostereo(refm, addhs=True)):
                    G0 = env[st["g"]]
                    bare = [n for n, d in G0.nodes(data=True) if d.get("element") == "H" and d.get("atom_map") not in st["preserve"]
                            and not any(G0.nodes[x].get("element") != "H" for x in G0.neighbors(n))]
                    fails.append(_fail("smiles-roundtrip", "%s: graph_to_smi(graph of %r, preserve_atom_maps=%r) = %r is another molecule"
                                       % (tag, smi, st["preserve"], val),
                                       key="graph_to_smi:preserve_atom_maps:bare-hydrogen-dropped" if (bare and st["preserve"]) else None))
        elif op == "gmlapi":
            want = _ref_rule(st["rsmi"])
            recs = [text_to_rec(t) for t in val]
            names = ["smart_to_gml(r)", "smart_to_gml(rsmarts, useSmiles=False)", "smart_to_gml with positional arguments",
                     "smart_to_gml(r) again", "NXToGML.transform(attributes=[charge, hcount])",
                     "NXToGML.transform(reindex=True, attributes=[hcount, charge, aromatic])"]
            if any(x is None for x in recs):
                fails.append(_fail("gml-text", "%s: output is not of the documented line format" % tag))
            elif want is not None:
                for nm, rec in list(zip(names, recs))[:4]:
                    if _rule_struct(rec) != want:
                        fails.append(_fail("gml-two-routes", "%s: %s is not the reaction-centre rule of %r" % (tag, nm, st["rsmi"][:70])))
                from synkit.IO.chem_converter import gml_to_its
                for nm, t in list(zip(names, val))[4:]:
                    back = _rule_struct(text_to_rec(__import__("synkit.IO.chem_converter", fromlist=["its_to_gml"]).its_to_gml(gml_to_its(t), core=False, reindex=False)))
                    if not _iso_struct(back, want):
                        fails.append(_fail("gml-roundtrip", "%s: the rule written by %s does not read back as the reaction centre" % (tag, nm)))
        elif op == "r2g":
            keep, ko = _sel_of(st)
            for side, G in zip(st["rsmi"].split(">>"), val):
                ref = _ref_graph(side, True, True, keep, ko)
                if ref is not None:
                    why = _vs_ref(G, ref, keep, ko)
                    if why:
                        fails.append(_fail("smiles-graph", "%s: rsmi_to_graph side %r with node_attrs=%r: %s" % (tag, side, st.get("attrs"), why)))
        elif op in ("smart", "its2gml"):
            core, reindex, eh = st["cfg"]
            if val.startswith("MUTATED-INPUT"):
                fails.append(_fail("no-hidden-mutation", "%s: its_to_gml changed the ITS graph it was given" % tag))
            rec = text_to_rec(val.replace("MUTATED-INPUT\n", ""))
            want = _ref_rule(st["rsmi"]) if (core and not eh) else None
            if rec is None:
                fails.append(_fail("gml-text", "%s: output is not of the documented line format" % tag))
            elif want is not None:
                got = _rule_struct(rec)
                ok = _iso_struct(got, want) if reindex else (got == want)
                if not ok:
                    fails.append(_fail("gml-two-routes", "%s: the rule written for %r (core=True, reindex=%s) after the earlier steps of the "
                                       "history is not the reaction-centre rule of the reaction (%d nodes / %d edges, expected %d / %d)"
                                       % (tag, st["rsmi"][:70], reindex, len(got[0]), len(got[1]), len(want[0]), len(want[1]))))
        elif op == "conv":
            for smi, G in val:
                ref = _ref_graph(smi, False, False, set(_KNOWN), True)
                if ref is not None:
                    why = _vs_ref(G, ref, set(_KNOWN), True)
                    if why:
                        fails.append(_fail("smiles-graph", "%s: reused MolToGraph object on %r: %s" % (tag, smi, why)))
        # no step may change a graph it was not asked to change
        for nm, G in env.items():
            if nm in last_obs and G is not None and gr_ord_obs(G) != last_obs[nm] and not (op == "edit" and st.get("g") == nm):
                fails.append(_fail("no-hidden-mutation", "%s changed the graph %r it was not applied to" % (tag, nm)))
                last_obs[nm] = gr_ord_obs(G)
    run_hist(case["script"], judge)
    return fails[:4]


# =================================================================== property oracle (independent of the model)

_ELEM_RE = re.compile(r"^[A-Za-z*]+$")


def _fail(clause, detail, key=None):
    d = dict(clause=clause, detail=str(detail)[:600])
    if key:
        d["key"] = key
    return d


def _total_h(G):
    return sum(int(d.get("hcount", 0) or 0) for _, d in G.nodes(data=True)) + \
        sum(1 for _, d in G.nodes(data=True) if d.get("element") == "H")


def _heavy_skeleton(G):
    hv = {n for n, d in G.nodes(data=True) if d.get("element") != "H"}
    ns = {n: (G.nodes[n].get("element"), G.nodes[n].get("charge"), G.nodes[n].get("aromatic"), G.nodes[n].get("atom_map")) for n in hv}
    es = {(min(u, v), max(u, v)): d.get("order") for u, v, d in G.edges(data=True) if u in hv and v in hv}
    return ns, es


def _same_graph(A, B):
    if set(A.nodes) != set(B.nodes):
        return "node sets differ: %r vs %r" % (sorted(A.nodes), sorted(B.nodes))
    for n in A.nodes:
        if dict(A.nodes[n]) != dict(B.nodes[n]):
            return "node %r: %r vs %r" % (n, dict(A.nodes[n]), dict(B.nodes[n]))
    ea = {frozenset((u, v)): dict(d) for u, v, d in A.edges(data=True)}
    eb = {frozenset((u, v)): dict(d) for u, v, d in B.edges(data=True)}
    if ea != eb:
        return "edges differ"
    return None


def _molecule_like(G):
    """every H node has hcount 0 and at most one neighbour (hydrogen is monovalent)"""
    for n, d in G.nodes(data=True):
        if d.get("element") == "H" and ((d.get("hcount", 0) or 0) != 0 or G.degree(n) > 1):
            return False
        if (d.get("hcount", 0) or 0) < 0:
            return False
    return True


def _xh_clauses(G, tag):
    """has_XH / has_HH against an independent definition, on G and on G with every edge re-inserted in the other orientation"""
    import networkx as nx
    from synkit.Graph.Hyrogen._misc import has_XH, has_HH
    fails = []
    isH = {n: d.get("element") == "H" for n, d in G.nodes(data=True)}
    want_xh = any(isH[u] != isH[v] for u, v in G.edges())
    want_hh = any(isH[u] and isH[v] for u, v in G.edges())
    F = nx.Graph()
    F.add_nodes_from(reversed(list(G.nodes(data=True))))
    F.add_edges_from((v, u, d) for u, v, d in G.edges(data=True))
    for nm, X in (("as given", G), ("node order reversed, edges inserted the other way round", F)):
        if bool(has_XH(X)) != want_xh:
            fails.append(_fail("has_XH", "%s (%s): has_XH = %r, but %s heavy-hydrogen bond" % (tag, nm, has_XH(X), "there is a" if want_xh else "there is no")))
        if bool(has_HH(X)) != want_hh:
            fails.append(_fail("has_HH", "%s (%s): has_HH = %r, but %s hydrogen-hydrogen bond" % (tag, nm, has_HH(X), "there is a" if want_hh else "there is no")))
    return fails


def _h_clauses(G, tag):
    """hydrogen clauses of the property on graph G (graph level, no RDKit)."""
    from synkit.Graph.Hyrogen._misc import h_to_explicit, h_to_implicit
    fails = _xh_clauses(G, tag)
    if not _molecule_like(G):
        return fails
    e = h_to_explicit(G, None)
    i = h_to_implicit(e)
    i0 = h_to_implicit(G)
    h0 = _total_h(G)
    for nm, X in (("explicit", e), ("explicit-then-implicit", i), ("implicit", i0)):
        if _total_h(X) != h0:
            fails.append(_fail("H-total", "%s: total hydrogen count %d -> %d after %s" % (tag, h0, _total_h(X), nm)))
        if _heavy_skeleton(X) != _heavy_skeleton(G):
            fails.append(_fail("H-molecule", "%s: heavy atoms / bonds changed by %s" % (tag, nm)))
    xh = any(G.nodes[a].get("element") == "H" and G.nodes[b].get("element") != "H" or
             G.nodes[b].get("element") == "H" and G.nodes[a].get("element") != "H" for a, b in G.edges())
    if not xh:
        why = _same_graph(G, i)
        if why:
            fails.append(_fail("H-roundtrip", "%s: h_to_implicit(h_to_explicit(g)) != g: %s" % (tag, why)))
    # explicit form has no implicit hydrogens left, implicit form no X-H node
    if any((d.get("hcount", 0) or 0) != 0 for _, d in e.nodes(data=True)):
        fails.append(_fail("H-explicit-complete", "%s: hcount left after h_to_explicit" % tag))
    for X in (i, i0):
        for a, b in X.edges():
            ea, eb = X.nodes[a].get("element"), X.nodes[b].get("element")
            if (ea == "H") != (eb == "H"):
                fails.append(_fail("H-implicit-complete", "%s: X-H bond left after h_to_implicit" % tag))
                break
    return fails


def _h_subset_clauses(G, nodes, tag):
    """partial and staged use: hydrogens made explicit on a chosen subset of atoms only (as the reactor does for the atoms
    a rule touches), or on one half of the atoms first and on the rest later.  The same clauses: neither direction changes
    the heavy skeleton or the total hydrogen count, and implicit-again restores the graph."""
    from synkit.Graph.Hyrogen._misc import h_to_explicit, h_to_implicit
    fails = []
    if not _molecule_like(G):
        return fails
    h0 = _total_h(G)
    xh = any((G.nodes[a].get("element") == "H") != (G.nodes[b].get("element") == "H") for a, b in G.edges())
    ids = sorted(G.nodes)
    half, rest = ids[:len(ids) // 2], ids[len(ids) // 2:]
    e = h_to_explicit(G, nodes)
    e1 = h_to_explicit(G, half) if half else G
    e2 = h_to_explicit(e1, rest) if rest else e1
    runs = [("h_to_explicit(nodes=%r)" % (nodes,), e), ("h_to_implicit after it", h_to_implicit(e)),
            ("staged h_to_explicit(%r) then (%r)" % (half, rest), e2), ("h_to_implicit after the staged expansion", h_to_implicit(e2))]
    for nm, X in runs:
        if _total_h(X) != h0:
            fails.append(_fail("H-total", "%s: total hydrogen count %d -> %d after %s" % (tag, h0, _total_h(X), nm)))
        if _heavy_skeleton(X) != _heavy_skeleton(G):
            fails.append(_fail("H-molecule", "%s: heavy atoms / bonds changed by %s" % (tag, nm)))
    if not xh:
        for nm, X in (runs[1], runs[3]):
            why = _same_graph(G, X)
            if why:
                fails.append(_fail("H-roundtrip", "%s: %s does not restore the graph: %s" % (tag, nm, why)))
    if half and rest and any((d.get("hcount", 0) or 0) != 0 for n, d in e2.nodes(data=True) if n in G):
        fails.append(_fail("H-explicit-complete", "%s: hcount left after the staged expansion of all atoms" % tag))
    return fails


def _canon_nostereo(mol, addhs=False):
    from rdkit import Chem
    m = Chem.Mol(mol)
    if addhs:
        for a in m.GetAtoms():
            a.SetAtomMapNum(0)
        m = Chem.AddHs(m)
    return Chem.MolToSmiles(m, isomericSmiles=False)


def _oracle_mol(case):
    from rdkit import Chem
    from synkit.IO.chem_converter import smiles_to_graph, graph_to_smi
    from synkit.Graph.Hyrogen._misc import h_to_explicit, h_to_implicit
    s = case["smiles"]
    prm = Chem.SmilesParserParams()
    prm.removeHs = False   # hydrogens written as atoms ([H:15], [H][H], [H+]) stay atoms, as in smiles_to_graph
    try:
        ref = Chem.MolFromSmiles(s, prm)
    except Exception:
        ref = None
    if ref is None:
        return []          # not a sanitisable molecule: outside the property
    if any(a.GetNumRadicalElectrons() for a in ref.GetAtoms()) or any(a.GetIsotope() for a in ref.GetAtoms()):
        return []          # radicals are excluded by the property; isotope labels are not carried by the graph layer
    fails = []
    G = smiles_to_graph(s)
    if G is None:
        return [_fail("smiles-graph", "smiles_to_graph(%r) is None for a sanitisable molecule" % s)]
    out = graph_to_smi(G)
    back = Chem.MolFromSmiles(out, prm) if out is not None else None
    if back is None or _canon_nostereo(back) != _canon_nostereo(ref):
        fails.append(_fail("smiles-roundtrip", "%r -> graph -> %r ; expected %r" % (s, out, _canon_nostereo(ref))))
    # atoms / hydrogens against RDKit, independently of the writer
    nh_ref = sum(a.GetTotalNumHs() for a in ref.GetAtoms()) + sum(1 for a in ref.GetAtoms() if a.GetSymbol() == "H")
    if _total_h(G) != nh_ref or G.number_of_nodes() != ref.GetNumAtoms() or G.number_of_edges() != ref.GetNumBonds():
        fails.append(_fail("smiles-graph", "%r: graph has %d atoms / %d bonds / %d H, RDKit %d / %d / %d"
                           % (s, G.number_of_nodes(), G.number_of_edges(), _total_h(G), ref.GetNumAtoms(), ref.GetNumBonds(), nh_ref)))
    # the same conversion with use_index_as_atom_map=True (atom maps as node ids, index + 1 for unmapped atoms): still one node
    # per atom, one edge per bond, and the same molecule back.  Molecules whose map numbers repeat are not validly mapped: skipped.
    maps = [a.GetAtomMapNum() for a in ref.GetAtoms()]
    used = [x for x in maps if x]
    if len(set(used)) == len(used):
        G2 = smiles_to_graph(s, use_index_as_atom_map=True)
        out2 = graph_to_smi(G2) if G2 is not None else None
        back2 = Chem.MolFromSmiles(out2, prm) if out2 is not None else None
        if G2 is None or G2.number_of_nodes() != ref.GetNumAtoms() or G2.number_of_edges() != ref.GetNumBonds() or \
                back2 is None or _canon_nostereo(back2) != _canon_nostereo(ref):
            collide = any(m == 0 and (i + 1) in used for i, m in enumerate(maps))
            fails.append(_fail("smiles-roundtrip-index-ids", "%r with use_index_as_atom_map=True: graph has %s atoms / %s bonds (RDKit %d / %d) and reads %r"
                               % (s, G2 and G2.number_of_nodes(), G2 and G2.number_of_edges(), ref.GetNumAtoms(), ref.GetNumBonds(), out2),
                               key="smiles_to_graph:use_index_as_atom_map:partial-mapping-id-collision" if collide else None))
    fails += _h_clauses(G, repr(s))
    want = _canon_nostereo(ref, addhs=True)
    ids = sorted(G.nodes)
    half, rest = ids[:len(ids) // 2], ids[len(ids) // 2:]
    staged = h_to_explicit(h_to_explicit(G, half), rest) if half and rest else h_to_explicit(G, None)
    react = h_to_explicit(G, ids[:1])          # a single atom, not the one with the largest id (as the reactor does)
    fails += _h_subset_clauses(G, ids[:1], repr(s))
    for nm, X in (("h_to_explicit", h_to_explicit(G, None)), ("h_to_implicit(h_to_explicit)", h_to_implicit(h_to_explicit(G, None))),
                  ("h_to_implicit", h_to_implicit(G)), ("staged h_to_explicit (first half, then the rest)", staged),
                  ("h_to_implicit after the staged expansion", h_to_implicit(staged)), ("h_to_explicit on one atom", react),
                  ("h_to_implicit after h_to_explicit on one atom", h_to_implicit(react))):
        o = graph_to_smi(X)
        m = Chem.MolFromSmiles(o) if o is not None else None
        if m is None or _canon_nostereo(m, addhs=True) != want:
            fails.append(_fail("H-molecule-rdkit", "%r: after %s the graph reads %r, expected the molecule %r" % (s, nm, o, want)))
    return fails[:5]


# ---- rules as labelled structures, equivalence up to renaming of ids

def _rule_struct(rec):
    """record -> (node dict id -> frozenset of (section, label), edge dict frozenset -> frozenset of (section, label))."""
    nodes, edges = {}, {}
    for s, es in rec:
        for e in es:
            if e[0] == 0:
                nodes.setdefault(e[1], set()).add((s, e[2]))
            else:
                edges.setdefault(frozenset((e[1], e[2])), set()).add((s, e[3]))
                nodes.setdefault(e[1], set())
                nodes.setdefault(e[2], set())
    return {k: frozenset(v) for k, v in nodes.items()}, {k: frozenset(v) for k, v in edges.items()}


def _iso_struct(a, b):
    """label-preserving isomorphism of two (nodes, edges) structures: brute force for <= 7 nodes, VF2 above."""
    (na, ea), (nb, eb) = a, b
    if len(na) != len(nb) or len(ea) != len(eb) or sorted(map(sorted, na.values())) != sorted(map(sorted, nb.values())):
        return False
    ia, ib = sorted(na), sorted(nb)
    if len(ia) <= 7:
        import itertools
        for perm in itertools.permutations(ib):
            f = dict(zip(ia, perm))
            if all(na[x] == nb[f[x]] for x in ia) and \
               all(eb.get(frozenset(f[x] for x in k)) == v for k, v in ea.items()):
                return True
        return False
    import networkx as nx
    A, B = nx.Graph(), nx.Graph()
    for G, n_, e_ in ((A, na, ea), (B, nb, eb)):
        for k, v in n_.items():
            G.add_node(k, l=v)
        for k, v in e_.items():
            u = tuple(k)
            G.add_edge(u[0], u[-1], l=v)
    return nx.is_isomorphic(A, B, node_match=lambda x, y: x["l"] == y["l"], edge_match=lambda x, y: x["l"] == y["l"])


def _its_struct(I):
    """ITS -> structure on what a GML rule carries: element, (charge before, charge after), (order before, after)."""
    nodes = {}
    for n, d in I.nodes(data=True):
        t = d.get("typesGH")
        nodes[n] = frozenset([("el", t[0][0], t[1][0]), ("ch", t[0][3], t[1][3])])
    edges = {frozenset((u, v)): frozenset([("o", float(d["order"][0]), float(d["order"][1]))]) for u, v, d in I.edges(data=True)}
    return nodes, edges


def _is_wellformed_its(I, std=True):
    """std=False: what the property's clause needs (atoms with one element and two charges, (before, after) orders the label
    alphabet carries) without requiring standard_order = before - after, which the property text does not mention"""
    for n, d in I.nodes(data=True):
        t = d.get("typesGH")
        if not t or len(t) != 2 or t[0][0] != t[1][0] or not isinstance(t[0][0], str) or not _ELEM_RE.match(t[0][0]):
            return False
        if d.get("element") != t[0][0] or d.get("charge") != t[0][3]:
            return False
    for u, v, d in I.edges(data=True):
        o = d.get("order")
        if not isinstance(o, tuple) or len(o) != 2 or any(x not in (0, 1, 1.5, 2, 3) for x in o) or o == (0, 0) or u == v:
            return False
        if std and d.get("standard_order") != o[0] - o[1]:
            return False
    return True


def _oracle_its_graph(I, cfgs, tag):
    """its_to_gml / gml_to_its clauses on one ITS graph."""
    from synkit.IO.chem_converter import its_to_gml, gml_to_its
    from synkit.Graph.ITS.its_decompose import get_rc
    fails = []
    if not _is_wellformed_its(I, std=False):
        return fails        # counted under its_outside_oracle_domain in the evidence distribution
    rc = get_rc(I)
    is_centre = set(rc.nodes) == set(I.nodes) and rc.number_of_edges() == I.number_of_edges()
    strict = _is_wellformed_its(I)
    for core, reindex, eh in cfgs:
        if eh and not strict:
            continue        # with explicit_hydrogen the writer itself reads standard_order (context bonds): inconsistent input, no claim
        text = its_to_gml(I.copy(), core=core, reindex=reindex, explicit_hydrogen=eh)
        rec = text_to_rec(text)
        if rec is None:
            fails.append(_fail("gml-text", "%s: its_to_gml output is not of the documented line format" % tag))
            continue
        want = rc if core else I
        if core or not eh:     # explicit_hydrogen on a full ITS adds hydrogen nodes on purpose
            back = gml_to_its(text)
            sw, sb = _its_struct(want), _its_struct(back)
            ok = (sw == sb) if not reindex else _iso_struct(sw, sb)
            if not ok:
                fails.append(_fail("gml-roundtrip", "%s: gml_to_its(its_to_gml(I, core=%s, reindex=%s, eh=%s)) differs from %s on atoms/charges/orders"
                                   % (tag, core, reindex, eh, "the centre" if core else "I")))
        if eh and not core and all((d.get("hcount", 0) or 0) >= 0 for _, d in I.nodes(data=True)) and \
                (not reindex or all(isinstance(n, int) and n >= 1 for n in I.nodes)):
            # explicit_hydrogen on a full ITS: the atoms and bonds of I survive (reindex=True: under the documented renumbering
            # old id -> position in node order, for ids >= 1), and every implicit hydrogen of the context (node attribute hcount)
            # comes back as one hydrogen atom bonded (1, 1) to its atom and to nothing else
            back = gml_to_its(text)
            f = {n: (i + 1 if reindex else n) for i, n in enumerate(I.nodes)}
            sw, sb = _its_struct(I), _its_struct(back)
            sw = ({f[n]: a for n, a in sw[0].items()}, {frozenset(f[x] for x in k): v for k, v in sw[1].items()})
            old = set(f.values())
            if {n: a for n, a in sb[0].items() if n in old} != sw[0] or {k: v for k, v in sb[1].items() if k <= old} != sw[1]:
                fails.append(_fail("gml-roundtrip", "%s: gml_to_its(its_to_gml(I, core=False, reindex=%s, explicit_hydrogen=True)) changes atoms / bonds of I" % (tag, reindex)))
            else:
                hs = {n: 0 for n in old}
                bad = None
                for n in set(back.nodes) - old:
                    nb = list(back.neighbors(n))
                    t = back.nodes[n]["typesGH"]
                    if len(nb) != 1 or nb[0] not in old or t[0][0] != "H" or t[1][0] != "H" or t[0][3] != 0 or t[1][3] != 0 or \
                            tuple(float(x) for x in back[n][nb[0]]["order"]) != (1.0, 1.0):
                        bad = "new atom %r is not a hydrogen single-bonded (1, 1) to one atom of I" % (n,)
                        break
                    hs[nb[0]] += 1
                if bad is None:
                    for n in I.nodes:
                        if hs[f[n]] != (I.nodes[n].get("hcount", 0) or 0):
                            bad = "atom %r has %d implicit hydrogens, the rule read back gives it %d hydrogen atoms" % (n, I.nodes[n].get("hcount", 0) or 0, hs[f[n]])
                            break
                if bad:
                    fails.append(_fail("gml-roundtrip-explicit-h", "%s (reindex=%s): %s" % (tag, reindex, bad)))
        if core and not is_centre:
            text2 = its_to_gml(rc.copy(), core=True, reindex=reindex, explicit_hydrogen=eh)
            rec2 = text_to_rec(text2)
            if rec2 is None or not _iso_struct(_rule_struct(rec), _rule_struct(rec2)) or \
               (not reindex and _rule_struct(rec) != _rule_struct(rec2)):
                fails.append(_fail("gml-two-routes", "%s: its_to_gml(full ITS, core=True, reindex=%s) is not equivalent to its_to_gml(centre): "
                                   "%d vs %d context nodes" % (tag, reindex, sum(1 for e in rec[1][1] if e[0] == 0),
                                                             -1 if rec2 is None else sum(1 for e in rec2[1][1] if e[0] == 0))))
    return fails


def _oracle_smart(case):
    from synkit.IO.chem_converter import smart_to_gml, its_to_gml, gml_to_its, rsmi_to_its
    from synkit.Graph.ITS.its_decompose import get_rc
    if not case.get("sanitize", True):
        return []       # sanitize=False reads the molecule as written (no aromaticity perception): correspondence only
    r = case["rsmi"]
    x = rxn_graphs(r)
    if x is None:
        return []
    if sorted(n for n, _ in x[0]["nodes"]) != sorted(n for n, _ in x[1]["nodes"]):
        return []      # not atom-balanced: outside the property (a rule needs the same atoms on both sides)
    fails = []
    its = rsmi_to_its(r)
    rc = get_rc(its)
    if not _is_wellformed_its(its):
        return []
    for core, reindex, eh in case["cfgs"]:
        ta = smart_to_gml(r, core=core, reindex=reindex, explicit_hydrogen=eh)
        tb = its_to_gml(its.copy(), core=core, reindex=reindex, explicit_hydrogen=eh)
        ra, rb = text_to_rec(ta), text_to_rec(tb)
        if ra is None or rb is None:
            fails.append(_fail("gml-text", "%r: unexpected GML text" % r))
            continue
        routes = [("its_to_gml(full ITS)", rb)]
        if core:
            routes.append(("its_to_gml(centre)", text_to_rec(its_to_gml(rc.copy(), core=True, reindex=reindex, explicit_hydrogen=eh))))
            # default arguments of the two documented entry points (reindex False / True)
            routes.append(("its_to_gml(full ITS) with its default reindex", text_to_rec(its_to_gml(its.copy(), core=True, explicit_hydrogen=eh))))
        for nm, rr in routes:
            if rr is None or not _iso_struct(_rule_struct(ra), _rule_struct(rr)):
                fails.append(_fail("gml-two-routes", "%r core=%s reindex=%s eh=%s: smart_to_gml and %s give inequivalent rules (%s vs %s context nodes)"
                                   % (r[:80], core, reindex, eh, nm, sum(1 for e in ra[1][1] if e[0] == 0),
                                      "?" if rr is None else sum(1 for e in rr[1][1] if e[0] == 0))))
        if core or not eh:
            back = gml_to_its(ta)
            want = rc if core else its
            sw, sb = _its_struct(want), _its_struct(back)
            if not ((sw == sb) if not reindex else _iso_struct(sw, sb)):
                fails.append(_fail("gml-roundtrip", "%r core=%s reindex=%s: gml_to_its(smart_to_gml(r)) differs from the %s on atoms/charges/orders"
                                   % (r[:80], core, reindex, "centre" if core else "ITS")))
        if case.get("of") and core:
            t0 = text_to_rec(smart_to_gml(case["of"], core=True, reindex=reindex, explicit_hydrogen=eh))
            if t0 is None or not _iso_struct(_rule_struct(ra), _rule_struct(t0)):
                fails.append(_fail("gml-renumbering", "rule of a renumbered reaction is not equivalent to the rule of the original: %r" % r[:80]))
    return fails[:4]


def oracle(case):
    k = case["kind"]
    if k == "label":
        from synkit.IO.nx_to_gml import NXToGML
        from synkit.IO.gml_to_nx import GMLToNX
        el = case["element"]
        fails = []
        if _ELEM_RE.match(el):
            for c in case["charges"]:
                got = GMLToNX("")._extract_element_and_charge(el + NXToGML._charge_to_string(c))
                if tuple(got) != (el, c):
                    fails.append(_fail("gml-label", "element %r charge %d is written %r and read back as %r"
                                       % (el, c, el + NXToGML._charge_to_string(c), got)))
        return fails[:3]
    if k == "hx" and not _molecule_like(to_nx(case["g"])):
        return _xh_clauses(to_nx(case["g"]), case.get("name", "graph"))[:3]
    if k == "hx":
        if case["nodes"] is None and not case["its"] and all("typesGH" not in a for _, a in case["g"]["nodes"]):
            return _h_clauses(to_nx(case["g"]), case.get("name", "graph"))[:3]
        if case["nodes"] is not None and not case["its"] and all("typesGH" not in a for _, a in case["g"]["nodes"]):
            return _h_subset_clauses(to_nx(case["g"]), case["nodes"], case.get("name", "graph"))[:3]
        return []
    if k == "mol":
        return _oracle_mol(case)
    if k == "its":
        return _oracle_its_graph(to_nx(case["its"]), case["cfgs"], case.get("name", "its"))[:4]
    if k == "smart":
        return _oracle_smart(case)
    if k == "hist":
        return _oracle_hist(case)
    if k == "itshist":
        # every export of the shared, edited object must be the export of a FRESH graph with the same content
        from synkit.IO.chem_converter import its_to_gml, gml_to_its
        from synkit.Graph.ITS.its_decompose import get_rc
        fails = []
        I = to_nx(case["its"])
        graphs = _its_after_edits(case)
        for j, g in enumerate(graphs):
            fresh = to_nx(g)
            if _is_wellformed_its(fresh):
                want = _its_struct(get_rc(fresh))
                got = _its_struct(gml_to_its(its_to_gml(I, core=True, reindex=False)))
                if got != want:
                    fails.append(_fail("gml-roundtrip", "%s: after %d in-place edit(s) of the SAME ITS object its_to_gml / gml_to_its does not give the centre of the edited graph"
                                       % (case.get("name", "itshist"), j)))
            if j < len(case["edits"]):
                _apply_its_edit(I, case["edits"][j])
        return fails[:3]
    if k == "rxn":
        from ..gen import c10_rxn
        x = rxn_graphs(case["rsmi"])
        if x is None or sorted(n for n, _ in x[0]["nodes"]) != sorted(n for n, _ in x[1]["nodes"]):
            return []
        return c10_rxn.rxn_clauses(case["rsmi"], _total_h, _rule_struct, _iso_struct, text_to_rec, _fail)
    if k == "imph":
        from ..gen import c10_rxn
        return c10_rxn.imph_clauses(to_nx(case["g"]), case["preserve"], case.get("name", "graph"), _total_h, _fail)[:3]
    return []


def _rec_of(k, o):
    """the GML record inside one per-configuration observable"""
    return o[0][0][0][0][0][0][-2] if k == "its" else o[0][0][-2]


def nontrivial(case, obs):
    k = case["kind"]
    if k == "label":
        return any(c != 0 for c in case["charges"])
    if k == "extract":
        return True
    if k == "hx":
        return any(a.get("hcount") or a.get("element") == "H" for _, a in case["g"]["nodes"])
    if k == "mol":
        return isinstance(obs, list) and obs != ["NOGRAPH"]
    if k in ("hist", "text", "rxn", "itsrsmi", "imph", "itshist", "dfs"):
        return True
    if k in ("parse", "gmlsmart"):
        return any(es for _, es in case["rec"])
    if k == "transform":
        return bool(case["L"]["edges"] or case["R"]["edges"])
    if k == "its" and case.get("rule_name") is not None and isinstance(obs, list) and len(obs) == 2:
        obs = obs[0]
    if k in ("its", "smart"):
        try:
            return any(len(_rec_of(k, o)) == 3 and any(sec[1] for sec in _rec_of(k, o)) for o in obs)
        except Exception:
            return False
    return False


def distribution(cases, obss):
    d = {"graph_sizes": {}, "cfg_counts": {}, "mol_sources": {}, "centre_sizes": {}, "charged_labels": 0, "changed_charge_rules": 0,
         "explicit_H_graphs": 0, "bare_H_graphs": 0, "its_ok_exports": {}, "h_dom": {}, "no_H_graphs_with_hcount": 0}
    for c, o in zip(cases, obss):
        k = c["kind"]
        g = c.get("g") or c.get("its")
        if g:
            n = len(g["nodes"])
            b = "<=3" if n <= 3 else "4-9" if n <= 9 else "10-39" if n < 40 else ">=40"
            d["graph_sizes"][b] = d["graph_sizes"].get(b, 0) + 1
        for cfg in c.get("cfgs", []):
            kk = k + ":" + "".join("T" if x else "F" for x in cfg)
            d["cfg_counts"][kk] = d["cfg_counts"].get(kk, 0) + 1
        if k == "mol":
            d["mol_sources"][c.get("src", "?")] = d["mol_sources"].get(c.get("src", "?"), 0) + 1
        if k == "label":
            d["charged_labels"] += sum(1 for x in c["charges"] if x)
        if k == "mol" and isinstance(o, list) and len(o) == 3:
            d["rdmol_ok"] = d.get("rdmol_ok", 0) + (1 if o[2] else 0)
            o = o[0]
        if k in ("hx", "mol") and isinstance(o, list) and len(o) == 5:
            o = o[0]
        if k in ("hx", "mol") and isinstance(o, list) and len(o) == 4:
            d["h_dom"][str(bool(o[0][4]))] = d["h_dom"].get(str(bool(o[0][4])), 0) + 1
            if o[2]:
                d["no_H_graphs"] = d.get("no_H_graphs", 0) + 1
        if k == "hx":
            hs = [n for n, a in c["g"]["nodes"] if a.get("element") == "H"]
            if not hs and any((a.get("hcount") or 0) > 0 for _, a in c["g"]["nodes"]):
                d["no_H_graphs_with_hcount"] += 1
            if hs:
                d["explicit_H_graphs"] += 1
                nb = {n: 0 for n in hs}
                el = {n: a.get("element") for n, a in c["g"]["nodes"]}
                for u, v, _ in c["g"]["edges"]:
                    if u in nb and el.get(v) != "H":
                        nb[u] += 1
                    if v in nb and el.get(u) != "H":
                        nb[v] += 1
                if any(x == 0 for x in nb.values()):
                    d["bare_H_graphs"] += 1
        if k == "its":
            try:
                Ij = to_nx(c["its"])
                kk = "its_judged_by_oracle" if _is_wellformed_its(Ij, std=False) else "its_outside_oracle_domain"
                d[kk] = d.get(kk, 0) + 1
                if kk == "its_judged_by_oracle" and not _is_wellformed_its(Ij):
                    d["its_judged_outside_its_ok"] = d.get("its_judged_outside_its_ok", 0) + 1
            except Exception:
                pass
        if k == "its" and c.get("rule_name") is not None and isinstance(o, list) and len(o) == 2:
            o = o[0]
        if k == "smart" and c.get("of") and c.get("sanitize", True):
            # premise of C10_rule_renumbering_records: the records of a renumbered string are the records of the original with the
            # map numbers replaced through one injective function (same atoms in the same order, same bonds)
            try:
                ok = True
                sg = {}
                for a, b in zip(c["of"].split(">>"), c["rsmi"].split(">>")):
                    ra, rb = mol_record(a), mol_record(b)
                    if ra is None or rb is None or len(ra["atoms"]) != len(rb["atoms"]) or ra["bonds"] != rb["bonds"]:
                        ok = False
                        break
                    for x, y in zip(ra["atoms"], rb["atoms"]):
                        if x[:4] != y[:4] or sg.setdefault(x[4], y[4]) != y[4]:
                            ok = False
                if len(set(sg.values())) != len(sg):
                    ok = False
                key = "renumbered_records_are_remaps:" + str(ok)
                d["cfg_counts"][key] = d["cfg_counts"].get(key, 0) + 1
            except Exception:
                pass
        if k in ("its", "smart") and isinstance(o, list):
            try:
                for oo in o:
                    rec = _rec_of(k, oo)
                    if k == "smart":
                        key = "smart_roundtrip_domain:" + str(bool(oo[0][1] and oo[0][2] and oo[0][3] and oo[0][4]))
                        d["cfg_counts"][key] = d["cfg_counts"].get(key, 0) + 1
                    if k == "its":
                        d["its_ok_exports"][str(bool(oo[0][0][0][0][0][1]))] = d["its_ok_exports"].get(str(bool(oo[0][0][0][0][0][1])), 0) + 1
                        d["text_theorem_domain"] = d.get("text_theorem_domain", 0) + (1 if oo[0][1] else 0)
                        if c["cfgs"][o.index(oo)][2]:
                            key = "explicit_h_theorem_domain:" + str(bool(oo[0][0][0][0][0][1] and oo[0][0][0][1]))
                            d["cfg_counts"][key] = d["cfg_counts"].get(key, 0) + 1
                    if len(rec) == 3:
                        ids = {e[1] for s in rec for e in s[1] if e[0] == 0}
                        b = str(min(len(ids), 12))
                        d["centre_sizes"][b] = d["centre_sizes"].get(b, 0) + 1
                        if any(e[0] == 0 for e in rec[0][1]):
                            d["changed_charge_rules"] += 1
            except Exception:
                pass
    return d


# =================================================================== generators

def _periodic_symbols():
    from rdkit import Chem
    pt = Chem.GetPeriodicTable()
    return [pt.GetElementSymbol(z) for z in range(1, 119)]


def _corpus():
    from ..gen.c01_rsmi import load_corpus, well_formed
    return [(src, i, r) for src, i, r in load_corpus() if well_formed(r)]


def _vendored():
    p = os.path.join(os.path.dirname(os.path.dirname(os.path.dirname(os.path.abspath(__file__)))), "corpus", "molecules.txt")
    return [l.strip() for l in open(p) if l.strip() and not l.startswith("#")]


def _corpus_molecules():
    """fragments of the corpus reactions as they occur (mapped), de-duplicated by unmapped canonical SMILES,
    plus that unmapped form; radicals skipped."""
    from rdkit import Chem
    seen, out = set(), []
    for src, i, r in _corpus():
        for side in r.split(">>"):
            for f in side.split("."):
                m = Chem.MolFromSmiles(f)
                if m is None or any(a.GetNumRadicalElectrons() for a in m.GetAtoms()):
                    continue
                m2 = Chem.Mol(m)
                for a in m2.GetAtoms():
                    a.SetAtomMapNum(0)
                c = Chem.MolToSmiles(m2)
                if c in seen:
                    continue
                seen.add(c)
                out.append((src, f, c))
    return out


def _renumber(rsmi, rng):
    from ..gen.c01_rsmi import renumber_maps
    return renumber_maps(rsmi, rng)


ELS_SMALL = ["C", "N", "O", "H", "H", "Cl", "Br", "Na", "*", "Uue"]


def _rand_mol_graph(rng, n, with_tgh=False, pair_orders=False):
    ids = rng.sample(range(1, n + 6), n)
    nodes = []
    for i in ids:
        el = rng.choice(["C", "C", "N", "O", "H", "H", "Cl"])
        a = {"element": el, "aromatic": False, "hcount": (0 if el == "H" and rng.random() < 0.8 else rng.choice([0, 0, 1, 2, 3])),
             "charge": rng.choice([0, 0, 0, 1, -1]), "atom_map": rng.choice([0, i])}
        if rng.random() < 0.08:
            del a["hcount"]
        if with_tgh:
            a["typesGH"] = [[el, False, a.get("hcount", 0), a["charge"], []], [el, False, rng.choice([0, 1, 2]), a["charge"], []]]
        nodes.append([i, a])
    edges, have = [], set()
    for x in range(n):
        for y in range(x + 1, n):
            if rng.random() < 0.3:
                u, v = (ids[x], ids[y]) if rng.random() < 0.5 else (ids[y], ids[x])
                o = rng.choice([1, 1, 2, 1.5])
                if pair_orders:
                    o2 = rng.choice([o, o, 0, 1])
                    a = {"order": [o, o2], "standard_order": o - o2} if rng.random() < 0.8 else {"order": o}
                else:
                    a = {"order": o}
                edges.append([u, v, a])
    rng.shuffle(edges)
    return {"nodes": nodes, "edges": edges}


def _rand_its(rng, n, elements, consistent=True):
    ids = rng.sample(range(1, n + 8), n)
    nodes = []
    for i in ids:
        el = rng.choice(elements)
        cg = rng.choice([0, 0, 0, 1, -1, 2, -2, 3, -4, 4])
        ch = cg if rng.random() < 0.6 else rng.choice([0, 1, -1, 2, -3, 12])
        hg, hh = rng.choice([0, 1, 2]), rng.choice([0, 1, 2])
        ar = rng.random() < 0.2
        nodes.append([i, {"element": el, "aromatic": ar, "hcount": hg, "charge": cg, "atom_map": i,
                          "typesGH": [[el, ar, hg, cg, []], [el, ar, hh, ch, []]]}])
    edges = []
    for x in range(n):
        for y in range(x + 1, n):
            if rng.random() < 0.45:
                u, v = (ids[x], ids[y]) if rng.random() < 0.5 else (ids[y], ids[x])
                og = rng.choice([0, 1, 1, 1.5, 2, 3])
                oh = rng.choice([og, og, 0, 1, 1.5, 2, 3])
                if og == 0 and oh == 0:
                    oh = 1
                a = {"order": [og, oh], "standard_order": og - oh}
                if not consistent and rng.random() < 0.2:
                    a["standard_order"] = rng.choice([0, 1, -1])
                if not consistent and rng.random() < 0.1:
                    del a["standard_order"]
                edges.append([u, v, a])
    rng.shuffle(edges)
    return {"nodes": nodes, "edges": edges}


def _two_atom_its():
    """exhaustive: two atoms, labels (element, charge before, charge after) in 8, edge state in 25 (absent or (oG,oH) != (0,0))."""
    labs = [(e, a, b) for e in ("C", "Cl") for (a, b) in ((0, 0), (0, 1), (-1, 0), (2, 2))]
    orders = [0, 1, 1.5, 2, 3]
    states = [None] + [(a, b) for a in orders for b in orders if (a, b) != (0, 0)]
    out = []
    for i, la in enumerate(labs):
        for lb in labs[i:]:
            for st in states:
                nodes = []
                for nid, (e, a, b) in ((1, la), (2, lb)):
                    nodes.append([nid, {"element": e, "aromatic": False, "hcount": 0, "charge": a, "atom_map": nid,
                                        "typesGH": [[e, False, 0, a, []], [e, False, 0, b, []]]}])
                edges = [] if st is None else [[1, 2, {"order": [st[0], st[1]], "standard_order": st[0] - st[1]}]]
                out.append({"nodes": nodes, "edges": edges})
    return out


def _rand_record(rng):
    rec = []
    secs = [0, 1, 2]
    if rng.random() < 0.15:
        rng.shuffle(secs)
    if rng.random() < 0.1:
        secs.append(rng.choice([0, 1, 2]))
    ids = list(range(rng.choice([0, 1, 1]), rng.randint(2, 6)))
    labels = ["C", "N+", "O-", "Cl", "Fe3+", "S2-", "C2", "*", "c1", "+", "C+-", "Na+", "H", "H+", "X", "Mg12+", "O-2", ""]
    for s in secs:
        es = []
        for _ in range(rng.randint(0, 5)):
            if rng.random() < 0.5:
                es.append([0, rng.choice(ids), rng.choice(labels[:-1]) if rng.random() < 0.97 else "C"])
            else:
                u, v = rng.choice(ids), rng.choice(ids + [9])
                es.append([1, u, v, rng.choice(["-", "=", "#", ":", "-", "~", "--"])])
        rec.append([s, es])
    return rec



HIST_POOL = ["[NH4+]", "C[N+](C)(C)CC([O-])=O", "c1cc[nH]c1", "[O-]c1ccccc1", "[Fe+3]", "[O-2]", "[Mg+2].[Cl-].[Cl-]",
             "O=C([O-])c1ccc2[nH]ccc2c1", "[CH3:1][CH2:2][OH:3]", "[CH3:11][C:12](=[O:13])[O-:14].[Na+:15]", "C", "[Na+]", "",
             "CC(C)(C)c1ccc(cc1)S(N)(=O)=O", "[NH3+]CC([O-])=O", "OC%10CCCCC%10", "c%10ccc(cc%10)-c%11ccc([N+](=O)[O-])cc%11",
             "[CH3:10][CH:20]=C", "[H][H]", "[H+]", "[CH2:3]=[CH:1][CH2:2][NH3+:10]", "[Zr+4]", "[P-3]", "[CH3:1][O:2][H:3]", "[H:4][CH2:1][O:2][H:3]", "[H:3][O:2][CH2:1][CH2:5][H:3]", "[O-]S(=O)(=O)[O-]",
             "Cn1cc[n+](C)c1", "C#N", "[C-]#[O+]"]


# partially mapped molecules; the first four collide under use_index_as_atom_map=True (known finding), the others do not
PARTIAL_MAP_POOL = ["[CH3:2]C", "C[CH3:1]", "CC[OH:2]", "[CH3:3]CC", "[CH3:10][CH:20]=C", "C[CH2:5]O", "[CH3:1]CC", "CC[CH3:3]",
                    "c1cc[cH:9]cc1", "[NH4+:7].[Cl-]", "O=[C:1]([O-])C"]

NOSANITIZE_RXNS = [
    "[CH:1]1=[CH:2][CH:3]=[CH:4][CH:5]=[C:6]1[Br:7].[OH-:8]>>[CH:1]1=[CH:2][CH:3]=[CH:4][CH:5]=[C:6]1[OH:8].[Br-:7]",
    "[CH3:1][N:2](=[O:3])=[O:4].[CH3:5][Mg:6][Br:7]>>[CH3:1][N:2](=[O:3])([CH3:5])[O:4][Mg:6][Br:7]",
    "[CH:1]1=[CH:2][N:3]=[CH:4][CH:5]=[C:6]1[CH2:7][H:10].[Cl:8][Cl:9]>>[CH:1]1=[CH:2][N:3]=[CH:4][CH:5]=[C:6]1[CH2:7][Cl:8].[H:10][Cl:9]",
]


def _hist_scripts(smi, other):
    """the history templates for one SMILES (another one, [other], is used where a second molecule is needed)"""
    red1, red2 = ["element"], ["charge", "element"]
    perm = ["atom_map", "foo", "charge", "hcount", "neighbors", "aromatic", "element"]
    return [
        ("reduced-then-default", [dict(op="s2g", smiles=smi, attrs=red1, **{"as": "a"}), dict(op="s2g", smiles=smi, **{"as": "b"}),
                                  dict(op="g2m", g="b"), dict(op="hexp", g="b", **{"as": "e"}), dict(op="himp", g="e", **{"as": "i"})]),
        ("default-reduced-default", [dict(op="s2g", smiles=smi, **{"as": "a"}), dict(op="s2g", smiles=smi, attrs=red2, eattrs=[], **{"as": "b"}),
                                     dict(op="g2m", g="b"), dict(op="s2g", smiles=smi, **{"as": "c"}), dict(op="g2m", g="c"), dict(op="obs", g="a")]),
        ("edit-returned", [dict(op="s2g", smiles=smi, **{"as": "a"}), dict(op="edit", g="a", what=["hc", 1, 7]), dict(op="edit", g="a", what=["delch", 1]),
                           dict(op="s2g", smiles=smi, **{"as": "b"}), dict(op="g2m", g="b"), dict(op="g2m", g="a"), dict(op="edit", g="a", what=["rm", 1]),
                           dict(op="s2g", smiles=smi, pos=True, **{"as": "c"})]),
        ("flags-in-sequence", [dict(op="s2g", smiles=smi, drop=True, ui=True, **{"as": "a"}), dict(op="s2g", smiles=smi, **{"as": "b"}),
                               dict(op="s2g", smiles=smi, ui=True, **{"as": "c"}), dict(op="s2g", smiles=smi, drop=True, ui=True, attrs=red2, **{"as": "d"}),
                               dict(op="s2g", smiles=smi, drop=False, ui=False, **{"as": "e"}), dict(op="g2m", g="e")]),
        ("converters-do-not-mutate", [dict(op="s2g", smiles=smi, **{"as": "a"}), dict(op="g2m", g="a"), dict(op="hexp", g="a", **{"as": "e"}),
                                      dict(op="himp", g="e", **{"as": "i"}), dict(op="hexp", g="a", nodes=[1], **{"as": "e1"}),
                                      dict(op="edit", g="e", what=["ch", 1, 2]), dict(op="himp", g="e", **{"as": "i2"}), dict(op="obs", g="a"), dict(op="g2m", g="i")]),
        ("selections-permuted-all-none", [dict(op="s2g", smiles=smi, attrs=perm, eattrs=["order", "bar"], **{"as": "a"}), dict(op="s2g", smiles=smi, attrs="ALL", eattrs="ALL", **{"as": "b"}),
                                          dict(op="s2g", smiles=smi, attrs=[], **{"as": "c"}), dict(op="s2g", smiles=smi, eattrs=[], **{"as": "d"}),
                                          dict(op="s2g", smiles=smi, **{"as": "e"}), dict(op="g2m", g="e"), dict(op="g2m", g="d")]),
        ("builders-and-options", [dict(op="variants", smiles=smi), dict(op="s2g", smiles=smi, **{"as": "a"}), dict(op="g2s_pres", g="a", preserve=[]),
                                  dict(op="g2s_pres", g="a", preserve=[3]), dict(op="obs", g="a"), dict(op="g2m", g="a")]),
        # the SAME graph object converted, edited in place WITHOUT changing node / edge counts, converted again (a memo keyed by
        # the object and validated by its size would serve the stale answer)
        ("edit-between-conversions", [dict(op="s2g", smiles=smi, **{"as": "a"}), dict(op="hexp", g="a", **{"as": "e"}), dict(op="g2m", g="a"),
                                      dict(op="himp", g="a", **{"as": "i0"}), dict(op="g2s_pres", g="a", preserve=[]),
                                      dict(op="edit", g="a", what=["hc", 1, 4]), dict(op="hexp", g="a", **{"as": "e2"}), dict(op="g2m", g="a"),
                                      dict(op="himp", g="e2", **{"as": "i2"}), dict(op="edit", g="a", what=["ch", 1, 1]), dict(op="g2m", g="a"),
                                      dict(op="hexp", g="a", nodes=[1], **{"as": "e3"}), dict(op="edit", g="a", what=["hc", 1, 0]),
                                      dict(op="hexp", g="a", **{"as": "e4"}), dict(op="himp", g="a", **{"as": "i4"}), dict(op="obs", g="a")]),
        ("converter-objects-reused", [dict(op="conv", smiles=[smi, other, smi, other]), dict(op="s2g", smiles=smi, **{"as": "a"}), dict(op="g2m", g="a")]),
        # the same converter objects on DIFFERENT molecules of the SAME size and shape
        ("converter-objects-same-size", [dict(op="conv", smiles=["CCO", "CCN", "CC[O-]", "C[NH2+]C", "CC=O", "CCO"]),
                                         dict(op="conv", smiles=["[Na+]", "[K+]", "[Cl-]", "[Na+]"])]),
    ]


def _rxn_hist_scripts(rsmi):
    return [
        ("rxn-reduced-then-rule", [dict(op="r2g", rsmi=rsmi, attrs=["element"]), dict(op="smart", rsmi=rsmi, cfg=[True, False, False]),
                                   dict(op="its2gml", rsmi=rsmi, cfg=[True, True, False]), dict(op="r2g", rsmi=rsmi)]),
        ("rxn-gml-api", [dict(op="gmlapi", rsmi=rsmi), dict(op="smart", rsmi=rsmi, cfg=[True, False, False])]),
        ("rxn-rules-in-sequence", [dict(op="smart", rsmi=rsmi, cfg=[True, True, False]), dict(op="smart", rsmi=rsmi, cfg=[True, False, True]),
                                   dict(op="its2gml", rsmi=rsmi, cfg=[False, False, False]), dict(op="smart", rsmi=rsmi, cfg=[True, False, False]),
                                   dict(op="its2gml", rsmi=rsmi, cfg=[True, False, False]), dict(op="r2g", rsmi=rsmi, attrs=["charge", "element", "atom_map"], eattrs=[])]),
    ]


def _rand_text(rng):
    """a rule text as a user or another tool might write it: the rendering of a random record with its lines perturbed"""
    lines = rec_to_text(_rand_record(rng), name=rng.choice(["rule", "r1", "left over", "my context", "x]"])).split("\n")
    out = []
    for ln in lines:
        z = rng.random()
        body = ln.strip()
        if z < 0.45:
            out.append(ln)
        elif z < 0.55:
            out.append(rng.choice(["", "\t", "  "]) + body.replace(" ", rng.choice(["  ", "\t", " \t "])) + rng.choice(["", " ", "\r", "\t"]))
        elif z < 0.62:
            out.append(ln)
            out.append(rng.choice(["", "   ", "# a comment", "   # left as an exercise", "comment [", "   ]", "graph [", "\x0c"]))
        elif z < 0.70 and body.startswith(("node", "edge")):
            toks = body.split()
            k = rng.choice(["drop-label", "drop-id", "swap", "extra", "noquote", "emptylabel", "badid", "keyword", "hash", "quote2"])
            if k == "drop-label" and "label" in toks:
                i = toks.index("label")
                del toks[i:i + 2]
            elif k == "drop-id":
                toks = [t for t in toks if t not in ("id", "source")]
            elif k == "swap" and toks[0] == "node" and len(toks) >= 7:
                toks = toks[:2] + toks[4:6] + toks[2:4] + toks[6:]
            elif k == "extra":
                toks.insert(rng.randint(2, len(toks)), rng.choice(["x", "id", "label", "7", "weight 3"]))
            elif k == "noquote" and "label" in toks:
                i = toks.index("label")
                toks[i + 1] = toks[i + 1].strip('"') or "C"
            elif k == "emptylabel" and "label" in toks:
                toks[toks.index("label") + 1] = '""'
            elif k == "badid":
                toks = [("3.0" if t.isdigit() and rng.random() < 0.5 else t) for t in toks]
            elif k == "keyword" and "label" in toks:
                toks[toks.index("label") + 1] = rng.choice(['"Cleft"', '"node"', '"edge"', '"right"', '"rule"'])
            elif k == "hash" and "label" in toks:
                toks[toks.index("label") + 1] = rng.choice(['"#"', '"#x"', '#', '"="', '":"'])
            elif k == "quote2" and "label" in toks:
                i = toks.index("label")
                toks[i + 1] = rng.choice(['""C""', '"C', 'C"', '"\'C\'"', '"C"x'])
            out.append("      " + " ".join(toks))
        elif z < 0.78 and body.endswith("[") and not body.startswith("rule"):
            out.append(rng.choice(["%s[", "  %s  [  ", "%s [ # note", "%sover [", "%s", "x%s ["]) % body.split()[0])
        elif z < 0.84:
            out.append(ln.replace("00", "0") if rng.random() < 0.5 else ln.replace(" id ", " id 00").replace(" source ", " source 0"))
        elif z < 0.88:
            pass                      # line lost
        else:
            out.append(ln)
    if rng.random() < 0.1:
        rng.shuffle(out)
    return "\n".join(out) + rng.choice(["", "\n", "\n\n"])


def _hist_cases(quick, rng):
    out = []
    corpus = _corpus()
    pick = sorted(rng.sample(range(len(corpus)), 8 if quick else 60))
    rx = ["[CH3:1][Cl:2].[OH-:3]>>[CH3:1][OH:3].[Cl-:2]", "[CH3:10][N:11]([CH3:12])[CH3:13].[CH3:14][I:15]>>[CH3:10][N+:11]([CH3:12])([CH3:13])[CH3:14].[I-:15]",
          "[O:1]=[C:2]([OH:3])[CH3:4].[Na+:5].[OH-:6]>>[O:1]=[C:2]([O-:3])[CH3:4].[Na+:5].[OH2:6]"] + [corpus[i][2] for i in pick]
    for j, r in enumerate(rx):
        if rxn_graphs(r) is None:
            continue
        for nm, script in _rxn_hist_scripts(r):
            out.append(dict(kind="hist", script=script, name="hist/%s/%d" % (nm, j)))
    pool = HIST_POOL if not quick else HIST_POOL   # small and cheap: the whole pool in both tiers
    for j, smi in enumerate(pool):
        rec = mol_record(smi)
        if rec is None:
            continue
        other = pool[(j + 5) % len(pool)]
        for nm, script in _hist_scripts(smi, other):
            if nm == "converter-objects-same-size" and j:
                continue        # does not depend on the SMILES: once
            if not rec["atoms"] and any(st["op"] == "edit" or st.get("nodes") for st in script):
                continue        # edits address atom 1
            if quick and rng.random() < 0.4 and nm not in ("reduced-then-default", "default-reduced-default", "converter-objects-same-size", "builders-and-options", "edit-between-conversions"):
                continue
            out.append(dict(kind="hist", script=script, name="hist/%s/%d" % (nm, j)))
    return out


def _h_alphabet_graphs(n, tier):
    from ..gen.graphs import iso_classes
    labs = [{"element": "C", "hcount": 0}, {"element": "C", "hcount": 1}, {"element": "C", "hcount": 2},
            {"element": "H", "hcount": 0}, {"element": "O", "hcount": 1}]
    if n == 4:
        labs = [labs[0], labs[2], labs[3], labs[4]]
    edges = [{"order": 1}, {"order": 2}] if n <= 3 else [{"order": 1}]
    out = []
    for g in iso_classes(n, labs, edges):
        for _, a in g["nodes"]:
            a.update({"aromatic": False, "charge": 0, "atom_map": 0})
        out.append(g)
    return out


def gen_cases(tier, rng):
    quick = tier == "quick"
    cases = []
    # ---- labels: exhaustive element x charge sweep, plus random
    for el in _periodic_symbols() + ["*"]:
        cases.append(dict(kind="label", element=el, charges=list(range(-4, 5)), name="label/" + el))
    for k in range(20 if quick else 100):
        el = "".join(rng.choice("ABCDEFGHIJKLMNOPQRSTUVWXYZabcdefghijklmnopqrstuvwxyz*") for _ in range(rng.randint(1, 4)))
        cases.append(dict(kind="label", element=el, charges=[rng.choice([-1, 1]) * rng.choice([5, 9, 10, 11, 19, 20, 99, 100, 101, 1000, 12345678901234567890])
                                                             for _ in range(4)]))
    bad = ["", "+", "-", "2+", "C+-", "C-+", "C++", "C2", "C02+", "C007-", "C+2", "C 2+", "C2+ ", "c1", "N+1", "C\n", "C+\n", "C\n\n", "Cl-",
           "Fe3+", "*", "*-", "X", "C.", "[C]", "C2+2", "C12", "Cu+Cu", "O2-", "H+", "a*b9-"]
    cases.append(dict(kind="extract", labels=bad, name="extract/fixed"))
    for k in range(6 if quick else 30):
        cases.append(dict(kind="extract", labels=["".join(rng.choice("CNOl*+-0129 ") for _ in range(rng.randint(0, 5))) for _ in range(12)]))
    # ---- hydrogen conversions: exhaustive small graphs
    for n in ((1, 2, 3) if quick else (1, 2, 3, 4)):
        for j, g in enumerate(_h_alphabet_graphs(n, tier)):
            cases.append(dict(kind="hx", g=g, nodes=None, its=False, name="hx-exh/%d/%d" % (n, j)))
    # ... the same graphs with the optional 'hcount' key absent on heavy atoms whose count is 0 (the key is optional:
    # h_to_implicit must start from 0, h_to_explicit must leave the atom alone)
    nk = 0
    for n in (2, 3):
        for j, g in enumerate(_h_alphabet_graphs(n, tier)):
            els = [a.get("element") for _, a in g["nodes"]]
            if "H" in els and any(a.get("element") != "H" and a.get("hcount") == 0 for _, a in g["nodes"]):
                g2 = {"nodes": [[i, {k: v for k, v in a.items() if not (k == "hcount" and v == 0 and a.get("element") != "H")}]
                                for i, a in g["nodes"]], "edges": g["edges"]}
                cases.append(dict(kind="hx", g=g2, nodes=None, its=False, name="hx-nokey/%d/%d" % (n, j)))
                nk += 1
                if quick and nk >= 120:
                    break
    # ... and staged expansion: hydrogens made explicit on one atom only, which is not the atom with the largest id
    ns = 0
    for n in (2, 3):
        for j, g in enumerate(_h_alphabet_graphs(n, tier)):
            ids = sorted(i for i, _ in g["nodes"])
            first = dict((i, a) for i, a in g["nodes"])[ids[0]]
            if first.get("element") != "H" and (first.get("hcount") or 0) > 0:
                cases.append(dict(kind="hx", g=g, nodes=[ids[0]], its=False, name="hx-subset/%d/%d" % (n, j)))
                ns += 1
                if quick and ns >= 150:
                    break
    for k in range(250 if quick else 1500):
        n = rng.randint(1, 9)
        z = rng.random()
        if z < 0.6:
            g = _rand_mol_graph(rng, n)
            nodes = None if rng.random() < 0.6 else [rng.choice([a for a, _ in g["nodes"]] + [99]) for _ in range(rng.randint(0, 3))]
            cases.append(dict(kind="hx", g=g, nodes=nodes, its=False))
        else:
            g = _rand_mol_graph(rng, n, with_tgh=rng.random() < 0.7, pair_orders=True)
            cases.append(dict(kind="hx", g=g, nodes=None if rng.random() < 0.7 else [a for a, _ in g["nodes"]][:2], its=rng.random() < 0.7))
    # ---- molecules: corpus + vendored
    cm = _corpus_molecules()
    vend = _vendored()
    if quick:
        pick = rng.sample(range(len(cm)), min(len(cm), 140))
        cm_q = [cm[i] for i in sorted(pick)]
        vend_q = [vend[i] for i in sorted(rng.sample(range(len(vend)), min(len(vend), 160)))]
    else:
        cm_q, vend_q = cm, vend
    for src, f, c in cm_q:
        cases.append(dict(kind="mol", smiles=f, src="corpus-" + src + "-as-written"))
        if not quick or rng.random() < 0.5:
            cases.append(dict(kind="mol", smiles=c, src="corpus-" + src + "-unmapped"))
    for s in vend_q:
        cases.append(dict(kind="mol", smiles=s, src="vendored"))
    # ---- partially mapped molecules (some atoms carry a map number, others do not): with use_index_as_atom_map=True the
    #      unmapped atoms are numbered index + 1, next to the map numbers of the others
    for j, sm in enumerate(PARTIAL_MAP_POOL):
        cases.append(dict(kind="mol", smiles=sm, src="partial-map", name="mol-partial-map/%d" % j))
    from rdkit import Chem as _Chem
    npm = 0
    for src, f, c in cm_q:
        if npm >= (12 if quick else 200):
            break
        mm = _Chem.MolFromSmiles(f)
        if mm is None or mm.GetNumAtoms() < 3 or not all(a.GetAtomMapNum() for a in mm.GetAtoms()):
            continue
        for a in mm.GetAtoms():
            if rng.random() < 0.4:
                a.SetAtomMapNum(0)
        cases.append(dict(kind="mol", smiles=_Chem.MolToSmiles(mm), src="partial-map-corpus"))
        npm += 1
    # ---- degenerate values and sizes (empty molecule, single atoms, charges up to +-4, ring closure %10, map numbers 0 / >= 10)
    for j, s in enumerate(HIST_POOL):
        cases.append(dict(kind="mol", smiles=s, src="degenerate", name="mol-degenerate/%d" % j))
    # ---- histories: one script per case, shared objects, every step judged
    cases.extend(_hist_cases(quick, rng))
    # ---- GML parser on arbitrary records, writer on arbitrary triples
    for k in range(150 if quick else 1000):
        cases.append(dict(kind="parse", rec=_rand_record(rng)))
    # ---- GML TEXT: perturbed renderings through GMLToNX.transform, model = the tokeniser itself (model/C10_Text.v)
    for k in range(250 if quick else 1500):
        cases.append(dict(kind="text", text=_rand_text(rng)))
    for j, t in enumerate(["", "\n", "]", "rule [\n]", "left [\nnode [ id 1 label \"C\" ]", "node [ id 1 label \"C\" ]",
                           "rule [\n left [\n edge [ source 1 target 2 label \"#\" ]\n ]\n context [\n ]\n right [\n edge [ source 1 target 2 label \"-\" ] # broken\n ]\n]",
                           "context [\n node [ id 1 label ]\n]", "right [\n node [ id label \"C\" ]\n]", "left [\n edge [ source 1 target 1 label \"-\" ]\n]"]):
        cases.append(dict(kind="text", text=t, name="text-fixed/%d" % j))
    for k in range(120 if quick else 800):
        n = rng.randint(1, 6)
        its = _rand_its(rng, n, ["C", "N", "O", "H", "Cl"])
        ids = [a for a, _ in its["nodes"]]

        def side(j):
            ns = [[i, {"element": a["typesGH"][j][0], "aromatic": False, "hcount": a["typesGH"][j][2], "charge": a["typesGH"][j][3], "atom_map": i}]
                  for i, a in its["nodes"] if rng.random() < 0.9]
            have = {i for i, _ in ns}
            es = [[u, v, {"order": e["order"][j]}] for u, v, e in its["edges"] if e["order"][j] and u in have and v in have]
            rng.shuffle(ns)
            return {"nodes": ns, "edges": es}
        K = dict(its)
        if rng.random() < 0.5:      # context with extra nodes whose ids collide with the reindex targets
            extra = _rand_its(rng, rng.randint(1, 3), ["C", "O"])
            used = set(ids)
            K = {"nodes": list(its["nodes"]), "edges": list(its["edges"])}
            for i, a in extra["nodes"]:
                if i not in used:
                    K["nodes"].append([i, a])
                    used.add(i)
                    if rng.random() < 0.7 and ids:
                        K["edges"].append([i, rng.choice(ids), {"order": [1, 1], "standard_order": 0}])
            rng.shuffle(K["nodes"])
        cases.append(dict(kind="transform", L=side(0), R=side(1), K=K, cfgs=[[True, False], [False, False], [rng.random() < 0.5, True]]))
    # ---- DFS-style annotated SMILES <-> mapped SMILES (string rewriting at the bottom of chem_converter.py; model/C10_Dfs.v)
    fixed = ["[H]1[]3.C[O]2>>C[O]2.[H]1[]3", "[H]1[N]2([H]4)[]3>>[]3[N]2.[H]1[N]6([H]4)[H]5", "[H:1][*:3].C[O:2]>>C[O:2].[H:1][*:3]",
             "[H:12][N:2]([H:4])[*:3]", "[H]1 [*]3 >> [H]1[*]3", "", "[]", "[*]", "[[]1", "[a]]2", "[C:1]5", "[]12[*]3", "[:1]", "[C:]1", "[C::2]",
             "[a:b:3]", "[C]1 2", "[C\n]1", "[]1]2", "[[C]1]2", "[*:3]", "[**:3]", "[C]007", "[[*]]", "[[]]", "[*][]", "[*]1[]2", "[C:12", "C]1", "[]]1"]
    cases.append(dict(kind="dfs", strings=fixed, name="dfs/fixed"))
    for k in range(8 if quick else 60):
        cases.append(dict(kind="dfs", strings=["".join(rng.choice("[][]]::**0129CHN.> \n") for _ in range(rng.randint(0, 14))) for _ in range(30)]))
    cp = _corpus()
    for k in range(6 if quick else 60):
        r = cp[rng.randrange(len(cp))][2]
        from synkit.IO.chem_converter import smiles_to_dfs as _s2d
        cases.append(dict(kind="dfs", strings=[r, _s2d(r)], name="dfs/corpus/%d" % k))
    # ---- reaction-level wrappers (model/C10_Rxn.v): rsmi_to_its options, its_to_rsmi / graph_to_rsmi / gml_to_smart up to the
    #      molecules handed to RDKit, implicit_hydrogen(reindex)
    from ..gen import c10_rxn
    for j, r in enumerate(c10_rxn.EXPLICIT_H_RXNS):
        cases.append(dict(kind="rxn", rsmi=r, name="rxn/explicit-h/%d" % j))
    for k in range(60 if quick else 500):
        cases.append(dict(kind="itsrsmi", its=c10_rxn.rand_its_h(rng, _rand_its)))
    for k in range(60 if quick else 500):
        cases.append(dict(kind="gmlsmart", rec=c10_rxn.rand_record_valid(rng)))
    for k in range(80 if quick else 600):
        g = _rand_mol_graph(rng, rng.randint(1, 8))
        maps = [a.get("atom_map", 0) for _, a in g["nodes"]]
        cases.append(dict(kind="imph", g=g, preserve=rng.sample(maps, min(len(maps), rng.randint(0, 3))) + ([0] if rng.random() < 0.2 else [])))
    # ---- ITS -> GML -> ITS: exhaustive two-atom scope, random synthetic, corpus
    ALL4 = [[True, True, False], [True, False, False], [False, True, False], [False, False, False]]
    for j, g in enumerate(_two_atom_its()):
        cases.append(dict(kind="its", its=g, cfgs=ALL4, name="its-exh2/%d" % j))
    # degenerate ITS graphs: empty, a single atom (with and without a charge change), isolated atoms only
    def _atom(i, el, q, q2):
        return [i, {"element": el, "aromatic": False, "hcount": 0, "charge": q, "atom_map": i,
                    "typesGH": [[el, False, 0, q, []], [el, False, 0, q2, []]]}]
    for j, g in enumerate([{"nodes": [], "edges": []}, {"nodes": [_atom(5, "C", 0, 0)], "edges": []}, {"nodes": [_atom(5, "N", 0, 1)], "edges": []},
                           {"nodes": [_atom(12, "O", -2, -1), _atom(3, "Fe", 3, 2), _atom(10, "H", 0, 0)], "edges": []}]):
        cases.append(dict(kind="its", its=g, cfgs=ALL4 + [[True, True, True], [False, False, True]], name="its-degenerate/%d" % j))
    cases.append(dict(kind="hx", g={"nodes": [], "edges": []}, nodes=None, its=False, name="hx-degenerate/empty"))
    cases.append(dict(kind="hx", g={"nodes": [], "edges": []}, nodes=[1], its=True, name="hx-degenerate/empty-its"))
    syms = _periodic_symbols()
    for k in range(150 if quick else 900):
        n = rng.randint(2, 7)
        els = ["C", "N", "O", "H", "H", "Cl"] if rng.random() < 0.6 else [rng.choice(syms) for _ in range(4)] + ["*"]
        g = _rand_its(rng, n, els, consistent=rng.random() < 0.85)
        cfgs = [list(c) for c in ALL4] if rng.random() < 0.5 else [[rng.random() < 0.5, rng.random() < 0.5, True], [True, True, False]]
        case = dict(kind="its", its=g, cfgs=cfgs)
        z = rng.random()
        if z < 0.15:        # another rule name (positional call): the name line must not disturb the reader
            case["rule_name"] = rng.choice(["R-17", "left over", "x]", "my context rule", "node 7", "", "rule [", "a b\tc"])
        elif z < 0.36:      # ids with 3-5 digits, or 0-based ids (node id 0 is falsy)
            mul, off = rng.choice([(97, 1000), (1, 99), (1009, 7), (10, 0), (0, 0), (0, 0)])
            if mul == 0:
                order = sorted(i for i, _ in g["nodes"])
                ren = {i: order.index(i) for i in order}
                if any(c[1] and c[2] for c in cfgs):      # reindex + explicit_hydrogen on 0-based ids: lossy (see notes), keep it apart
                    cfgs = case["cfgs"] = [c for c in cfgs if not (c[1] and c[2])] or [[True, False, False]]
            else:
                ren = {i: i * mul + off for i, _ in g["nodes"]}
            case["its"] = {"nodes": [[ren[i], dict(a, atom_map=ren[i])] for i, a in g["nodes"]],
                           "edges": [[ren[u], ren[v], a] for u, v, a in g["edges"]]}
            case["name"] = "its-bigids/%d" % k
        cases.append(case)
    corpus = _corpus()
    idx = list(range(len(corpus)))
    if quick:
        usp = [i for i in idx if corpus[i][0] == "uspto"]
        eco = [i for i in idx if corpus[i][0] == "ecoli"]
        idx = sorted(rng.sample(usp, 28) + rng.sample(eco, 22))
    from synkit.IO.chem_converter import rsmi_to_its
    from synkit.Graph.ITS.its_decompose import get_rc
    # reactions written in a form sanitisation changes (Kekule ring -> aromatic bonds and flags, pentavalent nitro -> charge
    # separated): with sanitize=False (passed positionally) the rule is written from the molecule as given
    for j, r in enumerate(NOSANITIZE_RXNS):
        for san in (True, False):
            if rxn_graphs(r, san) is not None:
                cases.append(dict(kind="smart", rsmi=r, sanitize=san, cfgs=[[True, False, False], [False, False, False], [True, True, True]],
                                  name="smart-%s/%d" % ("sanitized" if san else "nosanitize-kekule", j)))
    for i in idx:
        src, j, r = corpus[i]
        if rxn_graphs(r) is None:
            continue
        cases.append(dict(kind="smart", rsmi=r, cfgs=[[True, False, False], [True, True, False], [False, False, False]],
                          name="smart/%s/%d" % (src, j)))
        if (not quick and i % 2 == 0) or (quick and len([c for c in cases if c["kind"] == "rxn"]) < 27):
            cases.append(dict(kind="rxn", rsmi=r, name="rxn/%s/%d" % (src, j)))
        if i % 4 == 1 and rxn_graphs(r, False) is not None:
            cases.append(dict(kind="smart", rsmi=r, sanitize=False, cfgs=[[True, False, False], [False, True, False]],
                              name="smart-nosanitize/%s/%d" % (src, j)))
        r2 = _renumber(r, rng)
        if rxn_graphs(r2) is not None:
            cases.append(dict(kind="smart", rsmi=r2, of=r, cfgs=[[True, True, False], [True, False, rng.random() < 0.3]],
                              name="smart-renum/%s/%d" % (src, j)))
        try:
            its = rsmi_to_its(r)
            full = from_nx(its)
            rc = from_nx(get_rc(its))
        except Exception:
            continue
        cases.append(dict(kind="its", its=full, cfgs=[[True, True, False], [True, False, False], [False, rng.random() < 0.5, False]]
                          + ([[False, False, True]] if i % 3 == 0 or not quick else []),
                          name="its-full/%s/%d" % (src, j)))
        cases.append(dict(kind="its", its=rc, cfgs=[[True, True, False], [True, False, False]], name="its-centre/%s/%d" % (src, j)))
        if i % 4 == 2 or (not quick and i % 2 == 0):
            # one ITS object exported, edited in place (counts unchanged), exported again
            un = [(u, v, a) for u, v, a in full["edges"] if a["order"][0] == a["order"][1] == 1]
            rcn = [n for n, _ in rc["nodes"]]
            eds = []
            if un:
                u, v, _a = un[rng.randrange(len(un))]
                eds.append(["edge", u, v, [1, rng.choice([2, 0])]])
            if rcn:
                n0 = rcn[rng.randrange(len(rcn))]
                q = [a["typesGH"][1][3] for n, a in full["nodes"] if n == n0][0]
                eds.append(["charge", n0, q + 1])
            if eds:
                cases.append(dict(kind="itshist", its=full, edits=eds, name="itshist/%s/%d" % (src, j)))
    return cases
