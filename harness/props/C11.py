"""C11 — automorphism groups and orbits are exact; the WL-1 estimate never separates a true orbit;
de-duplication returns a sub-list; symmetry pruning in SynReactor.mappings() never changes the set of
distinct reactions.

Case kinds (all JSON):
  {"kind": "aut",   "g": G}                       exact analysis (Automorphism) + WL-1 estimate (AutoEst) of one graph
  {"kind": "dedup", "p": G, "h": G, "ms": [[[p, h], ...], ...]}
                                                  a match list (pattern -> host, dict order) fed to both de-duplicators
                                                  in 8 configurations
  {"kind": "prune", "tpl": rsmi, "core": bool, "sub": smiles, "invert": bool, "opts": {...}}
                                                  one rule application: pruning on versus gluing every raw match
G = {"nodes": [[id, attrs], ...], "edges": [[u, v, attrs], ...]}   (harness/gen/graphs.py)
"""
import json

from ..coqrun import cN, cnat, cbool, clist, cpair, copt
from ..tok import S
from ..gen import graphs as GG
from ..gen import c11_gen as GEN

PID = "C11"
COQ_HEADER = ("From Coq Require Import List NArith ZArith.\nImport ListNotations.\n"
              "From SK Require Import lib.Tok lib.LGraph model.C11_Model model.C11_State model.C11_Partial model.C11_Keys model.C11_Attr model.C11_Orbit model.C11_Order model.C11_SigObs model.C11_Views model.C11_AttrFull model.C11_State2 model.C11_Attr3 model.C03_Model model.C11_Image model.C11_Agree.\nLocal Open Scope N_scope.\n")
SHARD = 100
IMPL_TIMEOUT = 300      # the stage takes 7 s on 16 idle cores (40 CPU-s); a lost pool worker ends it after this bound, not later
COQ_TIMEOUT = 300       # per shard of 100 cases (8 CPU-s at most since the cases are dealt round-robin)

RULE = ("aut: labelled graphs (all isomorphism classes up to 3 nodes over {C,O}x{hcount 0,1}x{single,double}; 4 nodes: all 705 classes over "
        "{C,O}x{single,double} [the labels the exact analysis sees] plus, quick: a seeded sample of 1500 / thorough: all 9291 classes with "
        "hcount labels; all classes on 5 nodes over {C,O}x{single}; random connected/disconnected graphs up to 9 nodes; symmetric families; "
        "relabelled / re-inserted copies); "
        "dedup: match lists from SubgraphSearchEngine on random hosts (plus partial, shuffled, duplicated lists) under 8 orbit/anchor "
        "configurations; prune: (template, substrate, direction, mode) applications with pruning on versus every raw match. "
        "Non-trivial: aut = at least 2 nodes and a non-identity automorphism or a WL class of size >= 2; dedup = some configuration "
        "drops a match; prune = at least 2 raw matches. distinct = distinct case dictionaries")
EXHAUSTIVE = {"quick": True, "thorough": True}
EXPLANATION = ("Exhaustive sub-space (both tiers): every labelled graph up to isomorphism on <=3 nodes over node labels {C,O}x{hcount 0,1} and "
               "edge labels {single,double} (398 graphs), on 4 nodes over {C,O}x{single,double} (705; thorough: also all 9291 classes with "
               "hcount labels, quick: a seeded sample of 1500 of them) and on 5 nodes over {C,O}x{single} - exact count, orbits, components, "
               "anchor, the VF2 enumerations and the WL-1 colours after 0,1,2,10 rounds are compared with the model and with brute force.  "
               "Everything else is seeded random / "
               "corpus sampling.  Theorems (coq/props/C11.v, all closed under the global context): C11_vocabulary, C11_aut_count, C11_aut_group, "
               "C11_vf2_contract, C11_vf2_contract_items, C11_orbits_exact, C11_orbits_partition, C11_components, C11_anchors, C11_object_state, C11_wl_never_splits, C11_wl_partition, C11_wfb_sound, "
               "C11_dedup_sublist, C11_dedup_first_of_class, C11_dedup_idempotent, C11_partial_prune, C11_partial_prune_hosts, C11_prune_complete, C11_rep_ok, C11_prune_complete_aut, C11_prune_first_of_class, C11_prune_same_results, C11_configured_labels_only, C11_key_options, C11_rule_labels, C11_orbit_accuracy, C11_aut_observable, C11_wl_never_splits_reported, C11_orbit_accuracy_all, C11_orbit_order, C11_views, C11_dedup_singletons_sound, C11_dedup_orbit_sets_merge_unrelated, C11_orbits_no_swaps, C11_count_no_swaps, C11_repr_numeral, C11_reported_order_canonical, C11_prune_attr, C11_wl_sweeps, C11_aut_observable_attr, C11_dedup_subset_safe, C11_est_index_state, C11_three_views, C11_prune_same_images, C11_lone_atoms_fixed, C11_prune_same_glue, C11_rule_auts_agree, C11_dedup_any_same_glue.")
TRUSTED_BASE = [
    "Coq 8.16.1 kernel + vm_compute (no native_compute)",
    "hand-written model coq/model/C11_Model.v tied to synkit/Graph/Matcher/{automorphism,auto_est,dedup_matches}.py and the pruning call of "
    "SynReactor.mappings() by the per-run correspondence",
    "networkx VF2 isomorphisms_iter is modelled by the verified enumerator lib/Mono.v (induced, G into G).  The code uses only the number of "
    "enumerated maps and the set of their (node, image) pairs; C11_vf2_contract(_items) show that any duplicate-free listing of exactly the "
    "label-preserving automorphisms (maps as dictionaries, item order free) gives the same analysis; that VF2 is such a listing is monitored on every case (count, orbit sets, number "
    "of rule automorphisms) and independently against a brute-force Python enumerator in the oracle",
    "harness encoders harness/props/C11.py (attribute keys and values coded injectively, equal codes iff Python ==; selection of keys, "
    "defaults and label building happen in the model for every case; dict order shipped as list order); the theorems' "
    "premise wf (distinct node ids, edges between distinct listed nodes, one entry per unordered pair) is computed by the model function wfb "
    "on every encoded graph and compared with True",
    "C11_prune_same_images / C11_prune_same_results are stated for any result function of the labelled image of the rule centre under a "
    "match (which host atom receives which labelled rule atom, which pair which labelled rule bond) / any function invariant under rule "
    "automorphisms; that gluing is such a function is the named premise (property C05) - exercised end-to-end by the oracle on every prune case",
]
ASSUMPTIONS = ["node ids are non-negative integers", "an absent attribute is its default label (charge 0, other node attributes '*', bond order 1.0)",
               "graphs are simple and undirected",
               "attribute keys and values reach the model as codes that are equal iff the Python objects are == (bool kept apart from numbers)"]
TESTED_NOT_PROVED = ["end-to-end: set of standardised reactions and of ITS hashes with pruning on == with every raw match glued (oracle, every prune case; "
                     "the proved half is: every raw match differs from a kept match by a rule automorphism)",
                     "whole-molecule templates (reaction-centre graph above the enumerator budget, about 17+ atoms) are outside the model's "
                     "evaluated domain: for them only the oracle runs (counted under outside_model_domain)",
                     "every graph reaches the model as attribute dictionaries (key / value codes); key options, defaults of absent attributes and "
                     "all labels are computed inside the model (to_graph, to_rule_graph, to_graph3) - what is tested, not proved, about them is only "
                     "that the codes are equal exactly when the Python values are =="]
LEVEL_TEXT = ("Machine-checked proof (Coq, all inputs) over an executable model of Automorphism, AutoEst, both match de-duplicators and the pruning "
              "step of SynReactor.mappings(): the enumeration is a duplicate-free list of exactly the label-preserving automorphisms, which form a "
              "group; the reported count is its length (product over components for disconnected graphs, component swaps excluded as the code "
              "documents); the reported orbits partition the nodes and two nodes share one IFF a listed automorphism maps one to the other (for a "
              "disconnected graph: an automorphism of their common component; the components are proved to be the connectivity classes); WL-1 colours after any number of rounds are preserved by every automorphism, so an "
              "estimated orbit never splits a true orbit; both de-duplicators and the pruning return a subsequence of their input; every pruned-away "
              "match differs from a kept match by a rule automorphism and a match is kept iff no earlier one does (exactly the earliest of every "
              "class), so any result function invariant under rule automorphisms has the same image with and without pruning; "
              "deduplicate_matches_with_anchor keeps exactly the first match of every signature class whatever host anchor is passed, "
              "PartialMatcher's pruning is that function on the WL-1 host orbits; reused Automorphism / AutoEst objects are modelled as state "
              "machines (lazy cache without invalidation, re-fit recomputes).  Round 5: for a disconnected graph the reported orbits and number are "
              "those of the automorphisms of the whole graph that keep every component (bijection with the tuples of component automorphisms), and the "
              "estimate never separates a reported orbit either; key options, defaults of absent attributes and the rule labels of graph_automorphisms "
              "are modelled on attribute dictionaries (automorphisms of the analysed graph = maps preserving the configured attribute tuples / the "
              "dictionaries up to ignored keys); orbit.py's OrbitAccuracy, the order of the reported lists (numerals proved decimal, order canonical), "
              "the remaining views and the signatures of deduplicate_matches_with_anchor are in the model; the function drops only duplicates when "
              "every free orbit is a singleton, and merges unrelated matches otherwise (witness).  The model is tied to the code by a per-run correspondence on exhaustive small scopes, random graphs, "
              "symmetric families, engine-produced match lists and reactor applications.")
LEVEL_NOTE = ("Trusted: Coq kernel + vm_compute; the model and encoders; VF2 = a duplicate-free listing of the automorphisms (monitored).  Clause 4 no "
              "longer rests on a premise about gluing: C11_prune_same_glue (round 6) proves, for C03's gluing model and C11's own pruning step, that the "
              "set of glued ITS graphs is the same with and without the pruning (imports C05's glue_aut / glue_obs); its hypotheses are computations "
              "evaluated by the correspondences: agreeb (C11's and C03's encodings of the rule centre agree - every rule application with at most 10 "
              "rule-centre atoms in C03's domain), rc_ok / match_ok (C05).  ITS graph -> reaction string is RDKit (oracle, end to end).")

N_CFG = 8
WL_ATTRS4 = ["element", "charge", "aromatic", "hcount"]
WL_ITERS = [0, 1, 2, 10]


def worker_init():
    import logging
    logging.disable(logging.CRITICAL)


# ------------------------------------------------------------------ labels

def _lab_a(a):
    return json.dumps([a.get("element", "*"), a.get("charge", 0)])


def _dflt(k):
    """the default label of an absent attribute (Automorphism._node_defaults; AutoEst uses the same since the round-3 fix)"""
    return 0 if k == "charge" else "*"


def _lab_w(a):
    return json.dumps([GG._js(a.get(k, _dflt(k))) for k in WL_ATTRS4], default=str)


def _lab_f(a):
    return json.dumps({k: GG._js(v) for k, v in a.items() if k != "atom_map"}, sort_keys=True, default=str)


def _lab_e(a):
    return json.dumps({k: GG._js(v) for k, v in a.items()}, sort_keys=True, default=str)


def _order(a):
    return a.get("order", 1.0)          # default of an absent bond order (Automorphism._edge_defaults)


def _in_domain(g):
    for n, a in g["nodes"]:
        if not (isinstance(n, int) and n >= 0):
            return False
    for u, v, a in g["edges"]:
        if u == v:
            return False
    return True


def _lab_keys(a, nk):
    return _lab_a(a) if nk is None else json.dumps([GG._js(a.get(k, _dflt(k))) for k in nk], default=str)


def _jv(v):
    """attribute value for interning: numbers compare as Python does (1 == 1.0)"""
    if isinstance(v, (int, float)) and not isinstance(v, bool):
        return float(v)
    return GG._js(v)


def _keysets(nk, ek):
    """(keys the exact analysis compares on, keys the second estimate labels with): an empty / absent list means the
    defaults for Automorphism (truth test in its constructor) and NO label for AutoEst (only None means the defaults)"""
    nkx = list(nk) if nk else ["element", "charge"]
    ekx = list(ek) if ek else ["order"]
    nkw = ["element", "charge"] if nk is None else list(nk)
    ekw = ["order"] if ek is None else list(ek)
    return nkx, ekx, nkw, ekw


def _nlab(a, keys):
    return tuple(_jv(a.get(k, _dflt(k))) for k in keys)


def _elab(a, keys):
    return tuple(_jv(a.get(k, 1.0)) for k in keys)


def _coq_graph(g):
    """the graph with the three node labels / two edge labels of C11_Model, built INSIDE the model from the attribute
    dictionaries (C11_Attr3.to_graph3; until round 5 this projection was done here in Python)"""
    return "(to_graph3 %s)" % _coq_agraph(g)[0]


def _coq_maps(ms):
    return clist([clist([cpair(cN(p), cN(h)) for p, h in m]) for m in ms])


# ------------------------------------------------------------------ implementation adapter

def _aut_obs(G, nk=None):
    """observable of the exact analysis + the WL estimate of the nx graph object G; nk = node attribute keys handed to
    Automorphism and to the second estimate (None = the defaults element, charge)"""
    from synkit.Graph.Matcher.automorphism import Automorphism
    from synkit.Graph.Matcher.auto_est import AutoEst
    if nk is None:
        A = Automorphism(G)
    elif nk[0] == "charge":
        A = Automorphism(G, list(nk), ("order",))                    # positional, tuple instead of list
    else:
        A = Automorphism(G, node_attr_keys=list(nk), edge_attr_keys=["order"])
    anchor = A.anchor_component
    out = [A.n_automorphisms, S([S(sorted(o)) for o in A.orbits]), [S(sorted(c)) for c in A.components],
           [] if anchor is None else [S(sorted(anchor))]]
    for attrs in (WL_ATTRS4, None if nk is None else list(nk)):
        rounds = []
        for k in WL_ITERS:
            est = (AutoEst(G, attrs, ["order"], k) if (nk is not None and nk[0] == "charge")      # all positional
                   else AutoEst(G, node_attrs=attrs, edge_attrs=["order"], max_iter=k)).fit()
            col = est.node_colors
            rounds.append([col[n] for n in G.nodes()])
        out.append([rounds, [sorted(o) for o in est.orbits], sorted(est.anchor_component)])
    return [out, True, _impl_vf2(G, A)]


def _frac(x, den):
    """a float metric num/den as the two integers (num = -1 if the float is not such a quotient)"""
    num = int(round(x * den))
    return [num if abs(num / den - x) < 1e-9 else -1, den]


def _oa_obs(approx, exact, confusion=True, brute=True):
    """OrbitAccuracy(approx, exact).compute(): [0, exact-match, (confusion rows,) purity, pairwise accuracy] or [1] = ValueError"""
    from synkit.Graph.Matcher.orbit import OrbitAccuracy
    try:
        if brute:
            oa = OrbitAccuracy(approx, exact)
        else:                                       # keyword form, arguments permuted
            exact = list(exact)
            oa = OrbitAccuracy(exact_orbits=exact, approx_orbits=approx)
        oa = oa.compute() if brute else oa.compute(brute_force_pairs=False)      # the fallback delegates to the same count
    except ValueError:
        return [1]
    # the object is reusable: a second compute() and edits of the returned copies change nothing
    m1, c1 = oa.metrics, oa.confusion_map
    m1c, c1c = dict(m1), {k: dict(v) for k, v in c1.items()}
    m1.clear()
    for row in c1.values():
        row.clear()
    c1.clear()
    oa.compute()
    if oa.metrics != m1c or oa.confusion_map != c1c:
        return [2]                                  # never a model value
    m = oa.metrics
    n = len(oa.nodes)
    out = [0, _frac(m["node_exact_match_fraction"], n or 1)]
    if confusion:
        cm = oa.confusion_map
        out.append([[[ej, c] for ej, c in cm[ai].items()] for ai in range(len(oa.approx_orbits))])
    out.append(_frac(m["purity"], n or 1))
    out.append(_frac(m["pairwise_accuracy"], n * (n - 1) // 2) if n >= 2 else [1, 1])
    return out


def _impl_views(case):
    """the remaining public views (model/C11_Views.v): anchor_largest_component=False, is_connected, len, and
    AutoEst.components(nodes) / orbit_components(nodes) for several node subsets (ValueError = [1])"""
    from synkit.Graph.Matcher.automorphism import Automorphism
    from synkit.Graph.Matcher.auto_est import AutoEst
    G = GG.to_nx(case["g"])
    A = Automorphism(G, anchor_largest_component=False)
    anchor = A.anchor_component
    est = AutoEst(G).fit()
    subs = []
    for sub in case["subsets"]:
        row = []
        for f in (est.components, est.orbit_components):
            try:
                row.append([0, [S(sorted(c)) for c in f(None if sub is None else list(sub))]])
            except ValueError:
                row.append([1])
        subs.append(row)
    return [[] if anchor is None else [S(sorted(anchor))], A.n_automorphisms, A.is_connected, len(A), subs]


def _impl_aut(case):
    if case.get("attr"):                # attribute dictionaries handed to the model as they are (default options)
        return _aut_obs_keys(GG.to_nx(case["g"]), None, None)
    from synkit.Graph.Matcher.automorphism import Automorphism
    from synkit.Graph.Matcher.auto_est import AutoEst
    G = GG.to_nx(case["g"])
    est, A = AutoEst(G).fit(), Automorphism(G)
    oi = est.orbit_index
    # the reported lists IN ORDER (Automorphism._sorted_orbits; AutoEst.groups) and the derived views (model/C11_Order.v)
    order = [[sorted(o) for o in A.orbits], [list(x) for x in est.groups], [[oi[n]] if n in oi else [] for n in G.nodes()], est.n_orbits]
    return _aut_obs(G) + [_oa_obs(est.orbits, A.orbits, confusion=False), order]


def _aut_obs_keys(G, nk, ek):
    """the same for an arbitrary key configuration (model: C11_Keys.run_aut_keys): Automorphism(G, nk, ek) - constructed
    with keywords or positionally -, the 4-attribute estimate with its fixed keys, a second estimate AutoEst(G, nk, ek)"""
    from synkit.Graph.Matcher.automorphism import Automorphism
    from synkit.Graph.Matcher.auto_est import AutoEst
    pos = bool(nk) and nk[0] == "charge"
    A = Automorphism(G, nk, tuple(ek) if ek is not None else None) if pos else Automorphism(G, node_attr_keys=nk, edge_attr_keys=ek)
    anchor = A.anchor_component
    out = [[A.n_automorphisms, S([S(sorted(o)) for o in A.orbits]), [S(sorted(c)) for c in A.components],
            [] if anchor is None else [S(sorted(anchor))]]]
    for attrs, eattrs in ((WL_ATTRS4, ["order"]), (nk, ek)):
        rounds = []
        for k in WL_ITERS:
            est = (AutoEst(G, attrs, eattrs, k) if pos else AutoEst(G, node_attrs=attrs, edge_attrs=eattrs, max_iter=k)).fit()
            col = est.node_colors
            rounds.append([col[n] for n in G.nodes()])
        out.append([rounds, [sorted(o) for o in est.orbits], sorted(est.anchor_component)])
    return out + [True, _impl_vf2(G, A)]


KEY_CODES = {"element": 0, "charge": 1, "order": 2, "aromatic": 3, "hcount": 4, "atom_map": 5}      # model/C11_Attr.v K_*
VALUE_CODES = {'"*"': 0, "0.0": 1, "1.0": 2}                                          # model/C11_Attr.v V_*


def _coq_agraph(g):
    """(literal of type agraph, key encoder): the attribute DICTIONARIES as they are (key code -> value code, equal codes iff
    Python ==); selecting the configured keys and supplying the defaults of absent attributes happens in the model."""
    ik, iv = dict(KEY_CODES), dict(VALUE_CODES)

    def kc(k):
        return ik.setdefault(k, len(ik))

    def vc(v):
        return iv.setdefault(json.dumps(_jv(v), default=str, sort_keys=True), len(iv))

    def d(a):
        return clist([cpair(cN(kc(k)), cN(vc(v))) for k, v in a.items()])
    return GG.coq_lgraph(g, lambda n, a: d(a), lambda u, v, a: d(a)), kc


def _coq_keys(g, nk, ek):
    """model/C11_Attr.v run_aut_attr: the options as the caller gave them (None / a possibly empty list of keys)"""
    ag, kc = _coq_agraph(g)
    opt = lambda ks: "None" if ks is None else "(Some %s)" % clist([cN(kc(k)) for k in ks])
    return "run_aut_attr %s %s %s" % (opt(nk), opt(ek), ag)


def _matcher(A, sub):
    """the matcher the analysis builds; if a refactoring removes the private helper, the same VF2 call made directly
    (the contract monitored is networkx's, not the helper's name)"""
    mk = getattr(A, "_make_matcher", None)
    if mk is not None:
        return mk(sub)
    from networkx.algorithms.isomorphism import GraphMatcher, categorical_node_match, categorical_edge_match
    return GraphMatcher(sub, sub, node_match=categorical_node_match(["element", "charge"], ["*", 0]),
                        edge_match=categorical_edge_match(["order"], [1.0]))


def _impl_vf2(G, A):
    """The VF2 enumerations the analysis consumes (Automorphism._make_matcher(sub).isomorphisms_iter(), one per component in
    component order), each as a set of maps given as sets of (node, image) items - only when the reported count is <= 200."""
    if A.n_automorphisms > 200:
        return []
    out = []
    for comp in A.components:
        sub = G.subgraph(comp).copy()
        out.append(S([S([[u, v] for u, v in sigma.items()]) for sigma in _matcher(A, sub).isomorphisms_iter()]))
    return out


def _dedup_cfgs(P, H):
    """The configurations: 8 of round 1/2 + the rest of the option surface (host_anchor, WL host orbits that identify atoms
    across components, empty orbit lists, PartialMatcher's own call).  Built lazily so a missing function is an EXC."""
    from synkit.Graph.Matcher.automorphism import Automorphism
    from synkit.Graph.Matcher.auto_est import AutoEst
    import synkit.Graph.Matcher.dedup_matches as DM
    est = AutoEst(P, node_attrs=WL_ATTRS4, edge_attrs=["order"]).fit()
    esth = AutoEst(H, node_attrs=["element", "charge"], edge_attrs=["order"]).fit()
    ap, ah = Automorphism(P), Automorphism(H)
    ho = list(ah.orbits)
    old = DM.deduplicate_matches_with_anchor
    return [
        lambda ms: old(ms),
        lambda ms: old(ms, pattern_orbits=est.orbits, pattern_anchor=est.anchor_component),
        lambda ms: old(ms, pattern_orbits=ap.orbits, pattern_anchor=ap.anchor_component),
        lambda ms: old(ms, host_orbits=ho),
        lambda ms: old(ms, pattern_orbits=ap.orbits, pattern_anchor=None, host_orbits=ho),
        lambda ms: old(ms, pattern_orbits=est.orbits, pattern_anchor=frozenset()),
        lambda ms: old(ms, host_orbits=_drop_last_orbit(ho)),
        (lambda ms: DM.deduplicate_matches_by_automorphisms(ms, DM.graph_automorphisms(P)))
        if hasattr(DM, "deduplicate_matches_by_automorphisms") else None,
        # ---- round 3
        lambda ms: old(ms, host_orbits=esth.orbits, host_anchor=esth.anchor_component),           # as PartialMatcher calls it
        lambda ms: old(ms, host_orbits=ho, host_anchor=ah.anchor_component),
        lambda ms: old(ms, pattern_orbits=est.orbits, pattern_anchor=est.anchor_component,
                       host_orbits=esth.orbits, host_anchor=esth.anchor_component),
        lambda ms: old(matches=ms, host_anchor=esth.anchor_component, host_orbits=esth.orbits, pattern_anchor=None,
                       pattern_orbits=ap.orbits),                                                 # keywords permuted
        lambda ms: old(ms, pattern_orbits=[]),
        lambda ms: old(ms, host_orbits=[]),
        lambda ms: _pm(P, H, 10)._prune_automorphic_mappings(ms),
        lambda ms: _pm(P, H, 1)._prune_automorphic_mappings(ms),
        # overlapping host orbits (degenerate input): a node covered twice gets the index of the LAST orbit containing it
        lambda ms: old(ms, host_orbits=ho + [frozenset(H.nodes())]),
        lambda ms: old(ms, host_orbits=[frozenset(H.nodes())] + ho),
        lambda ms: _pm(P, [H, H.copy()], 10)._prune_automorphic_mappings(ms),      # two hosts: no pruning
    ]


N_OLD = 8


def _pm(P, H, k, prune=True):
    from synkit.Graph.Matcher.partial_matcher import PartialMatcher
    return PartialMatcher(host=H, pattern=P, node_attrs=["element", "charge"], edge_attrs=["order"], prune_auto=prune, wl_max_iter=k)


def _pm_lists(case):
    """PartialMatcher end to end: the mappings without and with prune_auto (same construction otherwise)"""
    P, H = GG.to_nx(case["p"]), GG.to_nx(case["h"])
    from synkit.Graph.Matcher.partial_matcher import PartialMatcher
    raw = _pm(P, H, 10, prune=False).get_mappings()
    # the pruned list through the stateless facade (it forwards every option to the constructor)
    kept = PartialMatcher.find_partial_mappings(H, P, node_attrs=["element", "charge"], edge_attrs=["order"], prune_auto=True, wl_max_iter=10)
    return raw, kept


def _orbit_key(o):
    return (len(o), sorted(o))


def _drop_last_orbit(ho):
    """host orbits with the orbit containing the largest node id removed (exercises the ValueError path)."""
    if not ho:
        return []
    big = max(max(o) for o in ho)
    return [o for o in ho if big not in o]


def _indices(ms, out):
    """positions (in ms) of the returned objects: identity first, equality as a fall-back; -1 when not an input element."""
    idx = []
    start = 0
    for o in out:
        k = next((i for i in range(len(ms)) if ms[i] is o), None)
        if k is None:
            k = next((i for i in range(start, len(ms)) if ms[i] == o), None)
        idx.append(-1 if k is None else k)
        if k is not None:
            start = k + 1
    return idx


IDEM_CFGS = (1, 3, 7, 8, 10)
# graph_automorphisms(P, ignore_node_attrs=...): the default, identifiers not ignored (atom_map then separates every atom),
# labels ignored as well (more symmetries); model: C11_Attr.run_dedup_skip on the attribute dictionaries of P
SKIPS = (("atom_map",), (), ("atom_map", "element"), ["hcount", "atom_map", "charge"])


_SIG_HELPERS = ("_make_host_repr", "_prepare_pattern_orbits", "_free_sig_from_pattern_orbits", "_free_sig_host_only", "_anchor_sig")


def _sig_helpers():
    """the private helpers deduplicate_matches_with_anchor is composed of (None if a refactoring removed one: the
    intermediate values are then not observed - model term and observable both drop the entry)"""
    import synkit.Graph.Matcher.dedup_matches as DM
    hs = [getattr(DM, n, None) for n in _SIG_HELPERS]
    return None if any(h is None for h in hs) else hs


def _sig_obs(case):
    """INTERMEDIATE values: the prepared pattern orbits and the signature of every match, for five of the configurations
    (model: C11_SigObs.run_sigs = anchor_signature of proof/C11_Sig.v); ValueError = []"""
    from synkit.Graph.Matcher.automorphism import Automorphism
    from synkit.Graph.Matcher.auto_est import AutoEst
    mk, prep, fsp, fsh, asig = _sig_helpers()
    P, H = GG.to_nx(case["p"]), GG.to_nx(case["h"])
    est = AutoEst(P, node_attrs=WL_ATTRS4, edge_attrs=["order"]).fit()
    ap, ah = Automorphism(P), Automorphism(H)
    ho = list(ah.orbits)
    out = []
    for porbs, anchor, horbs in ((est.orbits, est.anchor_component, None), (ap.orbits, ap.anchor_component, None), (None, None, ho),
                                 (ap.orbits, None, ho), (None, None, _drop_last_orbit(ho))):
        ms = [dict((p, h) for p, h in m) for m in case["ms"]]
        free, anchored = prep(porbs, anchor or frozenset())
        use_pattern = bool(free) or bool(anchored)
        sg = []
        for m in ms:
            try:
                hr = mk(horbs)
                fs = fsp(m, free, hr) if use_pattern else fsh(m, hr)
                parts = [[list(a), list(b)] for a, b in fs] if use_pattern else [[[], list(fs[0])]]
                sg.append([[parts, [list(x) if isinstance(x, (tuple, list)) else [x] for x in asig(m, anchored)]]])
            except ValueError:
                sg.append([])
        out.append([[[list(o) for o in free], list(anchored)], sg])
    return out


def _skip_obs(case):
    import synkit.Graph.Matcher.dedup_matches as DM
    P = GG.to_nx(case["p"])
    out = []
    for skip in SKIPS:
        ms = [dict((p, h) for p, h in m) for m in case["ms"]]
        auts = DM.graph_automorphisms(P, ignore_node_attrs=skip)
        out.append([len(auts), _indices(ms, DM.deduplicate_matches_by_automorphisms(ms, auts))])
    return out


def _idempotent_flags(case):
    """de-duplicating an already de-duplicated list returns it unchanged (C11_dedup_idempotent; the configuration objects
    are the same for both passes)"""
    P, H = GG.to_nx(case["p"]), GG.to_nx(case["h"])
    cfgs = _dedup_cfgs(P, H)
    flags = []
    for ci in IDEM_CFGS:
        ms = [dict((p, h) for p, h in m) for m in case["ms"]]
        try:
            once = cfgs[ci](ms)
            twice = cfgs[ci](list(once))
            flags.append(len(once) == len(twice) and all(a is b for a, b in zip(once, twice)))
        except ValueError:
            flags.append(True)
    return flags


def _impl_dedup(case):
    P, H = GG.to_nx(case["p"]), GG.to_nx(case["h"])
    res = []
    shared = [dict((p, h) for p, h in m) for m in case["ms"]]      # history variant: ONE list object through every configuration
    for f in _dedup_cfgs(P, H):
        ms = shared if case.get("shared") else [dict((p, h) for p, h in m) for m in case["ms"]]
        if f is None:
            res.append([2, []])      # function absent from the tree: never equals a model value
            continue
        try:
            out = f(ms)
            res.append([0, _indices(ms, out)])
        except ValueError:
            res.append([1, []])
    return res


_DEDUP_NAMES = ("deduplicate_matches_by_automorphisms", "deduplicate_matches_with_anchor")


def _shared_rule(case):
    """ONE SynRule object for a whole history (the reactor returns a SynRule template as it is when invert=False)"""
    from synkit.IO.chem_converter import rsmi_to_its
    from synkit.Rule.syn_rule import SynRule
    from synkit.Graph.canon_graph import GraphCanonicaliser
    return SynRule(rsmi_to_its(case["tpl"], core=case["core"]), canonicaliser=GraphCanonicaliser())


def _reactor(case, mode, rule=None):
    """mode: 'record' (unchanged code, record the input/output of the pruning call), 'raw' (pruning bypassed),
    'front' (only rule + mappings).  Returns dict(raw, kept, n_aut, rc, smarts, its)."""
    import networkx as nx
    import synkit.Synthesis.Reactor.syn_reactor as SR
    from synkit.IO.chem_converter import rsmi_to_its
    saved = {n: getattr(SR, n) for n in _DEDUP_NAMES if hasattr(SR, n)}
    rec = {}

    def wrap(orig):
        def f(ms, *a, **k):
            raw = list(ms)
            out = raw if mode == "raw" else orig(raw, *a, **k)
            rec["raw"], rec["out"] = raw, out
            rec["calls"] = rec.get("calls", 0) + 1
            if a and isinstance(a[0], (list, tuple)):
                rec["n_aut"] = len(a[0])
                rec["auts"] = [dict(x) for x in a[0]]
            return out
        return f
    pm_saved = getattr(SR, "PartialMatcher", None)
    eng_saved = getattr(SR, "SubgraphSearchEngine", None)
    try:
        for n, o in saved.items():
            setattr(SR, n, wrap(o))
        if mode == "raw" and pm_saved is not None:
            # "applying the rule at every match": with partial=True the matcher's own symmetry pruning is switched off too
            class _NoPrune(pm_saved):
                def __init__(self, *a, **k):
                    k["prune_auto"] = False
                    super().__init__(*a, **k)

                def get_mappings(self, *a, **k):
                    out = super().get_mappings(*a, **k)
                    rec["engine"] = [dict(m) for m in out]
                    rec["engine_calls"] = rec.get("engine_calls", 0) + 1
                    return out
            SR.PartialMatcher = _NoPrune
        if mode == "raw" and eng_saved is not None and hasattr(eng_saved, "find_subgraph_mappings"):
            # the reference "every raw match" is taken AT THE SOURCE: what SubgraphSearchEngine itself returns, not what reaches
            # the pruning call (a truncation or filter between the search and the pruning must not hide behind the reference)
            def _find(*a, **k):
                out = eng_saved.find_subgraph_mappings(*a, **k)
                rec["engine"] = [dict(m) for m in out]
                rec["engine_calls"] = rec.get("engine_calls", 0) + 1
                return out

            class _Engine(eng_saved):
                find_subgraph_mappings = staticmethod(_find)
            SR.SubgraphSearchEngine = _Engine
        tpl = rule if rule is not None else rsmi_to_its(case["tpl"], core=case["core"])
        r = SR.SynReactor(case["sub"], tpl, invert=case["invert"], **case.get("opts", {}))
        maps = r.mappings
        n_calls = rec.get("calls", 0)
        again = r.mappings                                      # (e) a second read gives the same matches in the same order
        raw = rec.get("raw", list(maps))
        # (exactly one search: if a refactoring searches several times and combines, the list that reached the pruning stays the reference)
        if mode == "raw" and rec.get("engine_calls") == 1 and getattr(r, "_mappings", None) is not None:
            r._mappings = [dict(m) for m in rec["engine"]]      # glue EVERY match the search engine returned
            maps = again = raw = r._mappings
        res = dict(raw=[[[p, h] for p, h in m.items()] for m in raw], kept=_indices(raw, maps), n_aut=rec.get("n_aut", 0),
                   rc=GG.from_nx(r.rule.rc.raw))
        res["auts"] = rec.get("auts", [])
        res["rc_its"] = _rc_its(r.rule.rc.raw)
        res["reread"] = (list(again) == list(maps))
        if mode != "front":
            its = r.its_list
            res["its"] = sorted(nx.weisfeiler_lehman_graph_hash(
                _flat(g), node_attr="l", edge_attr="l", iterations=4) for g in its)
            res["smarts"] = list(r.smarts_list)
        return res
    finally:
        for n, o in saved.items():
            setattr(SR, n, o)
        if pm_saved is not None:
            SR.PartialMatcher = pm_saved
        if eng_saved is not None:
            SR.SubgraphSearchEngine = eng_saved


def _flat(g):
    import networkx as nx
    h = nx.Graph()
    for n, d in g.nodes(data=True):
        h.add_node(n, l=json.dumps(GG._js(d.get("typesGH")), default=str))
    for u, v, d in g.edges(data=True):
        h.add_edge(u, v, l=json.dumps([GG._js(d.get("order")), GG._js(d.get("standard_order"))], default=str))
    return h


IMAGE_BUDGET = 1000000      # ~1 s of vm_compute for images_ok (measured: 90 raw / 90 kept matches of 7 atoms = 1.6e6 units: 3.6 s)


def _image_cost(r):
    msz = max((len(m) for m in r["raw"]), default=0)
    ne = len(r["rc"]["edges"])
    return len(r["raw"]) * max(1, len(r["kept"])) * (msz * msz + 4 * ne * ne)


def _images_ok(r):
    """C11_Image.images_ok on the implementation's lists: every raw match puts the rule's labelled atoms and bonds (all
    attributes but atom_map; all edge attributes) on the same host atoms / atom pairs as some kept match"""
    rc = r["rc"]
    lab = {n: _lab_f(a) for n, a in rc["nodes"]}
    adj = _adj(rc, _lab_e)

    def image(m):
        return (frozenset((h, lab.get(p)) for p, h in m),
                frozenset((h1, h2, adj.get(p, {}).get(q)) for p, h1 in m for q, h2 in m if adj.get(p, {}).get(q) is not None))
    raw = [[tuple(ph) for ph in m] for m in r["raw"]]
    kept = {image(raw[i]) for i in r["kept"] if 0 <= i < len(raw)}
    return all(image(m) in kept for m in raw)


AGREE_MAX_NODES = 10       # agreeb is quartic in the number of atoms of the rule centre


def _rc_its(G):
    """C03's typed encoding (lgraph inode iedge) of the same rule-centre object, or None outside C03's domain / above the size
    bound: the second representation for C11_Agree.agreeb (the bridge of C11_prune_same_glue)"""
    try:
        from ..gen import c03_common as K3
        if G.number_of_nodes() > AGREE_MAX_NODES or not K3.in_domain_tpl(G):
            return None
        return K3.c_its(G)
    except Exception:
        return None


def _impl_prune(case, rule=None):
    r = _reactor(case, "front", rule=rule)
    auts = r.get("auts", [])
    sym = S([S([[u, v] for u, v in a.items()]) for a in auts]) if len(auts) <= 60 else S([])     # the symmetries themselves
    obs = [[r["raw"], r["kept"], r["n_aut"]], True, True, (not _prune_representatives(r)) and r["reread"], sym]
    if r.get("rc_its") is not None:
        obs = [obs, [True]]               # the two encodings of the rule centre agree (C11_Agree.agreeb; expected true)
    return [obs, _images_ok(r)] if _image_cost(r) <= IMAGE_BUDGET else obs


# ------------------------------------------------------------------ history cases (one case = a script on SHARED objects)

def apply_edits(g, ops):
    """edit the case-dictionary graph (pure; the generator uses it to produce the graph after every step)"""
    import copy
    g = copy.deepcopy(g)
    for op in ops:
        if op[0] == "relabel":
            for n, a in g["nodes"]:
                if n == op[1]:
                    a.update(op[2])
        elif op[0] == "order":
            for e in g["edges"]:
                if {e[0], e[1]} == {op[1], op[2]}:
                    e[2]["order"] = op[3]
        elif op[0] == "add_edge":
            g["edges"].append([op[1], op[2], dict(op[3])])
        elif op[0] == "del_edge":
            g["edges"] = [e for e in g["edges"] if {e[0], e[1]} != {op[1], op[2]}]
        elif op[0] == "add_node":
            g["nodes"].append([op[1], dict(op[2])])
        elif op[0] == "del_node":
            g["nodes"] = [x for x in g["nodes"] if x[0] != op[1]]
            g["edges"] = [e for e in g["edges"] if op[1] not in e[:2]]
        else:
            raise AssertionError(op)
    return g


def _edit_nx(G, ops):
    """the same edits IN PLACE on the shared networkx object"""
    for op in ops:
        if op[0] == "relabel":
            G.nodes[op[1]].update(op[2])
        elif op[0] == "order":
            G[op[1]][op[2]]["order"] = op[3]
        elif op[0] == "add_edge":
            G.add_edge(op[1], op[2], **op[3])
        elif op[0] == "del_edge":
            G.remove_edge(op[1], op[2])
        elif op[0] == "add_node":
            G.add_node(op[1], **op[2])
        elif op[0] == "del_node":
            G.remove_node(op[1])


def hist_graphs(case):
    """the graph value after every step of an 'aut' history"""
    g, out = case["g"], []
    for st in case["steps"]:
        g = apply_edits(g, st.get("edit", []))
        out.append(g)
    return out


def _reuse_flags(G, E_old, lazy):
    """Answers obtained from REUSED objects / repeated reads / results the caller has mutated, each compared with a fresh
    object on the same graph value.  Every flag is expected True."""
    import copy
    from synkit.Graph.Matcher.automorphism import Automorphism
    from synkit.Graph.Matcher.auto_est import AutoEst, estimate_automorphism_groups
    import synkit.Graph.Matcher.dedup_matches as DM
    Gc = copy.deepcopy(G)
    fresh = AutoEst(Gc).fit()
    fa = Automorphism(Gc)
    flags = []
    E_old.fit()                                                      # an estimator fitted before the edit, fitted again
    flags.append(E_old.node_colors == fresh.node_colors and set(E_old.orbits) == set(fresh.orbits)
                 and E_old.anchor_component == fresh.anchor_component)
    o1 = E_old.orbits
    o1.clear()                                                       # the caller mutates what it was given ...
    c1 = E_old.node_colors
    c1.clear()
    oi = E_old.orbit_index
    oi.clear()
    flags.append(set(E_old.orbits) == set(fresh.orbits) and E_old.node_colors == fresh.node_colors    # ... later reads are unaffected
                 and E_old.orbit_index == fresh.orbit_index)
    flags.append(E_old.n_orbits == len(fresh.orbits) == len(E_old) == E_old.n_groups
                 and sorted(map(sorted, E_old.groups)) == sorted(sorted(o) for o in fresh.orbits)
                 and all(n in fresh.orbits[i] for n, i in fresh.orbit_index.items()))
    fac = estimate_automorphism_groups(G, node_attrs=("element", "charge"), edge_attrs=("order",), max_iter=10)     # the facade, keywords
    fac2 = estimate_automorphism_groups(G, None, None, 10)                                                           # positional, defaults
    flags.append(fac.node_colors == fresh.node_colors == fac2.node_colors)
    if lazy is not None:                                             # created before the edit, first read after it
        flags.append(lazy.n_automorphisms == fa.n_automorphisms and set(lazy.orbits) == set(fa.orbits)
                     and lazy.anchor_component == fa.anchor_component and set(lazy.components) == set(fa.components))
    else:
        flags.append(True)
    A2 = Automorphism(G)
    r1 = (A2.n_automorphisms, list(A2.orbits), A2.anchor_component, len(A2), A2.is_connected)
    r2 = (A2.n_automorphisms, list(A2.orbits), A2.anchor_component, len(A2), A2.is_connected)       # repeated reads
    flags.append(r1 == r2 and r1[0] == fa.n_automorphisms and set(r1[1]) == set(fa.orbits) and r1[3] == len(fa.orbits))
    s1 = DM.graph_automorphisms(G)
    n1 = len(s1)
    for d in s1:
        d.clear()                                                    # mutate the returned dictionaries
    s2 = DM.graph_automorphisms(G)
    flags.append(len(s2) == n1 and all(len(d) == G.number_of_nodes() for d in s2))
    return flags


N_FLAGS = 7


def _impl_hist(case):
    if case["script"] == "aut":
        from synkit.Graph.Matcher.automorphism import Automorphism
        from synkit.Graph.Matcher.auto_est import AutoEst
        G = GG.to_nx(case["g"])
        E_old = AutoEst(G).fit()
        A_kept = Automorphism(G)          # ONE exact-analysis object for the whole history (model: C11_State.reads)
        E_kept = AutoEst(G)               # ONE estimator, fitted again after every edit   (model: C11_State.refits)
        E_idx = AutoEst(G)                # ONE estimator whose cached orbit index is read before and after every re-fit (C11_State2)
        idx_hist = []

        def read_index():
            try:
                return [S([[n, [i]] for n, i in E_idx.orbit_index.items()])]
            except RuntimeError:
                return []
        out, reads, refits = [], [], []
        for st in case["steps"]:
            lazy = Automorphism(G) if st.get("edit") else None
            _edit_nx(G, st.get("edit", []))
            obs = _aut_obs_keys(G, st.get("nk"), st.get("ek"))
            out.append([obs, _reuse_flags(G, E_old, lazy)])
            reads.append([A_kept.n_automorphisms, S([S(sorted(o)) for o in A_kept.orbits])])
            col = E_kept.fit().node_colors
            refits.append([[col[n] for n in G.nodes()]])
            stale = read_index()          # after the edit, before the new fit: the answer of the previous fit (or RuntimeError)
            E_idx.fit()
            idx_hist.append([stale, read_index(), read_index()])
        return [out, [reads, refits], idx_hist]
    if case["script"] == "prune":
        rule = _shared_rule(case["steps"][0]) if case.get("share_rule") else None
        return [_impl_prune(st, rule=rule) for st in case["steps"]]
    raise AssertionError(case["script"])


def _coq_hist(case):
    if case["script"] == "aut":
        terms = []
        for st, g in zip(case["steps"], hist_graphs(case)):
            if not _in_domain(g):
                return None
            t = _coq_keys(g, st.get("nk"), st.get("ek"))
            terms.append("L [%s; tlist tbool [%s]]" % (t, "; ".join(["true"] * N_FLAGS)))
        gs = "; ".join(_coq_graph(g) for g in hist_graphs(case))
        return "L [L [%s]; run_objects [%s]; run_index_history [%s]]" % ("; ".join(terms), gs, gs)
    if case["script"] == "prune":
        terms = []
        for st in case["steps"]:
            t = coq_case(st)
            if t is None:
                return None
            terms.append(t)
        return "L [%s]" % "; ".join(terms)
    raise AssertionError(case["script"])


def _oracle_hist(case):
    """every step is judged, on the shared objects, in script order (module-level state is shared across the steps)"""
    fails = []
    if case["script"] == "aut":
        from synkit.Graph.Matcher.auto_est import AutoEst
        G = GG.to_nx(case["g"])
        E_old = AutoEst(G).fit()
        for k, (st, g) in enumerate(zip(case["steps"], hist_graphs(case))):
            _edit_nx(G, st.get("edit", []))
            for f in _oracle_aut_g(g, st.get("nk"), G=G, ek=st.get("ek")):
                fails.append(dict(f, detail="step %d: %s" % (k, f["detail"])))
            col = E_old.fit().node_colors            # an estimator object that existed before the edit, fitted again
            wl_old = E_old.orbits
            for o in _true_orbits(g, lambda a: _nlab(a, ["element", "charge"])):
                if len({col.get(n) for n in o}) != 1 or not any(set(o) <= set(w) for w in wl_old):
                    fails.append(dict(clause="wl-coarser", detail="step %d: re-fitted estimator: true orbit %r gets WL colours %r / is split by .orbits %r"
                                                                  % (k, o, [col.get(n) for n in o], sorted(map(sorted, wl_old)))))
                    break
    elif case["script"] == "prune":
        rule = _shared_rule(case["steps"][0]) if case.get("share_rule") else None
        for k, st in enumerate(case["steps"]):
            for f in _oracle_prune(st, rule=rule):
                f = dict(f, detail="step %d (%s on %s): %s" % (k, st["tpl"], st["sub"], f["detail"]))
                if "key" in f:
                    f["key"] = "hist|%d|%s" % (k, f["key"])
                fails.append(f)
    return fails


CASE_CPU_LIMIT = None      # the framework's per-case budget (harness/main.py): off - every call is bounded here, per kind, and the
                           # encoder / generator calls into the library as well (same timer: ITIMER_PROF; the previous handler is restored)
CALL_CPU_LIMIT = 30.0     # CPU seconds for ONE impl() / oracle() / coq_case() call (largest on the unchanged tree: 5 s, the 120-atom chain)
PRUNE_CPU_LIMIT = 400.0   # rule applications: the oracle glues EVERY raw match (thorough tier: whole-molecule templates with hundreds of
                          # them; measured maximum 112 CPU-s for uspto21/full/bwd, everything else below 7)


def _limit(case):
    return PRUNE_CPU_LIMIT if case.get("kind") == "prune" or case.get("script") == "prune" else CALL_CPU_LIMIT


def impl(case):
    """the adapter under a CPU bound: a timeout is an exception, i.e. an observable that never equals a model value"""
    try:
        with GEN.cpu_limit(_limit(case)):
            return _impl(case)
    except GEN.CaseTimeout as e:
        raise TimeoutError(str(e))


def _impl(case):
    """[observable, True...]: the trailing booleans are the well-formedness of the graphs handed to the model (the
    premise `wf` of the theorems, computed by the model function wfb on the encoded graph)."""
    k = case["kind"]
    if k == "aut":
        return _impl_aut(case)
    if k == "dedup":
        res = _impl_dedup(case)
        raw, kept = _pm_lists(case)
        return [[[res[:N_OLD], True, True]] + res[N_OLD:N_OLD + 8], [0, _indices(raw, kept)]] + res[N_OLD + 8:] + [_idempotent_flags(case), _skip_obs(case)] + ([_sig_obs(case)] if _sig_helpers() else [])
    if k == "hist":
        return _impl_hist(case)
    if k == "keys":
        return _aut_obs_keys(GG.to_nx(case["g"]), case["nk"], case["ek"])
    if k == "orbacc":
        if case.get("frozen"):          # the documented input form: iterables of frozensets
            return _oa_obs((frozenset(o) for o in case["A"]), [frozenset(o) for o in case["E"]], brute=False)
        return _oa_obs(case["A"], case["E"])
    if k == "views":
        return _impl_views(case)
    if k == "prune":
        return _impl_prune(case)    # + rule centre well-formed, matches defined on its nodes, every raw match represented
    raise AssertionError(k)


# ------------------------------------------------------------------ model encoder

MONO_BUDGET = 600000      # ~1 s of vm_compute (measured: 2e-6 s per unit)
DEDUP_BUDGET = 2000000


AUT_BUDGET = 1200         # automorphisms of one component the model is asked to enumerate (orbit union is quadratic;
                          # K4,4 with 1152: 5 s now that the observable evaluates the analysis once)


def _count_auts(nodes, lab, adj, cap):
    """number of label-preserving automorphisms, counting stops above cap"""
    order, seen = [], set()
    for s0 in nodes:
        if s0 in seen:
            continue
        seen.add(s0)
        q = [s0]
        while q:
            u = q.pop(0)
            order.append(u)
            for w in adj[u]:
                if w not in seen:
                    seen.add(w)
                    q.append(w)
    pos = {u: i for i, u in enumerate(order)}
    anchor = {u: next((w for w in adj[u] if pos[w] < pos[u]), None) for u in order}
    n = len(order)
    cnt = 0

    def rec(i, m, used):
        nonlocal cnt
        if cnt > cap:
            return
        if i == n:
            cnt += 1
            return
        u = order[i]
        for v in (list(adj[m[anchor[u]]]) if anchor[u] is not None else nodes):
            if v in used or lab[u] != lab[v] or len(adj[u]) != len(adj[v]):
                continue
            if all(adj[v].get(m[w]) == x for w, x in adj[u].items() if w in m):
                m[u] = v
                used.add(v)
                rec(i + 1, m, used)
                del m[u]
                used.discard(v)
    rec(0, {}, set())
    return cnt


def _mono_cost(g, labn, labe, cap):
    """work units of lib/Mono.v `monos` (induced, g into g, nodes in insertion order): for every node of the search
    tree, every host node is tested against the partial map (each test walks the edge list)."""
    nodes = [n for n, _ in g["nodes"]]
    lab = {n: labn(a) for n, a in g["nodes"]}
    adj = {n: {} for n in nodes}
    for u, v, a in g["edges"]:
        adj[u][v] = adj[v][u] = labe(a)
    n, ne = len(nodes), len(g["edges"])
    cost = 0

    def rec(i, acc, used):
        nonlocal cost
        if cost > cap or i == n:
            return
        p = nodes[i]
        cost += n * (1 + i * (1 + ne))
        for h in nodes:
            if lab[h] != lab[p] or h in used:
                continue
            if all(adj[p].get(p2) == adj[h].get(h2) for p2, h2 in acc):
                acc.append((p, h))
                used.add(h)
                rec(i + 1, acc, used)
                acc.pop()
                used.discard(h)
    rec(0, [], set())
    return cost


def coq_case(case):
    """the encoder calls the implementation too (raw matches of a rule application, PartialMatcher's unpruned list): bounded
    like impl(); a case whose encoding does not finish is outside the model's domain (the oracle still judges it)"""
    try:
        with GEN.cpu_limit(_limit(case)):
            return _coq_case(case)
    except GEN.CaseTimeout:
        return None


def _coq_case(case):
    k = case["kind"]
    if k == "hist":
        return _coq_hist(case)
    if k == "keys":
        return _coq_keys(case["g"], case["nk"], case["ek"]) if _in_domain(case["g"]) else None
    if k == "views":
        if not _in_domain(case["g"]):
            return None
        return "run_views %s %s" % (_coq_graph(case["g"]), clist([copt(None if sub is None else clist([cN(x) for x in sub])) for sub in case["subsets"]]))
    if k == "orbacc":
        part = lambda P: clist([clist([cN(x) for x in o]) for o in P])
        return "run_orbit_accuracy %s %s" % (part(case["A"]), part(case["E"]))
    if k == "aut":
        if not _in_domain(case["g"]):
            return None
        if len(case["g"]["nodes"]) > 6:
            # model budget (the analysis enumerates per component): the verified enumerator costs n*depth*|E| per search node
            # (>= 100 atoms in one component: oracle only), and the orbit union is quadratic in the number of
            # automorphisms (K4,4 with 1152: 15-20 s of vm_compute; 5040 for a 7-leaf star: more than a minute)
            g = case["g"]
            cost = 0
            for c in _components(g):
                cs = set(c)
                sub = {"nodes": [x for x in g["nodes"] if x[0] in cs], "edges": [e for e in g["edges"] if e[0] in cs and e[1] in cs]}
                if len(cs) > 12:
                    cost += _mono_cost(sub, _lab_a, lambda a: GG.half(_order(a)), 8 * MONO_BUDGET)
                if len(cs) > 6:
                    lab = {n: _lab_a(a) for n, a in sub["nodes"]}
                    if _count_auts(list(lab), lab, _adj(sub, lambda a: GG.half(_order(a))), AUT_BUDGET) > AUT_BUDGET:
                        return None
            if cost > 8 * MONO_BUDGET:
                return None
        if case.get("attr"):
            return _coq_keys(case["g"], None, None)
        # the attribute dictionaries as they are; keys, defaults and labels are the model's business (C11_AttrFull.run_aut_full_attr
        # = the observable of run_aut_full on to_graph ... ag)
        return "run_aut_full_attr %s" % _coq_agraph(case["g"])[0]
    if k == "dedup":
        if not (_in_domain(case["p"]) and _in_domain(case["h"])):
            return None
        worker_init()
        raw, _ = _pm_lists(case)
        raw = [[[p, h] for p, h in m.items()] for m in raw]
        pa, kc = _coq_agraph(case["p"])
        return ("(let h := %s in let ms := %s in let ho := a_orbits (analyze n_exact e_order h) in "
                "L [run_dedup_x %s h ms; t_idx (partial_prune (@snd nat mapping) n_exact h 10 (indexed %s)); "
                "t_idx (dedup_anchor (@snd nat mapping) (indexed ms) None [] (Some (ho ++ [node_ids h]))); "
                "t_idx (dedup_anchor (@snd nat mapping) (indexed ms) None [] (Some (node_ids h :: ho))); "
                "t_idx (partial_prune_hosts (@snd nat mapping) n_exact [h; h] 10 (indexed ms)); tlist tbool [%s]; "
                "(let pa := %s in L [%s])%s])"
                % (_coq_graph(case["h"]), _coq_maps(case["ms"]), _coq_graph(case["p"]), _coq_maps(raw), "; ".join(["true"] * len(IDEM_CFGS)),
                   pa, "; ".join("run_dedup_skip %s pa ms" % clist([cN(kc(k)) for k in skip]) for skip in SKIPS),
                   ("; run_sigs %s h ms" % _coq_graph(case["p"])) if _sig_helpers() else ""))
    if k == "prune":
        worker_init()
        r = _reactor(case, "front")
        rc = r["rc"]
        for n, _ in rc["nodes"]:
            if not (isinstance(n, int) and n >= 0):
                return None
        # model budget: the verified enumerator tries every host node for every pattern node in insertion order and the
        # de-duplicator keeps its seen-set as a list; whole-molecule templates (30-60 nodes, hundreds of symmetries) cost
        # minutes of vm_compute each.  Such cases stay with the oracle (counted under outside_model_domain).
        if _mono_cost(rc, _lab_f, _lab_e, MONO_BUDGET) > MONO_BUDGET:
            return None
        if len(r["raw"]) > 1:
            msz = max(len(m) for m in r["raw"])
            if 2 * len(r["raw"]) * max(1, len(r["kept"])) * (1 + r["n_aut"]) * msz * msz > DEDUP_BUDGET:
                return None
        # the attribute dictionaries of rule.rc.raw as they are: which attributes count (all but atom_map; every edge
        # attribute) is decided in the model (C11_Attr.to_rule_graph)
        ag = _coq_agraph(rc)[0]
        inner = "run_prune_attr %s %s" % (ag, _coq_maps(r["raw"]))
        if r.get("rc_its") is not None:
            inner = "L [%s; L [tbool (agreeb (to_rule_graph [K_atom_map] %s) %s)]]" % (inner, ag, r["rc_its"])
        if _image_cost(r) <= IMAGE_BUDGET:
            return "L [%s; tbool (images_ok (to_rule_graph [K_atom_map] %s) %s)]" % (inner, ag, _coq_maps(r["raw"]))
        return inner
    raise AssertionError(k)


# ------------------------------------------------------------------ property oracle (independent brute force)

def _adj(g, elab):
    adj = {n: {} for n, _ in g["nodes"]}
    for u, v, a in g["edges"]:
        adj[u][v] = adj[v][u] = elab(a)
    return adj


def brute_auts(nodes, lab, adj, pin=None, first=False):
    """label- and adjacency-preserving bijections nodes -> nodes by plain backtracking (independent of networkx / the model).
    Nodes are visited in breadth-first order (from the pinned node), so that - inside a component - every node after the
    first has an already mapped neighbour and only the neighbours of that neighbour's image are candidates."""
    out = []
    nodes = list(nodes)
    start = [pin[0]] if pin else []
    order, seen = [], set()
    for s0 in start + nodes:
        if s0 in seen:
            continue
        seen.add(s0)
        q = [s0]
        while q:
            u = q.pop(0)
            order.append(u)
            for w in adj[u]:
                if w not in seen and w in lab:
                    seen.add(w)
                    q.append(w)
    order = [u for u in order if u in set(nodes)]
    n = len(order)
    pos = {u: i for i, u in enumerate(order)}
    anchor = {}
    for u in order:
        prev = [w for w in adj[u] if w in pos and pos[w] < pos[u]]
        anchor[u] = prev[0] if prev else None

    def rec(i, m, used):
        if first and out:
            return
        if i == n:
            out.append(dict(m))
            return
        u = order[i]
        if pin and i == 0:
            cands = [pin[1]]
        elif anchor[u] is not None:
            cands = list(adj[m[anchor[u]]])
        else:
            cands = nodes
        for v in cands:
            if v in used or v not in lab or lab[u] != lab[v]:
                continue
            if len(adj[u]) != len(adj[v]):
                continue
            # every edge from u to an already mapped node goes to an edge with the same label; for a bijection of a finite
            # graph onto itself that is enough (the induced edge map is injective, hence onto: non-edges go to non-edges)
            if all(adj[v].get(m[w]) == x for w, x in adj[u].items() if w in m):
                m[u] = v
                used.add(v)
                rec(i + 1, m, used)
                del m[u]
                used.discard(v)
    rec(0, {}, set())
    return out


def _components(g):
    par = {n: n for n, _ in g["nodes"]}

    def find(x):
        while par[x] != x:
            par[x] = par[par[x]]
            x = par[x]
        return x
    for u, v, _ in g["edges"]:
        par[find(u)] = find(v)
    cl = {}
    for n, _ in g["nodes"]:
        cl.setdefault(find(n), []).append(n)
    return list(cl.values())


def _true_orbits(g, labf, elabf=None):
    """orbits of the FULL label-preserving automorphism group (component swaps included), by pairwise search."""
    nodes = [n for n, _ in g["nodes"]]
    lab = {n: labf(a) for n, a in g["nodes"]}
    adj = _adj(g, elabf or _order)
    rep = {}
    classes = []
    for u in nodes:
        for c in classes:
            if lab[c[0]] == lab[u] and len(adj[c[0]]) == len(adj[u]) and brute_auts(nodes, lab, adj, pin=(c[0], u), first=True):
                c.append(u)
                break
        else:
            classes.append([u])
    return classes


def _oracle_aut(case):
    return _oracle_aut_g(case["g"])


def _oracle_aut_g(g, nk=None, G=None, ek=None):
    """the property on one graph, for the key configuration (nk, ek) given to Automorphism and to the second estimate: brute
    force on the CONFIGURED labels only (None = defaults; an empty list = defaults for the exact analysis, no label for the
    estimate); G = the nx object to analyse (history cases: the shared, edited object) - default: a fresh one built from g"""
    from synkit.Graph.Matcher.automorphism import Automorphism
    from synkit.Graph.Matcher.auto_est import AutoEst
    if G is None:
        G = GG.to_nx(g)
    fails = []
    nkx, ekx, nkw, ekw = _keysets(nk, ek)
    A = Automorphism(G) if (nk is None and ek is None) else Automorphism(G, node_attr_keys=nk, edge_attr_keys=ek)
    lab = {n: _nlab(a, nkx) for n, a in g["nodes"]}
    adj = _adj(g, lambda a: _elab(a, ekx))
    comps = _components(g)
    cnt, classes = 1, set()
    for c in comps:
        sub_adj = {u: {v: x for v, x in adj[u].items()} for u in c}
        auts = brute_auts(c, lab, sub_adj)
        cnt *= len(auts)
        for u in c:
            classes.add(frozenset(s[u] for s in auts))
    got = [frozenset(o) for o in A.orbits]
    if A.n_automorphisms != cnt:
        fails.append(dict(clause="aut-count", detail="n_automorphisms=%d, brute force %d (%d component(s))" % (A.n_automorphisms, cnt, len(comps))))
    if set(got) != classes or len(got) != len(set(got)):
        fails.append(dict(clause="orbits-exact", detail="orbits %r, brute force %r" % (sorted(map(sorted, got)), sorted(map(sorted, classes)))))
    if sorted(map(sorted, A.components)) != sorted(map(sorted, comps)):
        fails.append(dict(clause="components", detail="components %r vs %r" % (A.components, comps)))
    for attrs, eattrs, labf, elabf in ((WL_ATTRS4, ["order"], lambda a: _nlab(a, WL_ATTRS4), lambda a: _elab(a, ["order"])),
                                       (nk, ek, lambda a: _nlab(a, nkw), lambda a: _elab(a, ekw))):
        est = AutoEst(G, node_attrs=attrs, edge_attrs=eattrs).fit()
        col = est.node_colors
        truth = _true_orbits(g, labf, elabf)
        for o in truth:
            if len({col[n] for n in o}) != 1:
                fails.append(dict(clause="wl-coarser", detail="attrs=%r: true orbit %r gets WL colours %r" % (attrs, o, [col[n] for n in o])))
                break
        if attrs is not WL_ATTRS4:
            # ... nor two nodes of an orbit the exact analysis REPORTS under the same key configuration (both classes are handed the
            # same options; with an empty list the estimate uses no label at all and is coarser still) - whatever rule they apply to
            # absent attributes, it has to be ONE rule
            for o in got:
                if len({col[n] for n in o}) != 1:
                    fails.append(dict(clause="wl-coarser", detail="keys %r / %r: orbit %r reported by the exact analysis gets WL colours %r under the "
                                                                  "same configuration" % (nk, ek, sorted(o), [col[n] for n in sorted(o)])))
                    break
        wl = est.orbits
        if sorted(n for o in wl for n in o) != sorted(G.nodes()):
            fails.append(dict(clause="wl-partition", detail="AutoEst.orbits is not a partition of the nodes: %r" % (wl,)))
        # the observable the property names is AutoEst.orbits (not the colours): every true orbit - and, under the same
        # configuration, every orbit the exact analysis reports - lies inside ONE member of it
        for o in list(truth) + ([list(x) for x in got] if attrs is not WL_ATTRS4 else []):
            if not any(set(o) <= set(w) for w in wl):
                fails.append(dict(clause="wl-coarser", detail="attrs=%r: orbit %r is not contained in one member of AutoEst.orbits %r"
                                                              % (attrs, sorted(o), sorted(map(sorted, wl)))))
                break
        # (orbit.py's metrics are not part of the property: they are modelled - model/C11_Orbit.v - and compared, not judged here)
    return fails


def _is_subsequence(idx, n):
    return all(0 <= i < n for i in idx) and all(a < b for a, b in zip(idx, idx[1:]))


def _oracle_dedup(case):
    import synkit.Graph.Matcher.dedup_matches as DM
    P, H = GG.to_nx(case["p"]), GG.to_nx(case["h"])
    fails = []
    cfgs = _dedup_cfgs(P, H)
    for ci, f in enumerate(cfgs):
        ms = [dict((p, h) for p, h in m) for m in case["ms"]]
        orig = list(ms)                   # the same match objects in the ORIGINAL order (the function may reorder its argument)
        if f is None:
            continue
        try:
            out = f(ms)
        except ValueError:
            continue
        ms = orig
        idx = _indices(ms, out)
        if not _is_subsequence(idx, len(ms)) or [ms[i] for i in idx if i >= 0] != list(out):
            fails.append(dict(clause="dedup-sublist", detail="cfg %d: output is not a subsequence of the input in original order: indices %r of %d"
                                                             % (ci, idx, len(ms))))
    # the automorphism-based de-duplicator only drops matches that are automorphism images of a kept one
    raw, kept = _pm_lists(case)
    ki = _indices(raw, kept)
    if not _is_subsequence(ki, len(raw)):
        fails.append(dict(clause="dedup-sublist", detail="PartialMatcher(prune_auto=True).get_mappings() is not a subsequence of the unpruned "
                                                         "mappings: indices %r of %d" % (ki, len(raw))))
    # (that no orbit argument leaves the list as it is, that the input is not modified and that a match dropped by the
    # automorphism-based de-duplicator is an automorphism image of a kept one are facts about the mechanism, not demands of the
    # property: the correspondence compares them with the model - audit A3)
    return fails


def prune_key(case):
    """seed-independent identification of a rule application: rule + substrate + direction + mode, NOT the atom-map numbering."""
    from rdkit import Chem
    from synkit.Chem.Reaction.standardize import Standardize
    try:
        rule = Standardize().fit(case["tpl"])
    except Exception:
        rule = case["tpl"]
    try:
        sub = Chem.MolToSmiles(Chem.MolFromSmiles(case["sub"]))
    except Exception:
        sub = case["sub"]
    o = case.get("opts", {})
    return "prune|%s|%s|%s|%s|%s" % (rule, sub, "bwd" if case["invert"] else "fwd", "core" if case["core"] else "full",
                                     ",".join("%s=%s" % kv for kv in sorted(o.items())))


def _std_set(smarts):
    from synkit.Chem.Reaction.standardize import Standardize
    std = Standardize()
    out = set()
    for s in smarts:
        try:
            out.add(std.fit(s) or ("RAW:" + s))
        except Exception:
            out.add("RAW:" + s)
    return out


def _oracle_prune(case, rule=None):
    a = _reactor(case, "record", rule=rule)
    b = _reactor(case, "raw", rule=rule)
    fails = []
    sa, sb = _std_set(a["smarts"]), _std_set(b["smarts"])
    if sa != sb:
        fails.append(dict(clause="prune-sound", key=prune_key(case),
                          detail="pruning changed the set of distinct reactions: %d with pruning, %d from all %d raw matches (kept %d); lost %r; extra %r"
                                 % (len(sa), len(sb), len(b["raw"]), len(a["kept"]), sorted(sb - sa)[:4], sorted(sa - sb)[:4])))
    elif set(a["its"]) != set(b["its"]):
        fails.append(dict(clause="prune-sound-its", key=prune_key(case) + "|its",
                          detail="pruning changed the set of ITS graphs (WL hashes): %d vs %d" % (len(set(a["its"])), len(set(b["its"])))))
    if not _is_subsequence(a["kept"], len(a["raw"])):
        fails.append(dict(clause="prune-sublist", detail="mappings is not a subsequence of the raw matches: %r" % (a["kept"],)))
    return fails


def _prune_representatives(a):
    """The statement of C11_prune_complete observed on the implementation: every symmetry handed to the de-duplicator
    really is an automorphism of the rule centre (all node attributes but atom_map, all edge attributes - checked directly,
    not by VF2), and every raw match is a kept match with its pattern side moved by one of them.  This is about the
    mechanism, not the property text, so it is part of the OBSERVABLE (compared with the model's rep_ok, which is true by
    C11_prune_complete) and of the printed distribution (also for the whole-molecule templates outside the model's
    evaluated domain) - the oracle does not alarm on it."""
    rc = a["rc"]
    nodes = [n for n, _ in rc["nodes"]]
    lab = {n: _lab_f(at) for n, at in rc["nodes"]}
    adj = _adj(rc, _lab_e)
    fails = []
    for s in a.get("auts", []):
        ok = set(s.keys()) >= set(nodes) and sorted(s[n] for n in nodes) == sorted(nodes) and all(lab[s[n]] == lab[n] for n in nodes) \
            and all(adj[u].get(v) == adj[s[u]].get(s[v]) for u in nodes for v in nodes)
        if not ok:
            fails.append(dict(clause="rule-aut-sound", detail="a map used for pruning is not an automorphism of the rule centre: %r" % (sorted(s.items()),)))
            return fails
    raw = [[tuple(ph) for ph in m] for m in a["raw"]]
    images = set()
    for i in a["kept"]:
        if not (0 <= i < len(raw)):
            continue
        images.add(frozenset(raw[i]))
        for s in a.get("auts", []):
            try:
                images.add(frozenset((s[p], h) for p, h in raw[i]))
            except KeyError:
                pass
    for k, m in enumerate(raw):
        if frozenset(m) not in images:
            fails.append(dict(clause="prune-complete", detail="raw match #%d %r differs from every kept match by more than a rule automorphism "
                                                              "(%d kept, %d symmetries)" % (k, sorted(m), len(a["kept"]), len(a.get("auts", [])))))
            break
    return fails


def oracle(case):
    """the property oracle under a CPU bound.  No answer within the bound (six times the largest case of the unchanged tree) is
    reported for this input: the analysis does not report the true number / orbits / reactions if it does not report at all."""
    try:
        with GEN.cpu_limit(_limit(case)):
            return _oracle(case)
    except GEN.CaseTimeout:
        return [dict(clause="no-answer", detail="no answer within %g CPU-s on this input (implementation calls + brute-force reference; "
                                                "the largest case of this kind on the unchanged tree needs a sixth of that)" % _limit(case))]


def _oracle(case):
    k = case["kind"]
    if k == "aut":
        return _oracle_aut(case)[:3]
    if k == "dedup":
        return _oracle_dedup(case)[:3]
    if k == "hist":
        return _oracle_hist(case)[:3]
    if k == "keys":
        return _oracle_aut_g(case["g"], case["nk"], ek=case["ek"])[:3]
    if k == "views":
        return []            # derived views of the two classes, not named by the property (correspondence only)
    if k == "orbacc":
        return []            # orbit.py measures the estimate; the property says nothing about the metrics (correspondence only)
    if k == "prune":
        return _oracle_prune(case)[:3]
    raise AssertionError(k)


# ------------------------------------------------------------------ shrinking / neighbours

SHRINK_SECONDS = 20.0      # wall-clock budget of one shrink() (it runs in the main process, one oracle call per step)


def _still_fails(c2, fl, deadline):
    import time
    if time.time() > deadline:
        return False
    try:
        with GEN.cpu_limit(5.0):
            return any(f["clause"] == fl["clause"] for f in _oracle(c2))
    except (Exception, GEN.CaseTimeout):
        return False


def shrink(case, fl):
    import time
    deadline = time.time() + SHRINK_SECONDS
    if fl.get("clause") == "no-answer":
        return case                      # re-running an input that does not answer costs the whole bound per step
    if case["kind"] == "aut" and len(case["g"]["nodes"]) > 14:
        return case                      # every shrinking step re-runs the oracle: bounded work only
    if case["kind"] == "dedup" and len(case["ms"]) > 40:
        return case
    if case["kind"] == "aut":
        g = case["g"]
        changed = True
        while changed:
            changed = False
            for n, _ in list(g["nodes"]):
                cand = {"nodes": [x for x in g["nodes"] if x[0] != n], "edges": [e for e in g["edges"] if n not in e[:2]]}
                c2 = dict(case, g=cand, name=case.get("name", "") + "(shrunk)")
                if _still_fails(c2, fl, deadline):
                    g, changed = cand, True
                    break
        return dict(case, g=g, name=case.get("name", "") + "(shrunk)")
    if case["kind"] == "dedup":
        ms = list(case["ms"])
        changed = True
        while changed and len(ms) > 1:
            changed = False
            for k in range(len(ms)):
                c2 = dict(case, ms=ms[:k] + ms[k + 1:])
                if _still_fails(c2, fl, deadline):
                    ms, changed = c2["ms"], True
                    break
        return dict(case, ms=ms, name=case.get("name", "") + "(shrunk)")
    return case


MAX_NEIGHBOURS = 8         # per disagreeing case (the framework searches the neighbours of up to 20 cases with impl + oracle each)


def neighbours(case, rng):
    out = _neighbours(case, rng)
    if len(out) > MAX_NEIGHBOURS:
        out = rng.sample(out, MAX_NEIGHBOURS)
    return out


def _neighbours(case, rng):
    if case["kind"] == "aut" and len(case["g"]["nodes"]) > 14:
        return []
    if case["kind"] == "aut":
        g = case["g"]
        out = []
        for n, _ in g["nodes"]:
            out.append(dict(case, name="drop-node", g={"nodes": [x for x in g["nodes"] if x[0] != n],
                                                       "edges": [e for e in g["edges"] if n not in e[:2]]}))
        for k in range(len(g["edges"])):
            out.append(dict(case, name="drop-edge", g={"nodes": g["nodes"], "edges": g["edges"][:k] + g["edges"][k + 1:]}))
        return out
    if case["kind"] == "dedup":
        return [dict(case, name="prefix", ms=case["ms"][:k]) for k in range(1, len(case["ms"]) + 1)][:30]
    if case["kind"] == "prune":
        return [dict(case, name="flip", invert=not case["invert"]), dict(case, name="core", core=not case["core"])]
    return []


# ------------------------------------------------------------------ evidence helpers

def _dedup_results(obs):
    """flat list of the per-configuration results of a dedup observable"""
    return list(obs[0][0][0]) + list(obs[0][1:]) + list(obs[2:2 + 3]) + [obs[1]]


def _prune_core(obs):
    """(the 5-element observable of a rule application, images flag or None, agreement flag or None): the optional layers are
    [X, bool] (images_ok) around [X, [bool]] (agreeb)"""
    img = agr = None
    if isinstance(obs, list) and len(obs) == 2 and isinstance(obs[1], bool):
        obs, img = obs[0], obs[1]
    if isinstance(obs, list) and len(obs) == 2 and isinstance(obs[1], list) and len(obs[1]) == 1 and isinstance(obs[1][0], bool):
        obs, agr = obs[0], obs[1][0]
    return obs, img, agr


def nontrivial(case, obs):
    k = case["kind"]
    if k == "hist":
        return len(case["steps"]) >= 2
    if k == "orbacc":
        return obs[0] == 0 and len(case["A"]) >= 2
    if k == "views":
        return len(case["g"]["nodes"]) >= 2
    if k == "keys" or case.get("attr"):
        return obs[0][0] > 1 or any(len(o) >= 2 for o in obs[2][1])
    if k == "dedup":
        return any(r[0] == 0 and len(r[1]) < len(case["ms"]) for r in _dedup_results(obs)[:-1])
    if k == "prune":
        obs = _prune_core(obs)[0]
    obs = obs[0]
    if k == "aut":
        return len(case["g"]["nodes"]) >= 2 and (obs[0] > 1 or any(len(o) >= 2 for o in obs[4][1]))
    if k == "dedup":
        return any(r[0] == 0 and len(r[1]) < len(case["ms"]) for r in obs)
    if k == "prune":
        return len(obs[0]) >= 2
    return False


def distribution(cases, obss):
    d = dict(aut_nodes={}, aut_group_order={}, aut_components={}, dedup_list_len={}, dedup_dropped={}, dedup_errors=0,
             prune_raw={}, prune_kept_fraction={}, prune_rule_aut={}, prune_every_raw_match_represented={}, hist_scripts={}, key_configurations={})

    def bump(t, k):
        t[str(k)] = t.get(str(k), 0) + 1

    def bucket(n):
        for b in (0, 1, 2, 4, 8, 16, 32, 64, 128, 512, 4096):
            if n <= b:
                return "<=%d" % b
        return ">4096"
    for c, o in zip(cases, obss):
        if not isinstance(o, list) or not o or o[0] == "EXC":
            continue
        if c["kind"] == "hist":
            bump(d["hist_scripts"], "%s/%d steps" % (c["script"], len(c["steps"])))
            continue
        if c["kind"] == "views":
            bump(d.setdefault("views", {}), "connected" if o[2] else "disconnected")
            continue
        if c["kind"] == "orbacc":
            bump(d.setdefault("orbit_accuracy", {}), "ValueError" if o[0] == 1 else ("perfect" if o[4][0] == o[4][1] else "imperfect"))
            continue
        if c["kind"] == "keys":
            bump(d["key_configurations"], "nodes=%r edges=%r" % (c["nk"], c["ek"]))
            continue
        full, o = o, o[0]
        if c["kind"] == "aut":
            bump(d["aut_nodes"], len(c["g"]["nodes"]))
            bump(d["aut_group_order"], bucket(o[0]))
            bump(d["aut_components"], min(len(o[2]), 5))
        elif c["kind"] == "dedup":
            bump(d["dedup_list_len"], bucket(len(c["ms"])))
            for ci, r in enumerate(_dedup_results(full)[:-1]):
                if r[0] == 1:
                    d["dedup_errors"] += 1
                elif len(r[1]) < len(c["ms"]):
                    bump(d["dedup_dropped"], "cfg%d" % ci)
        elif c["kind"] == "prune":
            full, img, agr = _prune_core(full)
            o = full[0]
            if img is not None:
                bump(d.setdefault("prune_same_labelled_images", {}), img)
            bump(d.setdefault("prune_rule_centre_encodings_agree", {}), "n/a" if agr is None else agr)
            bump(d["prune_every_raw_match_represented"], bool(full[3]) if len(full) > 3 else "n/a")
            bump(d["prune_raw"], bucket(len(o[0])))
            bump(d["prune_rule_aut"], bucket(o[2]))
            if len(o[0]) > 1:
                bump(d["prune_kept_fraction"], "%.1f" % (len(o[1]) / len(o[0])))
    return d


# ------------------------------------------------------------------ generators

def gen_cases(tier, rng):
    worker_init()
    return GEN.gen_cases(tier, rng)
